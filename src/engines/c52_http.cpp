// C52 — HTTP requests are parsed the same however the bytes arrive.
// compsim: one byte stream built from a request grammar (pipelined requests, Content-Length and chunked
// bodies with extensions/trailers, duplicate/garbled lengths, bare CR, NUL, near-limit and over-limit
// header sections, oversized bodies, HTTP/1.0 vs 1.1 keep-alive, byte mutations) is delivered under several
// fragmentations, (a) straight into HTTPRemoteClient::m_recv_buffer/ReadRequest ("parser" mode) and (b) through
// the real HTTPServer I/O loop (ThreadSocketHandler run on the simulator's thread) over simulated sockets
// created through the CreateSock seam, with a recording dispatcher ("server" mode; optionally the real
// JSON-RPC HTTP handler with its auth check behind it). Every delivery is compared with the single-chunk
// delivery and with a small reference parser written from the documented rules.
#define BITCOIN_HTTPRPC_H // httprpc.h is not wanted at global scope: httprpc.cpp is compiled into namespace c52rpc below

#include "../core/sim.h"

#include <common/args.h>
#include <common/settings.h>
#include <crypto/hmac_sha256.h>
#include <httpserver.h>
#include <netaddress.h>
#include <netbase.h>
#include <rpc/protocol.h>
#include <rpc/request.h>
#include <rpc/server.h>
#include <univalue.h>
#include <util/fs.h>
#include <util/fs_helpers.h>
#include <util/log.h>
#include <util/sock.h>
#include <util/strencodings.h>
#include <util/string.h>
#include <util/time.h>
#include <walletinitinterface.h>

#include <algorithm>
#include <any>
#include <array>
#include <cerrno>
#include <deque>
#include <iterator>
#include <map>
#include <memory>
#include <optional>
#include <set>
#include <string>
#include <string_view>
#include <vector>

#include <arpa/inet.h>
#include <netinet/in.h>
#include <sys/socket.h>

// ---------------------------------------------------------------------------------------------
// The JSON-RPC HTTP handler (HTTPReq_JSONRPC, RPCAuthorized, CheckUserAuthorized, InitRPCAuthentication) has
// internal linkage in httprpc.cpp and is reachable in the linked library only through the worker thread pool of
// httpserver.cpp. To drive it without threads the unchanged source file is compiled a second time into this
// namespace. The only seam: its 250 ms brute-force deterrent sleep becomes simulated time.
class JSONRPCRequest;
class UniValue;
namespace c52rpc {
static uint64_t g_slept_ms = 0;
inline void UninterruptibleSleep(const std::chrono::microseconds& n) { g_slept_ms += (uint64_t)(n.count() / 1000); }
#include <httprpc.cpp>
} // namespace c52rpc

using namespace sim;

namespace {

using http_bitcoin::HTTPRemoteClient;
using http_bitcoin::HTTPRequest;
using http_bitcoin::HTTPServer;

// Limits as documented (property statement / httpserver.h comments); deliberately not taken from the code.
constexpr size_t LIM_LINE = 8192;
constexpr size_t LIM_HDRS = 8192;
constexpr uint64_t LIM_BODY = 32ull * 1024 * 1024;
constexpr size_t MIN_REQLINE = 14;

enum OpKind { REQ, RAW, MUT, VARIANT, N_OPS };

// ---------------------------------------------------------------------------------------------
// access to the private I/O loop entry point (explicit instantiation may name private members)
namespace access {
template <typename Tag, typename Tag::type M>
struct Rob {
    friend typename Tag::type Get(Tag) { return M; }
};
struct LoopTag {
    using type = void (HTTPServer::*)();
    friend type Get(LoopTag);
};
template struct Rob<LoopTag, &HTTPServer::ThreadSocketHandler>;
} // namespace access

// ---------------------------------------------------------------------------------------------
// small independent helpers (no bitcoin code)

const char kB64[] = "ABCDEFGHIJKLMNOPQRSTUVWXYZabcdefghijklmnopqrstuvwxyz0123456789+/";

std::string B64Enc(std::string_view in)
{
    std::string out;
    size_t i = 0;
    while (i + 2 < in.size()) {
        uint32_t v = ((unsigned char)in[i] << 16) | ((unsigned char)in[i + 1] << 8) | (unsigned char)in[i + 2];
        out += kB64[(v >> 18) & 63]; out += kB64[(v >> 12) & 63]; out += kB64[(v >> 6) & 63]; out += kB64[v & 63];
        i += 3;
    }
    if (in.size() - i == 1) {
        uint32_t v = ((unsigned char)in[i] << 16);
        out += kB64[(v >> 18) & 63]; out += kB64[(v >> 12) & 63]; out += "==";
    } else if (in.size() - i == 2) {
        uint32_t v = ((unsigned char)in[i] << 16) | ((unsigned char)in[i + 1] << 8);
        out += kB64[(v >> 18) & 63]; out += kB64[(v >> 12) & 63]; out += kB64[(v >> 6) & 63]; out += '=';
    }
    return out;
}

/** lenient decoder: decodes the longest prefix made of alphabet characters */
std::string B64DecLenient(std::string_view in)
{
    std::string out;
    uint32_t acc = 0;
    int bits = 0;
    for (char ch : in) {
        const char* p = ch ? strchr(kB64, ch) : nullptr;
        if (!p) break;
        acc = (acc << 6) | (uint32_t)(p - kB64);
        bits += 6;
        if (bits >= 8) {
            bits -= 8;
            out += (char)((acc >> bits) & 0xff);
        }
    }
    return out;
}

bool IsWs(char c) { return c == ' ' || c == '\f' || c == '\n' || c == '\r' || c == '\t' || c == '\v'; }

std::string_view Trim(std::string_view s)
{
    while (!s.empty() && IsWs(s.front())) s.remove_prefix(1);
    while (!s.empty() && IsWs(s.back())) s.remove_suffix(1);
    return s;
}

std::string Lower(std::string_view s)
{
    std::string o(s);
    for (auto& c : o)
        if (c >= 'A' && c <= 'Z') c = (char)(c - 'A' + 'a');
    return o;
}

bool IEq(std::string_view a, std::string_view b) { return Lower(a) == Lower(b); }

std::string Hex(uint64_t v, bool upper)
{
    char b[32];
    snprintf(b, sizeof b, upper ? "%lX" : "%lx", (unsigned long)v);
    return b;
}

std::string Printable(std::string_view s, size_t max = 60)
{
    std::string o;
    for (size_t i = 0; i < s.size() && i < max; ++i) {
        unsigned char c = (unsigned char)s[i];
        if (c == '\r') o += "\\r";
        else if (c == '\n') o += "\\n";
        else if (c < 32 || c > 126) { char b[8]; snprintf(b, sizeof b, "\\x%02x", c); o += b; }
        else o += (char)c;
    }
    if (s.size() > max) o += "...(" + std::to_string(s.size()) + ")";
    return o;
}

// ---------------------------------------------------------------------------------------------
// credentials configuration (rpc mode), a function of the "cred" knob only

struct Cred {
    std::string user, pass;
    bool via_rpcauth; //!< configured as -rpcauth=user:salt$hmac instead of -rpcuser/-rpcpassword
};

std::vector<Cred> MakeCreds(int64_t knob)
{
    static const char* passes[] = {"s3cret", "pa:ss", "p", "correct horse battery", "Sesame0pen"};
    std::vector<Cred> v;
    uint64_t k = (uint64_t)knob;
    v.push_back({"alice", passes[k % 5], false});
    if ((k / 5) % 3 >= 1) v.push_back({"bob", passes[(k / 15 + 1) % 5], true});
    if ((k / 5) % 3 == 2) v.push_back({"carol", passes[(k / 15 + 2) % 5], true});
    return v;
}

// ---------------------------------------------------------------------------------------------
// the request grammar: ops -> bytes

struct Stream {
    std::string s;
    std::vector<size_t> marks; //!< structurally interesting offsets (line ends, body/chunk boundaries)
    void mark() { marks.push_back(s.size()); }
};

const char* kMethods[] = {"GET", "POST", "HEAD", "PUT", "OPTIONS", "DELETE", "get", "PATCH"};
constexpr int N_METHODS = 8;
const char* kVersions[] = {"HTTP/1.1", "HTTP/1.0", "HTTP/1.2", "HTTP/1.9", "HTTP/2.0", "HTTP/1.10", "HTTP/1", "http/1.1", "HTTP/01.1", "HTTP/1.+", "HTTP/1.1\t", "HTTP/HTTP/1.1"};
constexpr int N_VERSIONS = 12;
constexpr int N_TARGETS = 10;
constexpr int N_CONN = 6;
enum BodyKind { B_NONE, B_CL, B_CL_DUP_SAME, B_CL_DUP_DIFF, B_CL_BAD, B_CL_TOO_LARGE, B_CL_MAX, B_CHUNKED, B_CHUNKED_AND_CL, B_CHUNKED_FLAW, B_TE_OTHER, B_CL_OFF, N_BODY };
enum Flaw { F_NONE, F_BARE_CR, F_NUL_HDR, F_NUL_REQLINE, F_NO_COLON, F_WS_NAME, F_EMPTY_NAME, F_DOUBLE_SPACE, F_SHORT_LINE, F_LEADING_EMPTY, F_LONG_HDR, F_LONG_REQLINE, F_TAB_REQLINE, F_OBS_FOLD, F_CR_ONLY_EOL, F_CRCRLF, N_FLAW };
constexpr int N_AUTH = 12;
constexpr int N_JSON = 8;

std::string MakeTarget(int idx, Rng& r)
{
    switch (idx) {
    case 0: return "/";
    case 1: return "/wallet/w1";
    case 2: return "/rest/chaininfo.json";
    case 3: return "/rest/headers/5/00000000839a8e6886ab5951d76f411475428afc90947ee320161bbf18eb6048.json?count=5";
    case 4: return "/wallet/";
    case 5: return "*";
    case 6: return "/a%20b?x=1&y=2#frag";
    case 7: return "/" + std::string((size_t)r.skewed(1, 8100), 't');
    case 8: return "";
    default: return "/rest/tx/" + std::string((size_t)r.range(1, 64), 'e') + ".hex";
    }
}

std::string MakeBodyBytes(size_t len, uint64_t seed)
{
    Rng r(seed);
    std::string b;
    b.reserve(len);
    int kind = (int)r.below(4);
    if (len > 4096) kind = 3;
    switch (kind) {
    case 0: { // json-ish text
        static const char pat[] = "{\"method\":\"getblockcount\",\"params\":[],\"id\":1}\n";
        while (b.size() < len) b += pat[b.size() % (sizeof(pat) - 1)];
        break;
    }
    case 1: // bytes that look like protocol elements
        while (b.size() < len) {
            static const char* bits[] = {"\r\n", "\n", "0\r\n\r\n", "5\r\n", "GET / HTTP/1.1\r\n", ":", ";", "\r", "x", "Content-Length: 3\r\n"};
            b += bits[r.below(10)];
        }
        b.resize(len);
        break;
    case 2: // binary incl. NUL
        b.resize(len);
        r.fill((unsigned char*)b.data(), len);
        break;
    default: { // cheap position-dependent pattern for big bodies
        b.resize(len);
        uint64_t x = r.next();
        for (size_t i = 0; i < len; ++i) b[i] = (char)('a' + ((i * 7 + (i >> 9) + x) % 26));
        break;
    }
    }
    return b;
}

std::string MakeJson(int kind, Rng& r)
{
    int n = (int)r.below(1000);
    switch (kind) {
    case 1: return "{\"method\":\"c52probe\",\"params\":[" + std::to_string(n) + "],\"id\":" + std::to_string(n) + "}";
    case 2: return "{\"jsonrpc\":\"2.0\",\"method\":\"c52probe\",\"params\":[],\"id\":\"q" + std::to_string(n) + "\"}\n";
    case 3: return "[{\"method\":\"c52probe\",\"params\":[1],\"id\":1},{\"jsonrpc\":\"2.0\",\"method\":\"c52probe\",\"id\":2},{\"method\":\"nosuch\",\"id\":3}]";
    case 4: return "{\"jsonrpc\":\"2.0\",\"method\":\"c52probe\",\"params\":[]}";
    case 5: return "{\"method\":\"nosuchmethod\",\"params\":[],\"id\":1}";
    case 6: return "{\"method\":\"c52probe\",";
    default: return "{\"method\":\"c52probe\",\"params\":{\"tag\":" + std::to_string(n) + "},\"id\":7}";
    }
}

std::string MakeAuthValue(int kind, Rng& r, const std::vector<Cred>& creds, std::string* second)
{
    const Cred& c = creds[r.below(creds.size())];
    const Cred& d = creds[(r.below(creds.size()) + 1) % creds.size()];
    std::string good = B64Enc(c.user + ":" + c.pass);
    switch (kind) {
    case 1: return "Basic " + good;
    case 2: return "Basic " + B64Enc(c.user + ":" + (&c == &d ? c.pass + "x" : d.pass == c.pass ? c.pass + "y" : d.pass));
    case 3: {
        std::string p = c.pass;
        switch (r.below(5)) {
        case 0: p = p.substr(0, p.size() - 1); break;
        case 1: p += "0"; break;
        case 2: p = ""; break;
        case 3: p[0] = (char)(p[0] ^ 0x20); break;
        default: p = " " + p; break;
        }
        return "Basic " + B64Enc(c.user + ":" + p);
    }
    case 4: return "Basic " + B64Enc((r.coin() ? "mallory" : c.user + "x") + std::string(":") + c.pass);
    case 5: return "Basic " + B64Enc(c.user + c.pass);
    case 6: return r.coin() ? "Basic !!!not-base64!!!" : "Basic " + good.substr(0, good.size() / 2) + "*" + good.substr(good.size() / 2);
    case 7:
        switch (r.below(4)) {
        case 0: return "Bearer " + good;
        case 1: return "basic " + good;
        case 2: return "Basic" + good;
        default: return "Basic   " + good + "  ";
        }
    case 8: return "";
    case 9: return "Basic " + good + " junk";
    case 10:
        if (r.coin()) { *second = "Basic " + good; return "Basic " + B64Enc("mallory:" + c.pass); }
        *second = "Basic " + B64Enc("mallory:x");
        return "Basic " + good;
    default: {
        std::string g = good;
        if (r.coin()) { while (!g.empty() && g.back() == '=') g.pop_back(); } else g += "=";
        return "Basic " + g;
    }
    }
}

struct HLine {
    std::string text, eol;
    size_t size() const { return text.size() + eol.size(); }
};

/** Append one request described by a REQ op. */
void AppendRequest(Stream& st, const Op& op, const std::vector<Cred>& creds)
{
    Rng r((uint64_t)op.arg(9));
    const int eol_style = (int)op.mod(3, 3);
    auto eol = [&]() -> std::string { return eol_style == 0 ? "\r\n" : eol_style == 1 ? "\n" : (r.coin() ? "\r\n" : "\n"); };
    const int flaw = (int)op.mod(7, N_FLAW);
    const int bk = (int)op.mod(5, N_BODY);
    const size_t blen = (size_t)std::clamp<int64_t>(op.arg(6), 0, 400000);
    std::string method = kMethods[op.mod(0, N_METHODS)];
    std::string target = MakeTarget((int)op.mod(1, N_TARGETS), r);
    std::string version = kVersions[op.mod(2, N_VERSIONS)];

    // --- request line
    std::string reqline = method + " " + target + " " + version;
    switch (flaw) {
    case F_NUL_REQLINE: reqline = method + " /a" + std::string(1, '\0') + "b " + version; break;
    case F_DOUBLE_SPACE: reqline = method + "  " + target + " " + version; break;
    case F_SHORT_LINE: reqline = r.coin() ? "G / HTTP/1.1" : "GET / HTTP/1."; break;
    case F_LONG_REQLINE: { // total line length (without line terminator) within a few bytes of the limit
        size_t fixed = method.size() + 2 + 1 + version.size(), want = LIM_LINE - 3 + r.below(7);
        reqline = method + " /" + std::string(want > fixed ? want - fixed : 1, 'q') + " " + version;
        break;
    }
    case F_TAB_REQLINE: reqline = method + "\t" + target + " " + version; break;
    default: break;
    }
    if (flaw == F_LEADING_EMPTY) { st.s += eol(); st.mark(); }
    st.s += reqline;
    if (flaw == F_CR_ONLY_EOL) st.s += "\r";
    else st.s += eol();
    st.mark();

    // --- header lines
    std::vector<HLine> H;
    auto add = [&](const std::string& t) { H.push_back({t, eol()}); };
    static const char* pool[] = {"Host: 127.0.0.1:8332", "User-Agent: c52/1.0", "Accept: */*", "Content-Type: application/json", "X-Empty:", "X-Colons: a:b:c",
                                 "X-Spaces:    padded value   ", "X-Tab:\tv\t", "x-lower: v", "X-Dup: 1", "X-Dup: 2", "X-Hi: \xc3\xa9\xff", "X-Semi: a;b=c", "X-Ws:\f\v x \v\f"};
    int ngen = (int)r.below(5);
    for (int i = 0; i < ngen; ++i) add(pool[r.below(14)]);
    auto insert_at_random = [&](const std::string& t) { H.insert(H.begin() + r.below(H.size() + 1), HLine{t, eol()}); };

    // authorization (rpc mode)
    const int auth = (int)op.mod(10, N_AUTH);
    if (auth != 0 && !creds.empty()) {
        std::string second;
        bool has_second = false;
        std::string v = MakeAuthValue(auth, r, creds, &second);
        has_second = !second.empty();
        static const char* names[] = {"Authorization", "authorization", "AUTHORIZATION"};
        std::string line = std::string(names[r.below(3)]) + ":" + (v.empty() ? "" : " ") + v;
        size_t at = r.below(H.size() + 1);
        H.insert(H.begin() + at, HLine{line, eol()});
        if (has_second) H.insert(H.begin() + at + 1 + r.below(H.size() - at), HLine{"Authorization: " + second, eol()});
    }

    // connection header
    switch (op.mod(4, N_CONN)) {
    case 1: insert_at_random("Connection: close"); break;
    case 2: insert_at_random("Connection: keep-alive"); break;
    case 3: insert_at_random("connection: Keep-Alive"); break;
    case 4: insert_at_random("CONNECTION: CLOSE"); break;
    case 5: insert_at_random("Connection:   Close  "); break;
    default: break;
    }

    // body
    const int json = (int)op.mod(11, N_JSON);
    std::string body = json ? MakeJson(json, r) : MakeBodyBytes(bk == B_NONE ? 0 : blen, (uint64_t)op.arg(9) ^ 0x9e37);
    std::string wire_body;        // bytes after the header section
    std::vector<HLine> trailers;  // chunked trailer lines (counted against the header limit)
    bool chunked = false;
    bool last_chunk_emitted = false; //!< the zero-size chunk line was written: trailers and the final blank line follow
    const std::string L = std::to_string(body.size());
    static const char* cl_names[] = {"Content-Length", "content-length", "CONTENT-LENGTH"};
    const std::string CLN = cl_names[r.below(3)];
    switch (bk) {
    case B_NONE: body.clear(); break;
    case B_CL: insert_at_random(CLN + ": " + L); wire_body = body; break;
    case B_CL_DUP_SAME: insert_at_random(CLN + ": " + L); insert_at_random("Content-Length:" + L + " "); wire_body = body; break;
    case B_CL_DUP_DIFF: insert_at_random(CLN + ": " + L); insert_at_random("Content-Length: " + (r.coin() ? "0" + L : std::to_string(body.size() + 1))); wire_body = body; break;
    case B_CL_BAD: {
        static const char* bad[] = {"-1", "+5", "5 5", "0x5", "5.0", "", "5;", "18446744073709551616", "99999999999999999999999", "five", "5,5"};
        insert_at_random(CLN + ": " + bad[r.below(11)]);
        wire_body = body;
        break;
    }
    case B_CL_TOO_LARGE: {
        static const char* big[] = {"33554433", "18446744073709551615", "4294967296", "33554433000"};
        insert_at_random(CLN + ": " + big[r.below(4)]);
        wire_body = body;
        break;
    }
    case B_CL_MAX: insert_at_random(CLN + ": 33554432"); wire_body = body; break; // legal; the request stays incomplete and swallows what follows
    case B_CL_OFF: {
        int64_t d = r.coin() ? -(int64_t)r.range(1, 3) : (int64_t)r.range(1, 20);
        int64_t n = std::max<int64_t>(0, (int64_t)body.size() + d);
        insert_at_random(CLN + ": " + std::to_string(n));
        wire_body = body;
        break;
    }
    case B_TE_OTHER: {
        static const char* te[] = {"gzip", "chunked, gzip", "identity", "gzip, chunked", "chunked;q=1", "xchunked"};
        insert_at_random(std::string("Transfer-Encoding: ") + te[r.below(6)]);
        if (r.coin()) { insert_at_random(CLN + ": " + L); wire_body = body; } else body.clear();
        break;
    }
    case B_CHUNKED:
    case B_CHUNKED_AND_CL:
    case B_CHUNKED_FLAW: {
        chunked = true;
        static const char* te_names[] = {"Transfer-Encoding: chunked", "transfer-encoding: Chunked", "Transfer-Encoding:CHUNKED", "TRANSFER-ENCODING:  chunked  "};
        std::string te_line = te_names[r.below(4)];
        if (bk == B_CHUNKED_AND_CL) {
            std::string cl = CLN + ": " + std::to_string(r.coin() ? body.size() : r.below(100));
            size_t at = r.below(H.size() + 1);
            H.insert(H.begin() + at, HLine{te_line, eol()});
            H.insert(H.begin() + r.below(H.size() + 1), HLine{cl, eol()});
        } else {
            insert_at_random(te_line);
        }
        static const char* exts[] = {"", "", "", ";ext", ";a=b", " ; q=\"x y\"", ";\t", ";x=1;y=2"};
        size_t maxchunk = std::max<size_t>(1, r.chance(1, 3) ? 8 : r.chance(1, 2) ? 200 : body.size());
        maxchunk = std::max(maxchunk, body.size() / 40); // keep the number of chunks of a big body small
        std::vector<size_t> sizes;
        for (size_t p = 0; p < body.size();) {
            size_t sz = std::min<size_t>(body.size() - p, (size_t)r.skewed(1, (int64_t)maxchunk));
            sizes.push_back(sz);
            p += sz;
        }
        const int sub = bk == B_CHUNKED_FLAW ? (int)r.pick({2, 2, 3, 2, 1, 1, 1, 1, 2, 2, 4, 1, 3}) : -1;
        const size_t flaw_at = r.below(sizes.size() + 1);
        size_t p = 0;
        bool cut = false;
        auto size_line = [&](uint64_t sz) {
            std::string h = Hex(sz, r.coin());
            if (r.chance(1, 5)) h = std::string(r.range(1, 20), '0') + h;
            if (r.chance(1, 8)) h = " " + h + " ";
            return h + exts[r.below(8)];
        };
        for (size_t i = 0; i <= sizes.size() && !cut; ++i) {
            if (sub >= 0 && i == flaw_at) {
                switch (sub) {
                case 0: wire_body += "xyz" + eol(); cut = true; break;
                case 1: if (i < sizes.size()) { wire_body += size_line(sizes[i]) + eol() + body.substr(p, sizes[i]) + "X" + eol(); cut = true; } break;
                case 2: wire_body += "2000001" + eol(); cut = true; break;
                case 3: wire_body += "10000000000000000" + eol(); cut = true; break;
                case 4: wire_body += eol(); cut = true; break;
                case 5: wire_body += "-5" + eol(); cut = true; break;
                case 6: wire_body += "0x5" + eol(); cut = true; break;
                case 7: wire_body += "5 abc" + eol(); cut = true; break;
                case 8: wire_body += Hex((i < sizes.size() ? sizes[i] : 0) + r.range(1, 40), false) + eol(); break; // declares more than it carries: swallows what follows
                case 9: break; // handled in trailers
                case 10: wire_body += "10" + eol() + "no auto updates!" + eol() + "1fffff1" + eol(); body = body.substr(0, p) + "no auto updates!"; cut = true; break;
                case 12: {
                    // a size that fits 64 bits but is close to 2^64 (the running total would wrap), preferably after a non-empty chunk
                    static const char* huge[] = {"ffffffffffffffff", "fffffffffffffff0", "FFFFFFFFFFFFFFFE", "8000000000000000", "ffffffffffff0000"};
                    wire_body += std::string(huge[r.below(5)]) + eol();
                    cut = true;
                    break;
                }
                default: wire_body += std::string(r.range(17, 40), 'f') + eol(); cut = true; break;
                }
                if (cut) break;
            }
            if (i == sizes.size()) break;
            wire_body += size_line(sizes[i]) + eol();
            wire_body += body.substr(p, sizes[i]);
            wire_body += eol();
            p += sizes[i];
        }
        if (!cut) {
            last_chunk_emitted = true;
            wire_body += (r.chance(1, 6) ? "000" : "0") + std::string(exts[r.below(8)]) + eol();
            int ntr = r.chance(1, 2) ? 0 : (int)r.range(1, 3);
            for (int i = 0; i < ntr; ++i) {
                static const char* tr[] = {"Digest: sha-4=deadbeef", "Expires: never", "X-Trailer:", "x-t: a:b"};
                trailers.push_back({tr[r.below(4)], eol()});
            }
            if (sub == 9) trailers.push_back({r.coin() ? "trailer without colon" : "bad name: v", eol()});
        }
        break;
    }
    }

    // header-level flaws
    switch (flaw) {
    case F_BARE_CR: insert_at_random("X-Cr: a\rb"); break;
    case F_NUL_HDR: insert_at_random(std::string("X-Nul: a") + '\0' + "b"); break;
    case F_NO_COLON: insert_at_random("Invalid header with no colon"); break;
    case F_WS_NAME: insert_at_random(r.coin() ? "X Y: v" : "X-Sp : v"); break;
    case F_EMPTY_NAME: insert_at_random(": v"); break;
    case F_LONG_HDR: insert_at_random("X-Long: " + std::string(LIM_LINE - 12 + r.below(24), 'L')); break;
    case F_OBS_FOLD: insert_at_random(r.coin() ? " folded: continuation" : "\tfolded continuation"); break;
    case F_CRCRLF: H.insert(H.begin() + r.below(H.size() + 1), HLine{"X-CrCr: v\r", "\r\n"}); break;
    default: break;
    }

    // filler so that headers (+ trailers) consume exactly fill_target bytes
    const std::string blank = eol(), tblank = eol();
    const int64_t fill = op.arg(8);
    if (fill > 0) {
        size_t cur = blank.size();
        for (auto& h : H) cur += h.size();
        const bool count_trailers = chunked && !trailers.empty();
        if (count_trailers) { cur += tblank.size(); for (auto& t : trailers) cur += t.size(); }
        int64_t need = fill - (int64_t)cur;
        const bool into_trailers = count_trailers && r.coin();
        while (need >= 4) {
            int64_t take = std::min<int64_t>(need, 2004);
            if (need - take > 0 && need - take < 4) take -= 4;
            HLine f{"F:" + std::string((size_t)take - 4, 'a'), "\r\n"};
            if (into_trailers) trailers.insert(trailers.begin() + r.below(trailers.size() + 1), f);
            else H.insert(H.begin() + r.below(H.size() + 1), f);
            need -= take;
        }
    }

    for (auto& h : H) {
        st.s += h.text;
        if (h.eol == "\r\n") { st.s += '\r'; st.mark(); st.s += '\n'; } else st.s += h.eol;
        st.mark();
    }
    st.s += blank;
    st.mark();
    // body bytes; marks at line ends inside chunked framing are added by scanning below
    size_t body_at = st.s.size();
    st.s += wire_body;
    if (chunked && !wire_body.empty()) {
        // a bounded number of marks inside the chunked framing
        size_t stride = std::max<size_t>(1, wire_body.size() / 48);
        for (size_t i = body_at; i < st.s.size(); ++i)
            if (st.s[i] == '\n' && (i - body_at) % stride < 8) { st.marks.push_back(i); st.marks.push_back(i + 1); }
    }
    if (last_chunk_emitted) {
        for (auto& t : trailers) { st.s += t.text + t.eol; st.mark(); }
        st.s += tblank; // (when the framing was cut by a flaw, whatever follows in the stream is what the parser sees next)
    }
    st.mark();
}

void AppendRaw(Stream& st, const Op& op)
{
    Rng r((uint64_t)op.arg(2));
    size_t len = (size_t)std::clamp<int64_t>(op.arg(1), 0, 20000);
    switch (op.mod(0, 7)) {
    case 0: for (size_t i = 0; i < len; ++i) st.s += (char)('!' + r.below(90)); st.s += "\r\n"; break;
    case 1: st.s += "\r\n"; break;
    case 2: st.s += "\n"; break;
    case 3: { std::string b(len, 0); r.fill((unsigned char*)b.data(), len); st.s += b; break; }
    case 4: st.s += std::string("GET / HTTP/1.1\r\nHost: x").substr(0, 1 + r.below(22)); break;
    case 5: st.s += "\r\n\r\n"; break;
    default: st.s += std::string(len, ' '); break;
    }
    st.mark();
}

void ApplyMut(Stream& st, const Op& op)
{
    if (st.s.empty()) return;
    static const unsigned char bytes[] = {'\r', '\n', 0, ' ', ':', ';', '0', 'f', '-', '+', 0xff, 'A', '\t', '1', '9', '.', '/'};
    size_t pos = op.mod(0, st.s.size());
    char b = (char)bytes[op.mod(2, sizeof bytes)];
    switch (op.mod(1, 5)) {
    case 0: st.s[pos] = b; break;
    case 1: st.s.insert(st.s.begin() + pos, b); break;
    case 2: st.s.erase(st.s.begin() + pos); break;
    case 3: { size_t n = std::min<size_t>(st.s.size() - pos, 1 + op.mod(2, 40)); std::string d = st.s.substr(pos, n); st.s.insert(pos, d); break; }
    default: st.s.resize(pos); break;
    }
    st.marks.push_back(pos);
}

Stream BuildStream(const Plan& plan, const std::vector<Cred>& creds)
{
    Stream st;
    for (const Op& op : plan.ops) {
        if (st.s.size() > 1500000) break;
        if (op.kind == REQ) AppendRequest(st, op, creds);
        else if (op.kind == RAW) AppendRaw(st, op);
    }
    for (const Op& op : plan.ops)
        if (op.kind == MUT) ApplyMut(st, op);
    return st;
}

// ---------------------------------------------------------------------------------------------
// reference parser: whole-stream, non-incremental, written from the documented rules
//  * a line ends at LF, one CR before it is dropped; more than 8192 bytes without LF is an error (400)
//  * request line: at least 14 bytes, no NUL, exactly three SP-separated words, version exactly "HTTP/1.<digit>";
//    method GET/POST/HEAD/PUT, anything else is passed on as "unknown"
//  * header section (and, for chunked bodies, the trailer section counted together with it): at most 8192 bytes
//    including line terminators and the closing empty line; each line "name:value", name non-empty and free of
//    whitespace, no CR/NUL anywhere, value trimmed; order and duplicates preserved
//  * body: first Transfer-Encoding header equal to "chunked" (case-insensitive) => chunked coding (hex size,
//    optional ";extension", data, empty line; size 0 ends, then trailers (validated, dropped) and an empty line);
//    else Content-Length (all occurrences textually equal, plain decimal) bytes; else no body.
//    A declared length (or running chunked total) above 32 MiB is "content too large" (413), every other defect 400.

struct RefReq {
    std::string method; //!< GET POST HEAD PUT or "unknown"
    std::string target;
    int minor{1};
    std::vector<std::pair<std::string, std::string>> headers;
    std::string body;
    bool keep_alive{true};
    bool chunked{false};
    size_t end{0}; //!< offset just past this request
    std::string HeaderBlock() const
    {
        std::string o;
        for (auto& [k, v] : headers) o += k + ": " + v + "\r\n";
        return o + "\r\n";
    }
    std::vector<std::string> All(std::string_view name) const
    {
        std::vector<std::string> r;
        for (auto& [k, v] : headers)
            if (IEq(k, name)) r.push_back(v);
        return r;
    }
};

enum SpanType { SP_REQLINE, SP_HEADER, SP_CHUNKSIZE, SP_BODY, SP_TRAILER, N_SPAN };
struct Span { size_t a, b; SpanType t; };

struct Ref {
    std::vector<RefReq> reqs;
    int term{0};       //!< 0: wants more data, 400, 413
    std::string why;   //!< reason of the error (diagnostics only)
    std::vector<Span> spans;
    bool saw_trailers{false}, hdr_exact{false}, hdr_over{false}, dup_cl{false};
};

enum LineSt { L_OK, L_PARTIAL, L_TOOLONG };

LineSt RefLine(std::string_view s, size_t& pos, std::string_view& line)
{
    size_t nl = s.find('\n', pos);
    if (nl == std::string_view::npos) return s.size() - pos > LIM_LINE ? L_TOOLONG : L_PARTIAL;
    if (nl - pos > LIM_LINE) return L_TOOLONG;
    line = s.substr(pos, nl - pos);
    if (!line.empty() && line.back() == '\r') line.remove_suffix(1);
    pos = nl + 1;
    return L_OK;
}

std::optional<uint64_t> RefNum(std::string_view s, int base)
{
    if (s.empty()) return std::nullopt;
    uint64_t v = 0;
    for (char c : s) {
        int d;
        if (c >= '0' && c <= '9') d = c - '0';
        else if (base == 16 && c >= 'a' && c <= 'f') d = c - 'a' + 10;
        else if (base == 16 && c >= 'A' && c <= 'F') d = c - 'A' + 10;
        else return std::nullopt;
        if (v > (UINT64_MAX - (uint64_t)d) / (uint64_t)base) return std::nullopt;
        v = v * (uint64_t)base + (uint64_t)d;
    }
    return v;
}

/** One header/trailer line. Returns false with `why` set if it is malformed. */
bool RefHeaderLine(std::string_view line, std::string& k, std::string& v, std::string& why)
{
    if (line.find('\r') != std::string_view::npos || line.find('\0') != std::string_view::npos) { why = "CR/NUL in header"; return false; }
    size_t c = line.find(':');
    if (c == std::string_view::npos) { why = "no colon"; return false; }
    std::string_view name = line.substr(0, c);
    for (char ch : name)
        if (IsWs(ch)) { why = "whitespace in field name"; return false; }
    if (name.empty()) { why = "empty field name"; return false; }
    k = std::string(name);
    v = std::string(Trim(line.substr(c + 1)));
    return true;
}

Ref RefParse(std::string_view s)
{
    Ref R;
    size_t pos = 0;
    auto fail = [&](int code, const char* why) { R.term = code; R.why = why; };
    while (pos < s.size()) {
        RefReq q;
        std::string_view line;
        size_t at = pos;
        // request line
        switch (RefLine(s, pos, line)) {
        case L_PARTIAL: return R;
        case L_TOOLONG: fail(400, "request line too long"); return R;
        case L_OK: break;
        }
        R.spans.push_back({at, pos, SP_REQLINE});
        if (line.size() < MIN_REQLINE) { fail(400, "request line too short"); return R; }
        if (line.find('\0') != std::string_view::npos) { fail(400, "NUL in request line"); return R; }
        {
            size_t s1 = line.find(' ');
            size_t s2 = s1 == std::string_view::npos ? s1 : line.find(' ', s1 + 1);
            if (s2 == std::string_view::npos || line.find(' ', s2 + 1) != std::string_view::npos) { fail(400, "request line is not three words"); return R; }
            std::string_view m = line.substr(0, s1), ver = line.substr(s2 + 1);
            q.target = std::string(line.substr(s1 + 1, s2 - s1 - 1));
            q.method = (m == "GET" || m == "POST" || m == "HEAD" || m == "PUT") ? std::string(m) : "unknown";
            if (ver.size() != 8 || ver.substr(0, 7) != "HTTP/1." || ver[7] < '0' || ver[7] > '9') { fail(400, "bad version"); return R; }
            q.minor = ver[7] - '0';
        }
        // header section
        size_t hdr_bytes = 0;
        for (;;) {
            at = pos;
            switch (RefLine(s, pos, line)) {
            case L_PARTIAL: return R;
            case L_TOOLONG: fail(400, "header line too long"); return R;
            case L_OK: break;
            }
            R.spans.push_back({at, pos, SP_HEADER});
            hdr_bytes += pos - at;
            if (hdr_bytes > LIM_HDRS) { R.hdr_over = true; fail(400, "headers too large"); return R; }
            if (line.empty()) break;
            std::string k, v, why;
            if (!RefHeaderLine(line, k, v, why)) { fail(400, "malformed header"); R.why = why; return R; }
            q.headers.emplace_back(std::move(k), std::move(v));
        }
        // connection persistence
        {
            auto conn = q.All("Connection");
            std::string c0 = conn.empty() ? "" : Lower(conn[0]);
            q.keep_alive = q.minor == 0 ? c0 == "keep-alive" : c0 != "close";
        }
        // body
        auto te = q.All("Transfer-Encoding");
        if (!te.empty() && Lower(te[0]) == "chunked") {
            q.chunked = true;
            for (;;) {
                at = pos;
                switch (RefLine(s, pos, line)) {
                case L_PARTIAL: return R;
                case L_TOOLONG: fail(400, "chunk size line too long"); return R;
                case L_OK: break;
                }
                R.spans.push_back({at, pos, SP_CHUNKSIZE});
                std::string_view num = Trim(line.substr(0, line.find(';')));
                auto sz = RefNum(num, 16);
                if (!sz) { fail(400, "bad chunk size"); return R; }
                if (*sz > LIM_BODY || q.body.size() + *sz > LIM_BODY) { fail(413, "chunked body too large"); return R; }
                if (*sz == 0) break;
                size_t have = std::min<size_t>(s.size() - pos, (size_t)*sz);
                R.spans.push_back({pos, pos + have, SP_BODY});
                q.body.append(s.substr(pos, have));
                pos += have;
                if (have < *sz) return R;
                at = pos;
                switch (RefLine(s, pos, line)) {
                case L_PARTIAL: return R;
                case L_TOOLONG: fail(400, "chunk not terminated"); return R;
                case L_OK: break;
                }
                R.spans.push_back({at, pos, SP_CHUNKSIZE});
                if (!line.empty()) { fail(400, "chunk not terminated"); return R; }
            }
            // trailers
            for (;;) {
                at = pos;
                switch (RefLine(s, pos, line)) {
                case L_PARTIAL: return R;
                case L_TOOLONG: fail(400, "trailer line too long"); return R;
                case L_OK: break;
                }
                R.spans.push_back({at, pos, SP_TRAILER});
                hdr_bytes += pos - at;
                if (hdr_bytes > LIM_HDRS) { R.hdr_over = true; fail(400, "headers+trailers too large"); return R; }
                if (line.empty()) break;
                std::string k, v, why;
                if (!RefHeaderLine(line, k, v, why)) { fail(400, "malformed trailer"); return R; }
                R.saw_trailers = true;
            }
        } else {
            auto cl = q.All("Content-Length");
            if (!cl.empty()) {
                for (size_t i = 1; i < cl.size(); ++i)
                    if (cl[i] != cl[0]) { fail(400, "differing Content-Length"); return R; }
                if (cl.size() > 1) R.dup_cl = true;
                auto n = RefNum(cl[0], 10);
                if (!n) { fail(400, "bad Content-Length"); return R; }
                if (*n > LIM_BODY) { fail(413, "Content-Length too large"); return R; }
                size_t have = std::min<size_t>(s.size() - pos, (size_t)*n);
                R.spans.push_back({pos, pos + have, SP_BODY});
                q.body.assign(s.substr(pos, have));
                pos += have;
                if (have < *n) return R;
            }
        }
        if (hdr_bytes == LIM_HDRS) R.hdr_exact = true;
        q.end = pos;
        R.reqs.push_back(std::move(q));
    }
    return R;
}

// ---------------------------------------------------------------------------------------------
// what the real code produced

struct Rec {
    std::string method, target;
    int major{0}, minor{0};
    std::string hdrs; //!< HTTPHeaders::Stringify(): "k: v\r\n"... "\r\n"
    std::string body;
};

const char* MethodName(HTTPRequestMethod m)
{
    switch (m) {
    case HTTPRequestMethod::GET: return "GET";
    case HTTPRequestMethod::POST: return "POST";
    case HTTPRequestMethod::HEAD: return "HEAD";
    case HTTPRequestMethod::PUT: return "PUT";
    case HTTPRequestMethod::UNKNOWN: return "unknown";
    }
    return "?";
}

Rec Record(const HTTPRequest& r)
{
    Rec x;
    x.method = MethodName(r.m_method);
    x.target = r.m_target;
    x.major = r.m_version.major;
    x.minor = r.m_version.minor;
    x.hdrs = r.m_headers.Stringify();
    x.body = r.m_body;
    return x;
}

uint64_t HashRec(const Rec& x)
{
    uint64_t h = strhash(x.method);
    h = mix64(h, strhash(x.target));
    h = mix64(h, (uint64_t)x.major * 16 + x.minor);
    h = mix64(h, strhash(x.hdrs));
    h = mix64(h, strhash(x.body));
    return h;
}

/** Empty string if equal, else a description of the first difference. */
std::string DiffRec(const Rec& got, const RefReq& want)
{
    if (got.method != want.method) return "method '" + got.method + "' vs '" + want.method + "'";
    if (got.target != want.target) return "target '" + Printable(got.target) + "' vs '" + Printable(want.target) + "'";
    if (got.major != 1 || got.minor != want.minor) return "version 1." + std::to_string(got.minor) + " vs 1." + std::to_string(want.minor);
    std::string wh = want.HeaderBlock();
    if (got.hdrs != wh) {
        size_t i = 0;
        while (i < got.hdrs.size() && i < wh.size() && got.hdrs[i] == wh[i]) ++i;
        return "headers differ at byte " + std::to_string(i) + ": '" + Printable(got.hdrs.substr(i), 30) + "' vs '" + Printable(wh.substr(i), 30) + "'";
    }
    if (got.body != want.body) {
        size_t i = 0;
        while (i < got.body.size() && i < want.body.size() && got.body[i] == want.body[i]) ++i;
        return "body (len " + std::to_string(got.body.size()) + " vs " + std::to_string(want.body.size()) + ") differs at byte " + std::to_string(i);
    }
    return "";
}

std::string DiffRecRec(const Rec& a, const Rec& b)
{
    if (a.method != b.method) return "method '" + a.method + "' vs '" + b.method + "'";
    if (a.target != b.target) return "target '" + Printable(a.target) + "' vs '" + Printable(b.target) + "'";
    if (a.major != b.major || a.minor != b.minor) return "version";
    if (a.hdrs != b.hdrs) return "headers (" + std::to_string(a.hdrs.size()) + " vs " + std::to_string(b.hdrs.size()) + " bytes)";
    if (a.body != b.body) return "body (len " + std::to_string(a.body.size()) + " vs " + std::to_string(b.body.size()) + ")";
    return "";
}

// ---------------------------------------------------------------------------------------------
// delivery variants

enum FragKind { FR_WHOLE, FR_FIXED, FR_RANDOM, FR_BOUNDARY, FR_HOT, FR_TWO, N_FRAG };
enum ReplyMode { RP_SYNC = 0 /* 1..3: worker answers that many I/O loop iterations later */, N_REPLY = 4 };
enum SendMode { SD_FULL, SD_PARTIAL, SD_EAGAIN, SD_RESET, N_SEND };

struct VCfg {
    int frag{FR_WHOLE};
    int64_t param{0};
    uint64_t seed{0};
    int addr{0};
    int reply{RP_SYNC};
    int send{SD_FULL};
    int pace{0};  //!< n/8 of the loop iterations deliver nothing
    int noise{0}; //!< n/8 spurious read wake-ups (EAGAIN); 7 = connection reset while reading
    bool Relaxed() const { return reply != RP_SYNC || send != SD_FULL; }
    bool Faulty() const { return send == SD_RESET || noise == 7; }
};

VCfg ParseVariant(const Op& op)
{
    VCfg c;
    c.frag = (int)op.mod(0, N_FRAG);
    c.param = op.arg(1);
    c.seed = (uint64_t)op.arg(2);
    c.addr = (int)op.mod(3, 64);
    c.reply = (int)op.mod(4, N_REPLY);
    c.send = (int)op.mod(5, N_SEND);
    c.pace = (int)op.mod(6, 7);
    c.noise = (int)op.mod(7, 8);
    return c;
}

const char* kFragNames[] = {"whole", "fixed", "random", "boundary", "hot", "two"};

/** Fragment sizes (all >= 1, summing to n). The number of fragments is capped to keep the quadratic
 *  rescanning of partial lines affordable. */
std::vector<size_t> MakeFrags(size_t n, const VCfg& c, const std::vector<size_t>& marks)
{
    std::vector<size_t> cuts; // strictly increasing cut offsets in (0,n)
    Rng r(c.seed);
    const size_t cap = 3000;
    switch (c.frag) {
    case FR_WHOLE: break;
    case FR_FIXED: {
        static const size_t ks[] = {1, 2, 3, 5, 7, 13, 64, 255, 1000, 4096, 65536, 8191, 8192, 8193};
        size_t k = ks[(uint64_t)c.param % 14];
        k = std::max(k, n / cap + 1);
        for (size_t p = k; p < n; p += k) cuts.push_back(p);
        break;
    }
    case FR_RANDOM: {
        static const size_t mx[] = {3, 32, 512, 8192, 70000};
        size_t m = std::max(mx[(uint64_t)c.param % 5], 2 * (n / cap + 1));
        for (size_t p = 0;;) {
            p += (size_t)r.skewed(1, (int64_t)m);
            if (p >= n) break;
            cuts.push_back(p);
        }
        break;
    }
    case FR_BOUNDARY: {
        std::set<size_t> cs;
        uint64_t den = 1 + (uint64_t)c.param % 4;
        for (size_t m : marks) {
            if (cs.size() > cap) break;
            if (!r.chance(1, den)) continue;
            int64_t p = (int64_t)m + r.range(-2, 2);
            if (p > 0 && (size_t)p < n) cs.insert((size_t)p);
            if (r.chance(1, 3) && m > 0 && m < n) cs.insert(m);
        }
        cuts.assign(cs.begin(), cs.end());
        break;
    }
    case FR_HOT: {
        size_t centre = marks.empty() ? (size_t)r.below(n + 1) : marks[r.below(marks.size())];
        size_t w = 8 + (uint64_t)c.param % 120;
        size_t a = centre > w ? centre - w : 1, b = std::min(n, centre + w);
        for (size_t p = std::max<size_t>(a, 1); p < b; ++p) cuts.push_back(p);
        break;
    }
    case FR_TWO:
        if (n >= 2) cuts.push_back(1 + (uint64_t)c.param % (n - 1));
        break;
    }
    std::vector<size_t> frags;
    size_t last = 0;
    for (size_t p : cuts) {
        if (p <= last || p >= n) continue;
        frags.push_back(p - last);
        last = p;
    }
    if (n > last) frags.push_back(n - last);
    return frags;
}

/** Which syntactic elements were cut by a fragment boundary (for probes). */
void CutProbes(Ctx& ctx, const Ref& ref, const std::string& s, const std::vector<size_t>& frags)
{
    if (frags.size() < 2 || ref.spans.empty()) return;
    bool seen[N_SPAN] = {};
    bool crlf = false;
    size_t p = 0, si = 0;
    for (size_t i = 0; i + 1 < frags.size(); ++i) {
        p += frags[i];
        if (p > 0 && p < s.size() && s[p - 1] == '\r' && s[p] == '\n') crlf = true;
        while (si < ref.spans.size() && ref.spans[si].b <= p) ++si;
        if (si < ref.spans.size() && ref.spans[si].a < p && p < ref.spans[si].b) seen[ref.spans[si].t] = true;
    }
    static const char* names[] = {"split_in_request_line", "split_in_header_line", "split_in_chunk_size_line", "split_in_body", "split_in_trailer"};
    for (int t = 0; t < N_SPAN; ++t)
        if (seen[t]) ctx.probe(names[t]);
    if (crlf) ctx.probe("split_between_cr_and_lf");
}

// ---------------------------------------------------------------------------------------------
// simulated sockets

class ServerSim;

class SimSock : public Sock
{
public:
    ServerSim* const m_sim;
    const int m_conn; //!< index of the connection, -1 for a listening socket, -2 for an unused placeholder
    SimSock(ServerSim* sim, int conn, SOCKET fake_fd) : Sock{fake_fd}, m_sim{sim}, m_conn{conn} {}
    ~SimSock() override;
    Sock& operator=(Sock&&) override { std::abort(); }
    ssize_t Send(const void* data, size_t len, int flags) const override;
    ssize_t Recv(void* buf, size_t len, int flags) const override;
    int Connect(const sockaddr*, socklen_t) const override { return 0; }
    int Bind(const sockaddr*, socklen_t) const override { return 0; }
    int Listen(int) const override { return 0; }
    std::unique_ptr<Sock> Accept(sockaddr* addr, socklen_t* addr_len) const override;
    int GetSockOpt(int, int, void* opt_val, socklen_t* opt_len) const override { memset(opt_val, 0, *opt_len); return 0; }
    int SetSockOpt(int, int, const void*, socklen_t) const override { return 0; }
    int GetSockName(sockaddr* name, socklen_t* name_len) const override { memset(name, 0, *name_len); return 0; }
    bool SetNonBlocking() const override { return true; }
    bool IsSelectable() const override { return true; }
    bool Wait(std::chrono::milliseconds, Event requested, Event* occurred = nullptr) const override
    {
        if (occurred) *occurred = requested;
        return true;
    }
    bool WaitMany(std::chrono::milliseconds timeout, EventsPerSock& events_per_sock) const override;
    bool IsConnected(std::string&) const override { return true; }
};

// ---------------------------------------------------------------------------------------------
// parser mode: HTTPRemoteClient::ReadRequest fed through m_recv_buffer

struct ParserObs {
    std::vector<Rec> reqs;
    int term{0};
    std::string what;
};

ParserObs RunParser(const std::string& s, const std::vector<size_t>& frags)
{
    ParserObs o;
    auto client = std::make_shared<HTTPRemoteClient>(/*id=*/0, CService{}, std::make_unique<SimSock>(nullptr, -2, (SOCKET)999999));
    size_t pos = 0;
    for (size_t f : frags) {
        client->m_recv_buffer.append(s, pos, f);
        pos += f;
        // what HTTPServer::MaybeDispatchRequestsFromClient does, minus the socket: one request object at a
        // time, a complete one is handed over and replaced, an exception ends the connection
        for (;;) {
            if (!client->m_req) client->m_req = std::make_unique<HTTPRequest>(client);
            try {
                client->ReadRequest(*client->m_req);
            } catch (const http_bitcoin::ContentTooLargeError& e) {
                o.term = 413;
                o.what = e.what();
                return o;
            } catch (const std::runtime_error& e) {
                o.term = 400;
                o.what = e.what();
                return o;
            }
            if (client->m_req->GetState() != HTTPRequest::State::Complete) break;
            o.reqs.push_back(Record(*client->m_req));
            client->m_req.reset();
            if (client->m_recv_buffer.empty()) break;
        }
    }
    return o;
}

// ---------------------------------------------------------------------------------------------
// client addresses and the allow list (structured, so that the reference never parses strings)

struct Addr {
    bool v6;
    unsigned char b[16];
    const char* text;
};

Addr A4(unsigned a, unsigned b, unsigned c, unsigned d, const char* t)
{
    Addr x{};
    x.v6 = false;
    x.b[0] = (unsigned char)a; x.b[1] = (unsigned char)b; x.b[2] = (unsigned char)c; x.b[3] = (unsigned char)d;
    x.text = t;
    return x;
}
Addr A6(const char* t)
{
    Addr x{};
    x.v6 = true;
    inet_pton(AF_INET6, t, x.b);
    x.text = t;
    return x;
}

const std::vector<Addr>& ClientPool()
{
    static const std::vector<Addr> pool = {
        A4(127, 0, 0, 1, "127.0.0.1"), A6("::1"), A4(127, 9, 9, 9, "127.9.9.9"), A4(10, 1, 2, 3, "10.1.2.3"), A4(10, 200, 0, 1, "10.200.0.1"),
        A4(192, 168, 1, 77, "192.168.1.77"), A4(172, 16, 5, 4, "172.16.5.4"), A4(172, 32, 0, 1, "172.32.0.1"), A4(8, 8, 8, 8, "8.8.8.8"),
        A4(8, 8, 9, 8, "8.8.9.8"), A4(5, 5, 5, 5, "5.5.5.5"), A4(1, 2, 3, 4, "1.2.3.4"), A4(1, 2, 3, 5, "1.2.3.5"), A4(126, 255, 255, 255, "126.255.255.255"),
        A4(128, 0, 0, 1, "128.0.0.1"), A6("::2"), A6("2a00:1450::5"), A6("2a00:1450::6"), A6("2a00:1451::5"), A6("2001:470:1::7"), A6("2001:470:2::7"),
        A6("fe80::1"), A6("::ffff:10.1.2.3"), A6("::ffff:127.0.0.1"), A6("::ffff:8.8.8.8"),
    };
    return pool;
}

struct AllowEntry {
    const char* text; //!< the -rpcallowip value
    bool v6;
    unsigned char net[16];
    int prefix;
};

AllowEntry E4(const char* text, unsigned a, unsigned b, unsigned c, unsigned d, int prefix)
{
    AllowEntry e{};
    e.text = text; e.v6 = false; e.prefix = prefix;
    e.net[0] = (unsigned char)a; e.net[1] = (unsigned char)b; e.net[2] = (unsigned char)c; e.net[3] = (unsigned char)d;
    return e;
}
AllowEntry E6(const char* text, const char* net, int prefix)
{
    AllowEntry e{};
    e.text = text; e.v6 = true; e.prefix = prefix;
    inet_pton(AF_INET6, net, e.net);
    return e;
}

const std::vector<AllowEntry>& AllowPool()
{
    static const std::vector<AllowEntry> pool = {
        E4("10.0.0.0/8", 10, 0, 0, 0, 8), E4("192.168.0.0/16", 192, 168, 0, 0, 16), E4("172.16.0.0/255.240.0.0", 172, 16, 0, 0, 12),
        E4("1.2.3.4", 1, 2, 3, 4, 32), E4("8.8.8.0/24", 8, 8, 8, 0, 24), E4("0.0.0.0/0", 0, 0, 0, 0, 0), E4("10.1.2.3/8", 10, 0, 0, 0, 8),
        E4("5.5.5.5/32", 5, 5, 5, 5, 32), E6("2a00:1450::/32", "2a00:1450::", 32), E6("2001:470:1::/48", "2001:470:1::", 48),
        E6("2a00:1450::5", "2a00:1450::5", 128), E6("::/0", "::", 0),
    };
    return pool;
}

bool PrefixMatch(const unsigned char* a, const unsigned char* net, int prefix)
{
    for (int bit = 0; bit < prefix; ++bit)
        if (((a[bit / 8] >> (7 - bit % 8)) & 1) != ((net[bit / 8] >> (7 - bit % 8)) & 1)) return false;
    return true;
}

/** Reference allow check: loopback (127.0.0.0/8, ::1) always, else membership in a configured subnet of the same
 *  family; an IPv4-mapped IPv6 peer address counts as the IPv4 address it maps. */
bool RefAllowed(const Addr& a, uint64_t allowmask)
{
    bool v6 = a.v6;
    unsigned char b[16];
    memcpy(b, a.b, 16);
    static const unsigned char mapped[12] = {0, 0, 0, 0, 0, 0, 0, 0, 0, 0, 0xff, 0xff};
    if (v6 && memcmp(b, mapped, 12) == 0) {
        v6 = false;
        memmove(b, b + 12, 4);
    }
    if (!v6 && b[0] == 127) return true;
    static const unsigned char lo6[16] = {0, 0, 0, 0, 0, 0, 0, 0, 0, 0, 0, 0, 0, 0, 0, 1};
    if (v6 && memcmp(b, lo6, 16) == 0) return true;
    const auto& pool = AllowPool();
    for (size_t i = 0; i < pool.size(); ++i) {
        if (!((allowmask >> i) & 1)) continue;
        if (pool[i].v6 != v6) continue;
        if (PrefixMatch(b, pool[i].net, pool[i].prefix)) return true;
    }
    return false;
}

// ---------------------------------------------------------------------------------------------
// replies seen by the simulated client

struct Resp {
    int status{0};
    int minor{0};
    std::string body;
    bool complete{false};
    bool to_eof{false}; //!< body delimited by connection close (no Content-Length)
};

/** Split the bytes the server sent into responses. The last one may be incomplete (complete=false). */
std::vector<Resp> ParseResponses(const std::string& out, bool& garbage)
{
    std::vector<Resp> v;
    garbage = false;
    size_t pos = 0;
    while (pos < out.size()) {
        Resp r;
        size_t he = out.find("\r\n\r\n", pos);
        std::string_view head(out.data() + pos, (he == std::string::npos ? out.size() : he + 2) - pos);
        // status line
        if (head.size() >= 12) {
            if (head.substr(0, 7) != "HTTP/1." || head[8] != ' ') { garbage = true; return v; }
            r.minor = head[7] - '0';
            r.status = atoi(std::string(head.substr(9, 3)).c_str());
        } else if (std::string_view("HTTP/1.").substr(0, std::min<size_t>(7, head.size())) != head.substr(0, std::min<size_t>(7, head.size()))) {
            garbage = true;
            return v;
        }
        if (he == std::string::npos) { v.push_back(r); return v; }
        std::optional<size_t> cl;
        size_t lp = head.find("\r\n");
        while (lp != std::string_view::npos && lp + 2 < head.size()) {
            size_t le = head.find("\r\n", lp + 2);
            std::string_view line = head.substr(lp + 2, (le == std::string_view::npos ? head.size() : le) - lp - 2);
            if (line.size() > 16 && IEq(line.substr(0, 16), "Content-Length: ")) cl = (size_t)atoll(std::string(line.substr(16)).c_str());
            lp = le;
        }
        pos = he + 4;
        if (cl) {
            size_t have = std::min(out.size() - pos, *cl);
            r.body = out.substr(pos, have);
            pos += have;
            r.complete = have == *cl;
        } else if (r.status == 204 || (r.status >= 100 && r.status < 200)) {
            r.complete = true;
        } else {
            r.body = out.substr(pos); // delimited by connection close
            r.to_eof = true;
            pos = out.size();
            r.complete = true;
        }
        v.push_back(std::move(r));
        if (!v.back().complete) break;
    }
    return v;
}

// ---------------------------------------------------------------------------------------------
// server mode: the real HTTPServer I/O loop over SimSock

int g_rpc_exec_count = 0; //!< bumped by the c52probe RPC command

int StubStatus(const Rec& r)
{
    static const int st[] = {200, 200, 200, 404, 204};
    return st[strhash(r.target) % 5];
}
std::string StubBody(int conn, size_t idx, const Rec& r)
{
    if (StubStatus(r) == 204) return "";
    return "ok c" + std::to_string(conn) + " #" + std::to_string(idx) + " m=" + r.method + " len=" + std::to_string(r.body.size()) + "\n";
}
bool RoutedToRpc(const Rec& r) { return r.target == "/" || r.target.rfind("/wallet/", 0) == 0; }

/** Lenient (superset) reference for "this request carries valid credentials". */
bool RefCredsValid(const Rec& r, const std::vector<Cred>& creds)
{
    // header block format: "k: v\r\n"
    size_t pos = 0;
    while (pos < r.hdrs.size()) {
        size_t e = r.hdrs.find("\r\n", pos);
        if (e == std::string::npos || e == pos) break;
        std::string_view line(r.hdrs.data() + pos, e - pos);
        pos = e + 2;
        size_t c = line.find(':');
        if (c == std::string_view::npos || !IEq(line.substr(0, c), "authorization")) continue;
        std::string_view v = Trim(line.substr(c + 1));
        if (v.size() >= 5 && IEq(v.substr(0, 5), "basic")) v = Trim(v.substr(5));
        std::string up = B64DecLenient(v);
        size_t colon = up.find(':');
        if (colon == std::string::npos) continue;
        for (auto& cr : creds)
            if (up.substr(0, colon) == cr.user && up.substr(colon + 1) == cr.pass) return true;
    }
    return false;
}

struct Pending {
    std::unique_ptr<HTTPRequest> req;
    uint64_t due;
    size_t idx;
};

struct Conn {
    Conn() = default;
    Conn(Conn&&) noexcept = default;
    Conn(const Conn&) = delete;
    int id{0};
    VCfg cfg;
    std::vector<size_t> frags;
    size_t next_frag{0}, pos{0}, avail{0};
    bool accepted{false}, server_closed{false}, eof_ready{false}, eof_seen{false}, reset_fired{false};
    int recv_calls{0}, send_calls{0}, idle{0};
    std::string out;
    std::vector<Rec> dispatched;
    std::vector<int> rpc_execs;     //!< per dispatched request: number of RPC command executions (-1: not answered yet)
    std::deque<Pending> pending;
    Addr addr{};
    bool ref_allowed{false};
    uint64_t faults_eagain_send{0}, faults_partial_send{0}, faults_eagain_recv{0};
};

class ServerSim
{
public:
    Ctx& ctx;
    const std::string& S;
    const bool rpc;
    const bool concurrent;
    const std::vector<Cred>& creds;
    std::vector<Conn> conns;
    std::unique_ptr<HTTPServer> server;
    uint64_t iter{0}, guard{0}, idle_iters{0};
    bool stalled{false};
    std::string internal_error;
    SOCKET next_fd{100000};

    ServerSim(Ctx& c, const std::string& s, bool rpc_mode, bool conc, const std::vector<Cred>& cr) : ctx(c), S(s), rpc(rpc_mode), concurrent(conc), creds(cr) {}

    int NextToAccept() const
    {
        for (size_t i = 0; i < conns.size(); ++i) {
            if (conns[i].accepted) {
                if (!concurrent && !conns[i].server_closed) return -1;
                continue;
            }
            return (int)i;
        }
        return -1;
    }

    bool AllDone() const
    {
        for (auto& c : conns)
            if (!c.accepted || !c.server_closed) return false;
        return true;
    }

    void Reply(Conn& c, HTTPRequest& req, size_t idx)
    {
        const Rec& rec = c.dispatched[idx];
        c.idle = 0;
        if (rpc && RoutedToRpc(rec)) {
            int before = g_rpc_exec_count;
            c52rpc::HTTPReq_JSONRPC(std::any{}, &req);
            c.rpc_execs[idx] = g_rpc_exec_count - before;
        } else if (rpc) {
            c.rpc_execs[idx] = 0;
            req.WriteReply(HTTP_NOT_FOUND);
        } else {
            c.rpc_execs[idx] = 0;
            req.WriteReply((HTTPStatusCode)StubStatus(rec), StubBody(c.id, idx, rec));
        }
    }

    void Dispatch(std::unique_ptr<HTTPRequest>&& in)
    {
        std::unique_ptr<HTTPRequest> req = std::move(in);
        int port = req->GetPeer().GetPort();
        int ci = port - 20000;
        if (ci < 0 || ci >= (int)conns.size()) {
            if (internal_error.empty()) internal_error = "request dispatched with unknown peer port " + std::to_string(port);
            return;
        }
        Conn& c = conns[ci];
        c.dispatched.push_back(Record(*req));
        c.rpc_execs.push_back(-1);
        c.idle = 0;
        size_t idx = c.dispatched.size() - 1;
        if (c.cfg.reply == RP_SYNC) Reply(c, *req, idx);
        else c.pending.push_back(Pending{std::move(req), iter + (uint64_t)c.cfg.reply, idx});
    }

    /** One iteration of the I/O loop is about to look at its sockets: the simulator's scheduling point. */
    void Step(Sock::EventsPerSock& evs)
    {
        ++iter;
        ++ctx.sched_points;
        if (iter > guard) stalled = true;
        if (stalled || !internal_error.empty()) { server->InterruptNet(); return; }
        // worker threads finishing between two iterations
        for (auto& c : conns)
            while (!c.pending.empty() && c.pending.front().due <= iter) {
                Pending p = std::move(c.pending.front());
                c.pending.pop_front();
                Reply(c, *p.req, p.idx);
            }
        bool any = false;
        for (auto& [sock, ev] : evs) {
            const SimSock* ss = static_cast<const SimSock*>(sock.get());
            if (ss->m_conn < 0) {
                if (NextToAccept() >= 0) { ev.occurred |= Sock::RecvEvent; any = true; }
                continue;
            }
            Conn& c = conns[ss->m_conn];
            ++c.idle;
            if (ev.requested & Sock::SendEvent) { ev.occurred |= Sock::SendEvent; any = true; }
            if (ev.requested & Sock::RecvEvent) {
                const bool skip = c.cfg.pace > 0 && (int)(mix64(c.cfg.seed ^ 0x7061, iter) % 8) < c.cfg.pace;
                if (c.avail == 0 && c.next_frag < c.frags.size() && !skip) c.avail = c.frags[c.next_frag++];
                if (c.avail > 0) {
                    ev.occurred |= Sock::RecvEvent;
                } else if (c.next_frag == c.frags.size() && c.pending.empty() && c.idle >= 3) {
                    c.eof_ready = true; // the client has everything it can expect and hangs up
                    ev.occurred |= Sock::RecvEvent;
                } else if (c.cfg.noise > 0 && c.cfg.noise < 7 && (int)(mix64(c.cfg.seed ^ 0x6e6f, iter) % 8) < c.cfg.noise) {
                    ev.occurred |= Sock::RecvEvent; // spurious wake-up
                }
                if (ev.occurred & Sock::RecvEvent) any = true;
            }
        }
        if (!any) ++idle_iters;
        if (AllDone()) server->InterruptNet();
    }

    ssize_t OnRecv(int ci, void* buf, size_t len)
    {
        Conn& c = conns[ci];
        ++c.recv_calls;
        if (c.cfg.noise == 7 && !c.reset_fired && c.recv_calls == 1 + (int)(c.cfg.seed % 5)) {
            c.reset_fired = true;
            errno = ECONNRESET;
            return -1;
        }
        if (c.avail > 0) {
            if (c.cfg.noise > 0 && c.cfg.noise < 7 && (mix64(c.cfg.seed ^ 0x7265, (uint64_t)c.recv_calls) % 16) < (uint64_t)c.cfg.noise) {
                ++c.faults_eagain_recv;
                errno = EAGAIN;
                return -1;
            }
            size_t n = std::min(len, c.avail);
            memcpy(buf, S.data() + c.pos, n);
            c.pos += n;
            c.avail -= n;
            c.idle = 0;
            return (ssize_t)n;
        }
        if (c.eof_ready) {
            c.eof_seen = true;
            return 0;
        }
        errno = EAGAIN;
        return -1;
    }

    ssize_t OnSend(int ci, const void* data, size_t len)
    {
        Conn& c = conns[ci];
        ++c.send_calls;
        c.idle = 0;
        switch (c.cfg.send) {
        case SD_PARTIAL: {
            size_t k = 1 + (size_t)(mix64(c.cfg.seed ^ 0x73, (uint64_t)c.send_calls) % 97);
            if (k < len) ++c.faults_partial_send;
            size_t n = std::min(len, k);
            c.out.append((const char*)data, n);
            return (ssize_t)n;
        }
        case SD_EAGAIN:
            if (c.send_calls % 2 == 1) {
                ++c.faults_eagain_send;
                errno = EAGAIN;
                return -1;
            }
            break;
        case SD_RESET:
            if (c.reset_fired || c.send_calls == 1 + (int)(c.cfg.seed % 3)) {
                c.reset_fired = true;
                errno = EPIPE;
                return -1;
            }
            break;
        default: break;
        }
        c.out.append((const char*)data, len);
        return (ssize_t)len;
    }

    std::unique_ptr<Sock> OnAccept(sockaddr* sa, socklen_t* len)
    {
        int ci = NextToAccept();
        if (ci < 0) {
            errno = EWOULDBLOCK;
            return nullptr;
        }
        Conn& c = conns[ci];
        c.accepted = true;
        if (c.addr.v6) {
            sockaddr_in6 a{};
            a.sin6_family = AF_INET6;
            memcpy(&a.sin6_addr, c.addr.b, 16);
            a.sin6_port = htons((uint16_t)(20000 + ci));
            memcpy(sa, &a, sizeof a);
            *len = sizeof a;
        } else {
            sockaddr_in a{};
            a.sin_family = AF_INET;
            memcpy(&a.sin_addr, c.addr.b, 4);
            a.sin_port = htons((uint16_t)(20000 + ci));
            memcpy(sa, &a, sizeof a);
            *len = sizeof a;
        }
        return std::make_unique<SimSock>(this, ci, next_fd++);
    }

    void OnClose(int ci) { conns[ci].server_closed = true; }

    /** Returns false (with `err`) if the server could not be set up. */
    bool Run(uint64_t allowmask, std::string& err)
    {
        // -rpcallowip
        gArgs.LockSettings([&](common::Settings& s) {
            UniValue arr(UniValue::VARR);
            const auto& pool = AllowPool();
            for (size_t i = 0; i < pool.size(); ++i)
                if ((allowmask >> i) & 1) arr.push_back(std::string(pool[i].text));
            if (arr.empty()) s.forced_settings.erase("rpcallowip");
            else s.forced_settings["rpcallowip"] = arr;
        });
        auto saved_create = CreateSock;
        CreateSock = [this](int, int, int) -> std::unique_ptr<Sock> { return std::make_unique<SimSock>(this, -1, next_fd++); };
        bool ok = true;
        {
            server = std::make_unique<HTTPServer>([this](std::unique_ptr<HTTPRequest>&& r) { Dispatch(std::move(r)); });
            server->SetServerTimeout(std::chrono::seconds{0}); // the idle timeout reads the real steady clock
            if (!server->InitHTTPAllowList()) { err = "InitHTTPAllowList() refused a valid -rpcallowip list"; ok = false; }
            if (ok) {
                auto bound = server->BindAndStartListening(CService{LookupHost("127.0.0.1", false).value(), 8332});
                if (!bound) { err = "BindAndStartListening failed: " + bound.error(); ok = false; }
            }
            if (ok) {
                size_t total = 0;
                for (auto& c : conns) total += c.frags.size();
                guard = 4 * total + 4000 + 200 * conns.size();
                // the I/O loop, on this thread; SimSock::WaitMany is its only blocking point and calls Step()
                (server.get()->*Get(access::LoopTag{}))();
            }
            // drop deferred requests before their clients
            for (auto& c : conns) c.pending.clear();
            server->ClearConnectedClients();
            server->StopListening();
            server.reset();
        }
        CreateSock = saved_create;
        gArgs.LockSettings([&](common::Settings& s) { s.forced_settings.erase("rpcallowip"); });
        return ok;
    }
};

SimSock::~SimSock()
{
    if (m_sim && m_conn >= 0) m_sim->OnClose(m_conn);
    m_socket = INVALID_SOCKET; // nothing to close(2)
}
ssize_t SimSock::Send(const void* data, size_t len, int) const { return m_conn >= 0 ? m_sim->OnSend(m_conn, data, len) : (ssize_t)len; }
ssize_t SimSock::Recv(void* buf, size_t len, int) const
{
    if (m_conn >= 0) return m_sim->OnRecv(m_conn, buf, len);
    errno = EAGAIN;
    return -1;
}
std::unique_ptr<Sock> SimSock::Accept(sockaddr* addr, socklen_t* addr_len) const
{
    if (m_conn == -1 && m_sim) return m_sim->OnAccept(addr, addr_len);
    errno = EWOULDBLOCK;
    return nullptr;
}
bool SimSock::WaitMany(std::chrono::milliseconds, EventsPerSock& events_per_sock) const
{
    if (m_sim) m_sim->Step(events_per_sock);
    return true;
}

// ---------------------------------------------------------------------------------------------
// plan generation

Op GenReq(Rng& rng, int profile, bool last, bool rpc, bool flawed, size_t ncreds)
{
    int64_t method = rng.chance(1, 10) ? (int64_t)rng.below(N_METHODS) : (int64_t)rng.below(4);
    int64_t target = rng.chance(1, 12) ? (int64_t)rng.below(N_TARGETS) : (int64_t)rng.pick({4, 2, 2, 1, 1, 1, 1, 0, 0, 2});
    int64_t version = rng.chance(1, 10) ? (int64_t)rng.range(2, 3) : (int64_t)rng.below(2);
    int64_t eol = (int64_t)rng.pick({6, 2, 2});
    int64_t conn = 0;
    if (version == 1) conn = rng.chance(3, 4) ? (int64_t)rng.range(2, 3) : 0;          // 1.0: mostly ask for keep-alive
    else conn = rng.chance(1, 5) ? (int64_t)rng.range(2, 3) : 0;
    if (rng.chance(1, last ? 3 : 12)) conn = (int64_t)rng.pick({0, 3, 0, 0, 1, 1});   // close
    static const int good_bodies[] = {B_NONE, B_NONE, B_CL, B_CL, B_CL_DUP_SAME, B_CHUNKED, B_CHUNKED, B_CHUNKED_AND_CL, B_TE_OTHER};
    int64_t bk = good_bodies[rng.below(9)];
    int64_t blen = rng.chance(1, 6) ? 0 : rng.skewed(1, 600);
    int64_t flaw = F_NONE, fill = 0, auth = 0, json = 0;
    if (profile == 4 && rng.chance(1, 2)) {
        blen = rng.range(66000, 160000);
        bk = rng.coin() ? B_CL : B_CHUNKED;
    }
    if (rpc) {
        method = rng.chance(1, 8) ? (int64_t)rng.below(N_METHODS) : 1;
        target = rng.chance(1, 10) ? (int64_t)rng.below(N_TARGETS) : (int64_t)rng.pick({3, 1});
        bk = rng.chance(1, 10) ? bk : rng.coin() ? B_CL : B_CHUNKED;
        json = rng.chance(1, 10) ? 0 : (int64_t)rng.pick({0, 5, 3, 2, 1, 1, 1, 1});
        auth = ncreds == 0 ? 0 : (int64_t)rng.pick({2, 12, 3, 3, 2, 1, 1, 2, 1, 1, 2, 1});
    }
    if (flawed) {
        switch (rng.below(4)) {
        case 0: flaw = (int64_t)rng.range(1, N_FLAW - 1); break;
        case 1: version = (int64_t)rng.range(4, N_VERSIONS - 1); break;
        case 2: { static const int bad[] = {B_CL_DUP_DIFF, B_CL_BAD, B_CL_TOO_LARGE, B_CHUNKED_FLAW, B_CHUNKED_FLAW, B_CL_OFF, B_CL_MAX}; bk = bad[rng.below(7)]; break; }
        default: if (rng.coin()) target = 8; else method = 6; break;
        }
    }
    if (profile == 2 && (flawed || rng.chance(1, 3))) {
        switch (rng.below(5)) {
        case 0: case 1: fill = (int64_t)LIM_HDRS + rng.range(-3, 3); break;
        case 2: fill = rng.range(4000, 9000); break;
        case 3: target = 7; break;
        default: flaw = rng.coin() ? F_LONG_HDR : F_LONG_REQLINE; break;
        }
        if (fill && rng.coin()) bk = B_CHUNKED;
    }
    if (profile == 3) {
        if (rng.chance(1, 3)) bk = (int64_t)rng.below(N_BODY);
        if (rng.chance(1, 4)) flaw = (int64_t)rng.below(N_FLAW);
        if (rng.chance(1, 6)) version = (int64_t)rng.below(N_VERSIONS);
        if (rng.chance(1, 8)) fill = rng.range(100, 8300);
    }
    return Op{REQ, {method, target, version, eol, conn, bk, blen, flaw, fill, (int64_t)(rng.next() >> 1), auth, json}};
}

Plan Gen(uint64_t seed, Tier tier)
{
    Rng rng(seed);
    Plan p;
    const bool server = rng.chance(13, 20);
    const bool rpc = server && rng.chance(1, 4);
    const int profile = (int)rng.pick({36, 30, 15, 16, 3}); // clean, one flaw, limits, chaos, big body
    p.knobs["server"] = server;
    p.knobs["rpc"] = rpc;
    p.knobs["profile"] = profile;
    p.knobs["concurrent"] = rng.coin();
    uint64_t allowmask = 0;
    if (rng.coin())
        for (size_t i = 0; i < AllowPool().size(); ++i)
            if (rng.chance(1, 4)) allowmask |= 1ull << i;
    p.knobs["allowmask"] = (int64_t)allowmask;
    p.knobs["cred"] = (int64_t)rng.below(75);
    const size_t ncreds = MakeCreds(p.knobs["cred"]).size();
    const bool clean_transport = rng.chance(1, 3);

    int nreq = tier == Tier::THOROUGH ? (int)rng.pick({0, 20, 25, 20, 12, 8, 6, 5, 4}) : (int)rng.pick({0, 30, 30, 20, 12, 8});
    if (profile == 4) nreq = std::min(nreq, 2);
    int flawed_at = profile == 1 || (profile == 2 && rng.coin()) ? (rng.chance(2, 3) ? nreq - 1 : (int)rng.below(nreq)) : -1;
    for (int i = 0; i < nreq; ++i) {
        if (profile == 3 && rng.chance(1, 6)) p.ops.push_back(Op{RAW, {(int64_t)rng.below(7), rng.skewed(0, 300), (int64_t)(rng.next() >> 1)}});
        p.ops.push_back(GenReq(rng, profile, i == nreq - 1, rpc, i == flawed_at, ncreds));
    }
    if (profile == 3 || rng.chance(1, 15)) {
        int nm = (int)rng.range(1, 3);
        for (int i = 0; i < nm; ++i) p.ops.push_back(Op{MUT, {(int64_t)(rng.next() >> 1), (int64_t)rng.pick({5, 3, 3, 1, 1}), (int64_t)rng.below(17)}});
    }
    if (rng.chance(1, 12)) p.ops.push_back(Op{RAW, {4, 0, (int64_t)(rng.next() >> 1)}}); // a request still being typed at the end

    int nvar = profile == 4 ? (int)rng.range(2, 3) : tier == Tier::THOROUGH ? (int)rng.range(3, 10) : (int)rng.range(3, 8);
    for (int i = 0; i < nvar; ++i) {
        int64_t frag = (int64_t)rng.pick({5, 30, 25, 20, 10, 10});
        int64_t reply = 0, send = 0, pace = 0, noise = 0, addr = (int64_t)rng.below(2);
        if (server && !clean_transport) {
            reply = rng.chance(2, 5) ? rng.range(1, 3) : 0;
            send = (int64_t)rng.pick({70, 15, 8, 7});
            pace = rng.chance(2, 5) ? rng.range(1, 4) : 0;
            noise = rng.chance(3, 10) ? (rng.chance(1, 6) ? 7 : rng.range(1, 3)) : 0;
        }
        if (server && rng.chance(2, 5)) addr = (int64_t)rng.below(ClientPool().size());
        p.ops.push_back(Op{VARIANT, {frag, (int64_t)(rng.next() >> 1), (int64_t)(rng.next() >> 1), addr, reply, send, pace, noise}});
    }
    return p;
}

std::string Describe(const Op& op)
{
    char b[320];
    switch (op.kind) {
    case REQ:
        snprintf(b, sizeof b, "append request(method=%s,target#%ld,version='%s',eol=%ld,conn-hdr=%ld,body-kind=%ld,body-len=%ld,flaw=%ld,hdr-fill=%ld,auth=%ld,json=%ld)",
                 kMethods[op.mod(0, N_METHODS)], (long)op.mod(1, N_TARGETS), Printable(kVersions[op.mod(2, N_VERSIONS)]).c_str(), (long)op.mod(3, 3), (long)op.mod(4, N_CONN),
                 (long)op.mod(5, N_BODY), (long)op.arg(6), (long)op.mod(7, N_FLAW), (long)op.arg(8), (long)op.mod(10, N_AUTH), (long)op.mod(11, N_JSON));
        break;
    case RAW: snprintf(b, sizeof b, "append raw bytes(kind=%ld,len=%ld)", (long)op.mod(0, 7), (long)op.arg(1)); break;
    case MUT: snprintf(b, sizeof b, "mutate stream(pos=%ld mod len,kind=%ld,byte#%ld)", (long)op.arg(0), (long)op.mod(1, 5), (long)op.mod(2, 17)); break;
    case VARIANT: {
        VCfg c = ParseVariant(op);
        snprintf(b, sizeof b, "deliver(frag=%s,param=%ld,client=%s,reply=%s%d,send=%d,pace=%d/8,noise=%d)", kFragNames[c.frag], (long)(c.param % 100000),
                 ClientPool()[c.addr % ClientPool().size()].text, c.reply ? "deferred+" : "sync", c.reply, c.send, c.pace, c.noise);
        break;
    }
    default: snprintf(b, sizeof b, "?");
    }
    return b;
}

// ---------------------------------------------------------------------------------------------
// the run: build, deliver, compare

struct Expect {
    size_t n_all{0};
    int closing{-1};      //!< index of the first request after whose answer the server hangs up, or -1
    size_t strict_cnt{0}; //!< requests that must be dispatched on a live connection
    int strict_term{0};   //!< error answer that must follow them (0: none)
};

Expect MakeExpect(const Ref& ref)
{
    Expect e;
    e.n_all = ref.reqs.size();
    for (size_t i = 0; i < ref.reqs.size(); ++i)
        if (!ref.reqs[i].keep_alive) { e.closing = (int)i; break; }
    e.strict_cnt = e.closing >= 0 ? (size_t)e.closing + 1 : e.n_all;
    e.strict_term = e.closing >= 0 ? 0 : ref.term;
    return e;
}

uint64_t RefFingerprint(const Ref& ref)
{
    uint64_t h = 0x52 + (uint64_t)ref.term;
    for (auto& q : ref.reqs) {
        h = mix64(h, strhash(q.method) ^ (uint64_t)q.minor);
        h = mix64(h, q.headers.size() * 4 + q.keep_alive * 2 + q.chunked);
        h = mix64(h, q.body.empty() ? 0 : q.body.size() < 100 ? 1 : q.body.size() < 65536 ? 2 : 3);
    }
    return h;
}

void RefProbes(Ctx& ctx, const Ref& ref, const Expect& ex)
{
    if (ref.reqs.size() >= 2) ctx.probe("pipelined_requests");
    if (ref.term == 400) ctx.probe("stream_ends_in_400");
    if (ref.term == 413) ctx.probe("stream_ends_in_413");
    if (ref.term == 0 && !ref.reqs.empty()) ctx.probe("stream_all_valid");
    if (ref.saw_trailers) ctx.probe("chunked_trailers");
    if (ref.hdr_exact) ctx.probe("header_section_exactly_at_limit");
    if (ref.hdr_over) ctx.probe("header_section_over_limit");
    if (ref.dup_cl) ctx.probe("duplicate_content_length_equal");
    if (ex.closing >= 0 && (size_t)ex.closing + 1 < ex.n_all) ctx.probe("requests_after_connection_close");
    for (auto& q : ref.reqs) {
        if (q.chunked) ctx.probe("chunked_body");
        if (q.body.size() > 65536) ctx.probe("body_larger_than_recv_buffer");
        if (q.method == "unknown") ctx.probe("unknown_method_passed_on");
        if (q.minor == 0) ctx.probe("http_1_0");
    }
}

void RunParserMode(Ctx& ctx, const Stream& st, const Ref& ref, const std::vector<VCfg>& variants)
{
    const std::string& S = st.s;
    std::optional<ParserObs> base;
    for (size_t vi = 0; vi < variants.size(); ++vi) {
        const VCfg& cfg = variants[vi];
        std::vector<size_t> frags = MakeFrags(S.size(), cfg, st.marks);
        CutProbes(ctx, ref, S, frags);
        ParserObs o = RunParser(S, frags);
        uint64_t h = (uint64_t)o.term;
        for (auto& r : o.reqs) h = mix64(h, HashRec(r));
        ctx.evf("parser v%zu frag=%s nfrag=%zu -> reqs=%zu term=%d h=%s", vi, kFragNames[cfg.frag], frags.size(), o.reqs.size(), o.term, HexU64(h).c_str());
        ctx.fingerprint(mix64(RefFingerprint(ref), (uint64_t)cfg.frag * 16 + std::min<size_t>(frags.size(), 9)));
        if (frags.size() >= 2 && (!o.reqs.empty() || o.term)) ctx.nontrivial = true;
        if (frags.size() >= 2) ctx.probe("fragmented_delivery");
        // (1) against the single-chunk delivery
        if (base) {
            size_t n = std::min(o.reqs.size(), base->reqs.size());
            for (size_t i = 0; i < n; ++i) {
                std::string d = DiffRecRec(o.reqs[i], base->reqs[i]);
                if (!d.empty()) ctx.failf("fragmentation-changes-parsed-request", "variant %zu (%s, %zu fragments): request #%zu differs from single-chunk delivery: %s", vi, kFragNames[cfg.frag], frags.size(), i, d.c_str());
            }
            if (o.reqs.size() != base->reqs.size())
                ctx.failf("fragmentation-changes-request-count", "variant %zu (%s, %zu fragments): %zu requests parsed, single-chunk delivery gave %zu (term %d vs %d, '%s')", vi, kFragNames[cfg.frag], frags.size(), o.reqs.size(), base->reqs.size(), o.term, base->term, o.what.c_str());
            if (o.term != base->term)
                ctx.failf("fragmentation-changes-error-status", "variant %zu (%s, %zu fragments): stream ends with %d ('%s'), single-chunk delivery with %d ('%s')", vi, kFragNames[cfg.frag], frags.size(), o.term, o.what.c_str(), base->term, base->what.c_str());
        }
        // (2) against the reference parser
        size_t n = std::min(o.reqs.size(), ref.reqs.size());
        for (size_t i = 0; i < n; ++i) {
            std::string d = DiffRec(o.reqs[i], ref.reqs[i]);
            if (!d.empty()) ctx.failf("parsed-request-differs-from-reference", "variant %zu (%s): request #%zu: %s", vi, kFragNames[cfg.frag], i, d.c_str());
        }
        if (o.reqs.size() > ref.reqs.size() && ref.term != 0)
            ctx.failf("malformed-request-accepted", "variant %zu (%s): %zu requests parsed, reference stops after %zu with %d (%s)", vi, kFragNames[cfg.frag], o.reqs.size(), ref.reqs.size(), ref.term, ref.why.c_str());
        if (o.reqs.size() != ref.reqs.size())
            ctx.failf("request-count-differs-from-reference", "variant %zu (%s): %zu requests parsed, reference %zu (term %d '%s' vs reference %d '%s')", vi, kFragNames[cfg.frag], o.reqs.size(), ref.reqs.size(), o.term, o.what.c_str(), ref.term, ref.why.c_str());
        if (o.term != ref.term)
            ctx.failf("error-status-differs-from-reference", "variant %zu (%s): stream ends with %d ('%s'), reference %d ('%s')", vi, kFragNames[cfg.frag], o.term, o.what.c_str(), ref.term, ref.why.c_str());
        if (!base) base = std::move(o);
    }
}

/** Status the answer to dispatched request `rec` may carry. */
bool StatusAcceptable(int status, const Rec& rec, bool rpc, const std::vector<Cred>& creds, std::string& want)
{
    if (!rpc) {
        want = std::to_string(StubStatus(rec));
        return status == StubStatus(rec);
    }
    if (!RoutedToRpc(rec)) { want = "404"; return status == 404; }
    if (rec.method != "POST") { want = "405"; return status == 405; }
    if (!RefCredsValid(rec, creds)) { want = "401"; return status == 401; }
    want = "anything but 401/405"; // credentials look valid to the (lenient) reference: the statement does not say they must be accepted
    return true;
}

void RunServerMode(Ctx& ctx, const Stream& st, const Ref& ref, const std::vector<VCfg>& variants, bool rpc, const std::vector<Cred>& creds)
{
    const std::string& S = st.s;
    const Expect ex = MakeExpect(ref);
    const uint64_t allowmask = (uint64_t)ctx.knob("allowmask", 0);
    ServerSim sim(ctx, S, rpc, ctx.knob("concurrent", 0) != 0, creds);
    sim.conns.resize(variants.size());
    for (size_t vi = 0; vi < variants.size(); ++vi) {
        Conn& c = sim.conns[vi];
        c.id = (int)vi;
        c.cfg = variants[vi];
        c.frags = MakeFrags(S.size(), c.cfg, st.marks);
        c.addr = ClientPool()[(size_t)c.cfg.addr % ClientPool().size()];
        c.ref_allowed = RefAllowed(c.addr, allowmask);
        CutProbes(ctx, ref, S, c.frags);
    }
    // credentials for the real auth code
    if (rpc) {
        c52rpc::g_rpcauth.clear();
        c52rpc::g_slept_ms = 0;
        gArgs.LockSettings([&](common::Settings& s) {
            UniValue arr(UniValue::VARR);
            for (auto& cr : creds) {
                if (!cr.via_rpcauth) {
                    s.forced_settings["rpcuser"] = cr.user;
                    s.forced_settings["rpcpassword"] = cr.pass;
                } else {
                    // the documented share/rpcauth format: user:salt$hex(hmac_sha256(key=salt, msg=password))
                    std::string salt = "5a17" + std::to_string(cr.user.size() * 7919 + cr.pass.size());
                    unsigned char mac[CHMAC_SHA256::OUTPUT_SIZE];
                    CHMAC_SHA256((const unsigned char*)salt.data(), salt.size()).Write((const unsigned char*)cr.pass.data(), cr.pass.size()).Finalize(mac);
                    arr.push_back(cr.user + ":" + salt + "$" + HexStr(mac));
                }
            }
            if (arr.empty()) s.forced_settings.erase("rpcauth");
            else s.forced_settings["rpcauth"] = arr;
        });
        bool ok = c52rpc::InitRPCAuthentication();
        gArgs.LockSettings([&](common::Settings& s) {
            s.forced_settings.erase("rpcuser");
            s.forced_settings.erase("rpcpassword");
            s.forced_settings.erase("rpcauth");
        });
        if (!ok) ctx.failf("rpc-auth-init-failed", "InitRPCAuthentication() refused well-formed -rpcuser/-rpcpassword/-rpcauth settings");
    }
    std::string err;
    if (!sim.Run(allowmask, err)) ctx.failf("server-setup-failed", "%s", err.c_str());
    ctx.sim_ms += sim.idle_iters * 50 + (rpc ? c52rpc::g_slept_ms : 0);
    if (!sim.internal_error.empty()) ctx.failf("harness-internal", "%s", sim.internal_error.c_str());

    const Conn& b = sim.conns[0];
    for (size_t vi = 0; vi < sim.conns.size(); ++vi) {
        const Conn& c = sim.conns[vi];
        const VCfg& cfg = c.cfg;
        bool garbage = false;
        std::vector<Resp> resp = ParseResponses(c.out, garbage);
        uint64_t h = strhash(c.out);
        for (auto& r : c.dispatched) h = mix64(h, HashRec(r));
        std::string stat;
        for (auto& r : resp) stat += std::to_string(r.status) + (r.complete ? "," : "~,");
        ctx.evf("server v%zu frag=%s nfrag=%zu client=%s allowed=%d reply=%d send=%d -> dispatched=%zu replies=[%s] recv=%d eof=%d h=%s", vi, kFragNames[cfg.frag], c.frags.size(), c.addr.text,
                c.ref_allowed, cfg.reply, cfg.send, c.dispatched.size(), stat.c_str(), c.recv_calls, c.eof_seen, HexU64(h).c_str());
        ctx.fingerprint(mix64(RefFingerprint(ref), (uint64_t)cfg.frag * 4096 + std::min<size_t>(c.frags.size(), 9) * 256 + cfg.reply * 64 + cfg.send * 16 + c.ref_allowed * 8 + std::min<size_t>(c.dispatched.size(), 7)));
        if (c.faults_eagain_send) ctx.fault("send_eagain", c.faults_eagain_send);
        if (c.faults_partial_send) ctx.fault("send_partial", c.faults_partial_send);
        if (c.faults_eagain_recv) ctx.fault("recv_eagain", c.faults_eagain_recv);
        if (c.reset_fired) ctx.fault("connection_reset");
        if (cfg.reply != RP_SYNC && !c.dispatched.empty()) ctx.probe("reply_from_worker_after_later_iteration");

        if (sim.stalled && !c.server_closed)
            ctx.failf("server-loop-stalled", "variant %zu (%s, %zu fragments, client %s): connection neither served nor closed after %lu I/O loop iterations (delivered %zu/%zu bytes, %zu dispatched)", vi, kFragNames[cfg.frag],
                      c.frags.size(), c.addr.text, (unsigned long)sim.iter, c.pos, S.size(), c.dispatched.size());

        // --- clause: only allowed client addresses are served
        if (!c.ref_allowed) {
            if (!c.dispatched.empty() || !c.out.empty())
                ctx.failf("served-disallowed-client", "variant %zu: client %s is neither loopback nor in -rpcallowip (mask %lx) but %zu requests were dispatched and %zu bytes answered", vi, c.addr.text,
                          (unsigned long)allowmask, c.dispatched.size(), c.out.size());
            ctx.probe("disallowed_client_rejected");
            continue;
        }
        if (vi != 0 && c.cfg.addr >= 2) ctx.probe("non_loopback_client_allowed_by_rpcallowip");
        if (c.frags.size() >= 2 && (!c.dispatched.empty() || !resp.empty())) ctx.nontrivial = true;
        if (c.frags.size() >= 2) ctx.probe("fragmented_delivery");

        // --- clause: RPC calls are executed only with valid credentials
        for (size_t i = 0; i < c.dispatched.size(); ++i) {
            if (c.rpc_execs[i] > 0) {
                ctx.probe("rpc_executed_with_valid_credentials");
                if (c.dispatched[i].method != "POST" || !RefCredsValid(c.dispatched[i], creds))
                    ctx.failf("rpc-executed-without-valid-credentials", "variant %zu request #%zu (%s %s): the RPC command ran %d time(s) although no Authorization header carries a configured user:password; headers: %s", vi, i,
                              c.dispatched[i].method.c_str(), Printable(c.dispatched[i].target).c_str(), c.rpc_execs[i], Printable(c.dispatched[i].hdrs, 300).c_str());
            }
        }

        // --- clause: same dispatched sequence as the single-chunk delivery
        const bool relaxed = cfg.Relaxed(), faulty = cfg.Faulty();
        {
            size_t n = std::min(c.dispatched.size(), b.dispatched.size());
            for (size_t i = 0; i < n; ++i) {
                std::string d = DiffRecRec(c.dispatched[i], b.dispatched[i]);
                if (!d.empty()) ctx.failf("fragmentation-changes-dispatched-request", "variant %zu (%s, %zu fragments): dispatched request #%zu differs from single-chunk delivery: %s", vi, kFragNames[cfg.frag], c.frags.size(), i, d.c_str());
            }
            if (!relaxed && !faulty && c.dispatched.size() != b.dispatched.size())
                ctx.failf("fragmentation-changes-dispatch-count", "variant %zu (%s, %zu fragments): %zu requests dispatched, single-chunk delivery %zu", vi, kFragNames[cfg.frag], c.frags.size(), c.dispatched.size(), b.dispatched.size());
        }

        // --- clause: ... and as the reference parser
        {
            size_t n = std::min(c.dispatched.size(), ref.reqs.size());
            for (size_t i = 0; i < n; ++i) {
                std::string d = DiffRec(c.dispatched[i], ref.reqs[i]);
                if (!d.empty()) ctx.failf("dispatched-request-differs-from-reference", "variant %zu (%s): request #%zu: %s", vi, kFragNames[cfg.frag], i, d.c_str());
            }
            if (c.dispatched.size() > ref.reqs.size() && ref.term != 0)
                ctx.failf("malformed-request-dispatched", "variant %zu (%s): %zu requests dispatched, the reference stops after %zu with %d (%s)", vi, kFragNames[cfg.frag], c.dispatched.size(), ref.reqs.size(), ref.term, ref.why.c_str());
            // After the answer to a request that ends the connection (HTTP/1.0 without keep-alive, Connection: close) the server
            // hangs up "on the next loop"; when the answer is written or flushed by later iterations, requests that are already
            // buffered are looked at (one per iteration) before that. All of these outcomes are accepted there.
            const bool extra_possible = relaxed && ex.closing >= 0;
            size_t max_cnt = extra_possible ? ex.n_all : ex.strict_cnt;
            size_t min_cnt = faulty ? 0 : ex.strict_cnt;
            if (c.dispatched.size() > ex.strict_cnt && c.dispatched.size() <= max_cnt) ctx.probe("request_after_close_dispatched_before_hangup");
            if (c.dispatched.size() > max_cnt)
                ctx.failf("dispatched-after-connection-close", "variant %zu (%s): %zu requests dispatched, at most %zu expected (request #%d closes the connection)", vi, kFragNames[cfg.frag], c.dispatched.size(), max_cnt, ex.closing);
            if (c.dispatched.size() < min_cnt)
                ctx.failf("request-not-dispatched", "variant %zu (%s, %zu fragments, reply=%d send=%d): %zu requests dispatched, reference expects %zu (all %zu bytes %s)", vi, kFragNames[cfg.frag], c.frags.size(), cfg.reply, cfg.send,
                          c.dispatched.size(), min_cnt, S.size(), c.pos == S.size() ? "delivered" : "NOT delivered");
            if (ex.closing >= 0 && c.dispatched.size() >= ex.strict_cnt) ctx.probe("connection_close_ends_pipeline");
        }

        // --- clause: answers (status, and for the stub worker the body) incl. the error status for malformed input
        if (garbage) ctx.failf("reply-stream-garbled", "variant %zu: bytes sent to the client do not parse as HTTP responses: %s", vi, Printable(c.out, 120).c_str());
        if (faulty) continue; // a reset connection may lose any suffix of the answers
        {
            // Unsent answer bytes are dropped when the server hangs up because of an error ("may drop unsent data if we are
            // closing due to error"): with short/EAGAIN sends the answers of a stream that ends in an error may be cut anywhere.
            const bool lossy_send = cfg.send != SD_FULL;
            const bool may_truncate = lossy_send && (ex.strict_term != 0 || (relaxed && ex.closing >= 0 && ref.term != 0));
            const bool after_close_free = relaxed && ex.closing >= 0; // see above: what follows a closing request is not pinned down
            size_t ri = 0;
            bool cut = false;
            // answers to the strictly expected requests
            for (size_t i = 0; i < ex.strict_cnt; ++i, ++ri) {
                if (ri >= resp.size() || !resp[ri].complete) {
                    if (may_truncate) { cut = true; break; }
                    ctx.failf("reply-missing", "variant %zu (%s, reply=%d send=%d): dispatched request #%zu got %s answer (%zu responses on the wire)", vi, kFragNames[cfg.frag], cfg.reply, cfg.send, i, ri < resp.size() ? "a truncated" : "no", resp.size());
                }
                std::string want;
                if (!StatusAcceptable(resp[ri].status, c.dispatched[i], rpc, creds, want)) {
                    if (rpc && want == "401") ctx.failf("rpc-bad-credentials-not-rejected", "variant %zu request #%zu: answered %d, expected 401; headers: %s", vi, i, resp[ri].status, Printable(c.dispatched[i].hdrs, 300).c_str());
                    ctx.failf("reply-status-mismatch", "variant %zu (%s): request #%zu answered %d, expected %s", vi, kFragNames[cfg.frag], i, resp[ri].status, want.c_str());
                }
                if (rpc && resp[ri].status == 401) ctx.probe("rpc_rejected_401");
                if (!rpc) {
                    // an HTTP/1.0 body runs to the hang-up: it may be cut (see may_truncate) or later answers (see above) may end up in it
                    const std::string exp_body = StubBody(c.id, i, c.dispatched[i]);
                    bool body_ok = resp[ri].body == exp_body;
                    if (!body_ok && resp[ri].to_eof && may_truncate && exp_body.rfind(resp[ri].body, 0) == 0) body_ok = true;
                    if (!body_ok && resp[ri].to_eof && after_close_free && resp[ri].body.rfind(exp_body, 0) == 0) body_ok = true;
                    if (!body_ok)
                    ctx.failf("reply-body-mismatch", "variant %zu (%s): request #%zu answered with body '%s', the worker wrote '%s'", vi, kFragNames[cfg.frag], i, Printable(resp[ri].body).c_str(), Printable(exp_body).c_str());
                }
            }
            if (cut) {
                // nothing complete may follow the cut
                if (resp.size() > ri + 1) ctx.failf("unexpected-answer", "variant %zu (%s): %zu responses on the wire after a truncated one at #%zu", vi, kFragNames[cfg.frag], resp.size(), ri);
            } else if (ex.strict_term != 0) {
                // the error answer
                bool present = ri < resp.size() && resp[ri].status != 0;
                if (!present && !lossy_send)
                    ctx.failf("error-status-differs-from-reference", "variant %zu (%s, %zu fragments): no error answer, reference expects %d (%s) after %zu requests", vi, kFragNames[cfg.frag], c.frags.size(), ex.strict_term, ref.why.c_str(), ex.strict_cnt);
                if (present && resp[ri].status != ex.strict_term)
                    ctx.failf("error-status-differs-from-reference", "variant %zu (%s, %zu fragments): stream answered with %d, reference expects %d (%s)", vi, kFragNames[cfg.frag], c.frags.size(), resp[ri].status, ex.strict_term, ref.why.c_str());
                if (present && !lossy_send && !resp[ri].complete) ctx.failf("reply-missing", "variant %zu: truncated error answer", vi);
                if (present) ctx.probe(ex.strict_term == 413 ? "answered_413" : "answered_400");
                if (ri < resp.size()) ++ri; // the (possibly truncated) error answer
                if (ri < resp.size()) ctx.failf("answer-after-error", "variant %zu (%s): %zu responses on the wire, expected %zu", vi, kFragNames[cfg.frag], resp.size(), ri);
            } else if (!after_close_free) {
                if (ri < resp.size())
                    ctx.failf("unexpected-answer", "variant %zu (%s): %zu responses on the wire (last status %d), expected %zu (reference: %zu requests, term %d)", vi, kFragNames[cfg.frag], resp.size(), resp.back().status, ri,
                              ref.reqs.size(), ref.term);
            } else {
                // after a closing request, answer written/flushed by a later loop iteration: further answers may or may not appear
                if (resp.size() > ex.n_all + 1) ctx.failf("unexpected-answer", "variant %zu (%s): %zu responses on the wire, the stream holds %zu requests", vi, kFragNames[cfg.frag], resp.size(), ex.n_all);
            }
        }
        // --- cross-variant error status (strict variants only; the reference comparison above covers the rest)
        if (!relaxed && vi != 0 && b.ref_allowed) {
            bool g2 = false;
            std::vector<Resp> rb = ParseResponses(b.out, g2);
            int eb = !rb.empty() && rb.back().status >= 400 && rb.size() > b.dispatched.size() ? rb.back().status : 0;
            int ec = !resp.empty() && resp.back().status >= 400 && resp.size() > c.dispatched.size() ? resp.back().status : 0;
            if (eb != ec) ctx.failf("fragmentation-changes-error-status", "variant %zu (%s, %zu fragments): error answer %d, single-chunk delivery %d", vi, kFragNames[cfg.frag], c.frags.size(), ec, eb);
        }
    }
}

void Init();
void Run(Ctx& ctx)
{
    Init();
    g_rpc_exec_count = 0;
    const bool server = ctx.knob("server", 1) != 0;
    const bool rpc = server && ctx.knob("rpc", 0) != 0;
    const std::vector<Cred> creds = MakeCreds(ctx.knob("cred", 0));
    const Stream st = BuildStream(ctx.plan, rpc ? creds : std::vector<Cred>{});
    const Ref ref = RefParse(st.s);
    const Expect ex = MakeExpect(ref);
    ctx.evf("stream len=%zu h=%s ref: reqs=%zu term=%d closing=%d", st.s.size(), HexU64(strhash(st.s)).c_str(), ref.reqs.size(), ref.term, ex.closing);
    ctx.fingerprint(RefFingerprint(ref));
    RefProbes(ctx, ref, ex);

    // variant 0 is always the single-chunk delivery from loopback with an immediately answering worker
    std::vector<VCfg> variants(1);
    for (const Op& op : ctx.plan.ops)
        if (op.kind == VARIANT && variants.size() < 12) variants.push_back(ParseVariant(op));
    if (server) RunServerMode(ctx, st, ref, variants, rpc, creds);
    else RunParserMode(ctx, st, ref, variants);
}

// ---------------------------------------------------------------------------------------------

void Init()
{
    static bool done = false;
    if (done) return;
    done = true;
    static const CRPCCommand cmd{"c52", "c52probe",
                                 [](const JSONRPCRequest&, UniValue& result, bool) {
                                     ++g_rpc_exec_count;
                                     result = UniValue(g_rpc_exec_count);
                                     return true;
                                 },
                                 {{"tag", false}}, /*unique_id=*/52};
    tableRPC.appendCommand(cmd.name, &cmd);
    if (RPCIsInWarmup(nullptr)) SetRPCWarmupFinished();
}

Engine MakeEngine()
{
    Engine e;
    e.prop = "C52";
    e.name = "compsim/http";
    e.level = "exploration";
    e.gen = Gen;
    e.run = Run;
    e.describe = Describe;
    e.init = Init;
    e.chunk = 300;
    e.quick_runs = 200000;
    e.thorough_runs = 3500000;
    e.quick_budget_s = 50;
    e.thorough_budget_s = 900;
    e.rule = "one case = one byte stream + 1..11 deliveries of it. The stream is built from 1-5 grammar requests (method/target/version incl. invalid ones, CRLF/LF/mixed line ends, "
             "Connection close/keep-alive, no body | Content-Length (exact, duplicated equal/different, garbled, > 32 MiB, off by a few bytes) | chunked (hex case, leading zeros, extensions, "
             "trailers, 12 framing defects incl. cumulative > 32 MiB) | other Transfer-Encoding, 15 line-level defects (bare CR, NUL, no colon, folded line, over-long line...), header(+trailer) "
             "sections padded to 8192+-3 bytes, bodies crossing the 64 KiB read buffer, Basic credentials of 11 kinds in rpc mode), raw garbage, and byte mutations. Each delivery fragments it "
             "(whole | fixed k in 1..65536 | random sizes | cuts at line/chunk boundaries +-2 | 1-byte steps around one boundary | one cut) and, in server mode, picks client address, worker latency "
             "(answer in the dispatcher or 1-3 I/O-loop iterations later), send behaviour (full | short | EAGAIN | EPIPE), idle iterations, spurious/failed reads. Delivery 0 is always single-chunk, "
             "loopback, immediate answer, full sends. non-trivial = a delivery with >= 2 fragments produced a request or an error; distinct = fingerprints of (reference parse of the stream: per "
             "request method/version/#headers/keep-alive/chunked/body size class, terminal status) x (fragmentation kind, #fragments class, worker latency, send mode, allowed?, #dispatched)";
    e.real_components = {"HTTPRemoteClient::ReadRequest, HTTPRequest::LoadControlData/LoadHeaders/LoadBody, HTTPHeaders::Read (httpserver.cpp)", "util::LineReader (util/string.cpp)",
                         "HTTPServer: InitHTTPAllowList/ClientAllowed, BindAndStartListening, ThreadSocketHandler (GenerateWaitSockets, SocketHandlerConnected, SocketHandlerListening/AcceptConnection, "
                         "MaybeDispatchRequestsFromClient, DisconnectClients) run on the simulator thread, HTTPRequest::WriteReply, HTTPRemoteClient::MaybeSendBytesFromBuffer",
                         "CSubNet/LookupSubNet/CService::SetSockAddr (netaddress.cpp, netbase.cpp)",
                         "HTTPReq_JSONRPC, RPCAuthorized, CheckUserAuthorized, InitRPCAuthentication (httprpc.cpp, compiled a second time into the engine because the handler has internal linkage), "
                         "JSONRPCExec/CRPCTable::execute (rpc/server.cpp)"};
    e.stub_components = {"sockets: SimSock via the CreateSock seam and Sock::Accept; Sock::WaitMany is the simulator's scheduling point", "worker thread pool and URL routing of httpserver.cpp (static, thread based): "
                         "replaced by a recording dispatcher answering immediately or N loop iterations later, only at iteration boundaries", "RPC command table: one probe command 'c52probe'",
                         "idle timeout (-rpcservertimeout=0; it reads the real steady clock)", "the 250 ms sleep after a failed login (simulated time)", "-rpcallowip/-rpcuser/-rpcpassword/-rpcauth given as forced settings"};
    e.assumptions = {"the client keeps the connection open until the server has answered or stopped making progress (3 idle loop iterations), then closes; a half-close while requests are still buffered is treated by the server as an abort and is not explored",
                     "connection persistence as implemented by HTTPRequest::WriteReply: HTTP/1.0 stays open only with 'Connection: keep-alive', HTTP/1.x (x>=1) unless 'Connection: close' (first Connection header, whole value, case-insensitive)",
                     "when the answer to a connection-closing request is written or flushed by a later loop iteration (worker latency, short sends) the server may still dispatch further buffered requests before it hangs up; "
                     "what happens after a closing request is then not pinned down (accepted, probe request_after_close_dispatched_before_hangup); with immediate answer and full sends nothing may follow",
                     "with short/EAGAIN sends the answers of a stream that ends in an error may be cut anywhere (the server documents that it drops unsent data when closing due to an error); after EPIPE/ECONNRESET only a prefix of the dispatch sequence is required",
                     "credentials oracle is one-directional: the RPC command ran => some Authorization header decodes (leniently) to a configured user:password; answers to requests without such a header must be 401",
                     "requests with an unknown method are dispatched by HTTPServer (the 405 is produced by the static dispatcher of httpserver.cpp, which is stubbed)"};
    e.expected_probes = {"fragmented_delivery", "pipelined_requests", "chunked_body", "chunked_trailers", "split_in_chunk_size_line", "split_between_cr_and_lf", "split_in_header_line", "split_in_request_line", "split_in_body",
                         "split_in_trailer", "header_section_exactly_at_limit", "header_section_over_limit", "answered_400", "answered_413", "stream_all_valid", "duplicate_content_length_equal",
                         "body_larger_than_recv_buffer", "connection_close_ends_pipeline", "requests_after_connection_close", "request_after_close_dispatched_before_hangup", "reply_from_worker_after_later_iteration",
                         "disallowed_client_rejected", "non_loopback_client_allowed_by_rpcallowip", "rpc_executed_with_valid_credentials", "rpc_rejected_401", "http_1_0", "unknown_method_passed_on"};
    return e;
}
Engine g_engine = MakeEngine();
SIM_REGISTER_ENGINE(g_engine);

} // namespace

