// C39 — transaction-origin privacy is preserved.
// Two simulations behind one engine (knob "mode"):
//  * peersim (mode 0): one real node (chainstate + mempool + PeerManager + CConnman bookkeeping) with scripted inbound / outbound /
//    manual / private-broadcast peers. The simulator owns the clock that drives the Poisson inv timers and replaces the msghand
//    loop: one "step" is exactly one ProcessMessages call or one SendMessages call for one peer, a local submission
//    (node::BroadcastTransaction, the sendrawtransaction path, with and without private broadcast), a block, or a clock jump.
//    After every step the harness looks at the public mempool contents and at every message the node sent (CaptureMessage seam).
//  * compsim (mode 1/2): the real PrivateBroadcast container with small limits from its constructor (mode 1) or the production
//    limits 10,000 / 1,000 (mode 2) against a counting model.
#include "../core/sim.h"
#include "../nodesim/chainsim.h"
#include "../nodesim/mempoolsim.h"
#include "../nodesim/peersim.h"

#include <net_processing.h>
#include <node/context.h>
#include <node/transaction.h>
#include <node/types.h>
#include <private_broadcast.h>
#include <protocol.h>
#include <streams.h>
#include <util/time.h>

#include <optional>

using namespace sim;
using namespace nodesim;

namespace {

enum {
    O_LOCAL_TX = 500, O_PEER_TX, O_GETDATA, O_MEMPOOL_REQ, O_SEND, O_CLOCK, O_MINE, O_CONNECT, O_DISCONNECT, O_FEEFILTER, O_PEER_INV,
    O_PRIV_SUBMIT, O_PRIV_CONNECT, O_PRIV_GETDATA, O_PRIV_PONG, O_PRIV_ECHO, O_PRIV_PUBLIC, O_PRIV_ABORT, O_NOPS_END,
    Q_ADD = 600, Q_REMOVE, Q_PICK, Q_CONFIRM, Q_CLOCK, Q_NOPS_END
};

static const char* kShape[3] = {"simple", "chain", "rbf"};
static const char* kGdKind[3] = {"MSG_TX", "MSG_WTX", "MSG_WITNESS_TX"};
static const int64_t kFee[4] = {1500, 3000, 8000, 20000}; // sat per kvB

// non-private peer flavours
struct Flavour { ConnectionType ct; NetPermissionFlags perm; bool wtxid; const char* name; };
static const Flavour kFlavours[] = {
    {ConnectionType::INBOUND, NetPermissionFlags::None, true, "inbound"},
    {ConnectionType::INBOUND, NetPermissionFlags::None, true, "inbound"},
    {ConnectionType::OUTBOUND_FULL_RELAY, NetPermissionFlags::None, true, "outbound-full-relay"},
    {ConnectionType::INBOUND, NetPermissionFlags::Mempool, true, "inbound+mempool"},
    {ConnectionType::INBOUND, NetPermissionFlags::NoBan, true, "inbound+noban"},
    {ConnectionType::INBOUND, NetPermissionFlags::None, false, "inbound-txidrelay"},
    {ConnectionType::MANUAL, NetPermissionFlags::None, true, "manual"},
    {ConnectionType::INBOUND, NetPermissionFlags::ForceRelay, true, "inbound+forcerelay"},
    {ConnectionType::OUTBOUND_FULL_RELAY, NetPermissionFlags::None, false, "outbound-txidrelay"},
    {ConnectionType::BLOCK_RELAY, NetPermissionFlags::None, true, "block-relay-only"},
};
constexpr int N_FLAVOURS = sizeof(kFlavours) / sizeof(kFlavours[0]);
constexpr int MAX_PEERS = 16;

std::string Describe(const Op& op)
{
    char b[240];
    switch (op.kind) {
    case O_LOCAL_TX: snprintf(b, sizeof b, "local submit (broadcast to all) of a new %s tx (seed=%ld, fee class %ld)", kShape[op.mod(0, 3)], (long)op.arg(1), (long)op.mod(2, 4)); break;
    case O_PEER_TX: snprintf(b, sizeof b, "peer#%ld relays a new %s tx (seed=%ld, fee class %ld, orphan-first=%ld)", (long)op.arg(0), kShape[op.mod(1, 3)], (long)op.arg(2), (long)op.mod(3, 4), (long)(op.arg(4) & 1)); break;
    case O_GETDATA: snprintf(b, sizeof b, "peer#%ld sends getdata(%s) for tx sel=%ld (+%ld more items)", (long)op.arg(0), kGdKind[op.mod(2, 3)], (long)op.arg(1), (long)op.mod(3, 3)); break;
    case O_MEMPOOL_REQ: snprintf(b, sizeof b, "peer#%ld sends `mempool`", (long)op.arg(0)); break;
    case O_SEND: snprintf(b, sizeof b, "msghand iteration without input for peer#%ld (all=%ld)", (long)op.arg(0), (long)(op.arg(1) & 1)); break;
    case O_CLOCK: snprintf(b, sizeof b, "clock += %lds", (long)op.arg(0)); break;
    case O_MINE: snprintf(b, sizeof b, "block confirming %ld%% of the mempool (seed=%ld)", (long)op.arg(0), (long)op.arg(1)); break;
    case O_CONNECT: snprintf(b, sizeof b, "new peer connects (%s, relay=%ld)", kFlavours[op.mod(0, N_FLAVOURS)].name, (long)(op.arg(1) != 0)); break;
    case O_DISCONNECT: snprintf(b, sizeof b, "peer#%ld disconnects", (long)op.arg(0)); break;
    case O_FEEFILTER: snprintf(b, sizeof b, "peer#%ld sends feefilter(%ld)", (long)op.arg(0), (long)op.arg(1)); break;
    case O_PEER_INV: snprintf(b, sizeof b, "peer#%ld announces tx sel=%ld to the node", (long)op.arg(0), (long)op.arg(1)); break;
    case O_PRIV_SUBMIT: snprintf(b, sizeof b, "local submit for PRIVATE broadcast (%s, seed=%ld, resubmit-existing=%ld sel=%ld)", kShape[op.mod(0, 2)], (long)op.arg(1), (long)(op.arg(2) & 1), (long)op.arg(3)); break;
    case O_PRIV_CONNECT: snprintf(b, sizeof b, "private-broadcast connection opens (peer relay flag=%ld)", (long)(op.arg(0) != 0)); break;
    case O_PRIV_GETDATA: snprintf(b, sizeof b, "private peer#%ld sends getdata mode=%ld [0=announced txid,1=other tx,2=as MSG_WTX,3=two items,4=MSG_WITNESS_TX]", (long)op.arg(0), (long)op.mod(1, 5)); break;
    case O_PRIV_PONG: snprintf(b, sizeof b, "private peer#%ld sends pong (wrong nonce=%ld)", (long)op.arg(0), (long)(op.arg(1) & 1)); break;
    case O_PRIV_ECHO: snprintf(b, sizeof b, "peer#%ld relays private tx sel=%ld back to the node", (long)op.arg(0), (long)op.arg(1)); break;
    case O_PRIV_PUBLIC: snprintf(b, sizeof b, "local re-submit of private tx sel=%ld WITHOUT private broadcast", (long)op.arg(0)); break;
    case O_PRIV_ABORT: snprintf(b, sizeof b, "abort private broadcast of private tx sel=%ld", (long)op.arg(0)); break;
    case Q_ADD: snprintf(b, sizeof b, "Add(tx %ld .. +%ld, equivalent-copy=%ld)", (long)op.arg(0), (long)op.arg(1), (long)(op.arg(2) & 1)); break;
    case Q_REMOVE: snprintf(b, sizeof b, "Remove(tx %ld)", (long)op.arg(0)); break;
    case Q_PICK: snprintf(b, sizeof b, "PickTxForSend x%ld (fresh node ids)", (long)op.arg(0)); break;
    case Q_CONFIRM: snprintf(b, sizeof b, "NodeConfirmedReception(node sel=%ld)", (long)op.arg(0)); break;
    case Q_CLOCK: snprintf(b, sizeof b, "clock += %lds", (long)op.arg(0)); break;
    default: snprintf(b, sizeof b, "?");
    }
    return b;
}

// ---------------------------------------------------------------------------------------------
// plan generation

Plan GenQueue(Rng& rng, Tier tier, Plan p)
{
    const bool real = rng.chance(1, 8);
    p.knobs["mode"] = real ? 2 : 1;
    if (real) {
        // production limits: exhaust one transaction, re-add it, then fill the queue past its cap; seeded noise in between
        p.knobs["q_cap"] = (int64_t)PrivateBroadcast::MAX_TRANSACTIONS;
        p.knobs["q_attempts"] = (int64_t)PrivateBroadcast::MAX_SEND_ATTEMPTS;
        auto noise = [&] {
            int n = (int)rng.below(3);
            for (int i = 0; i < n; ++i) {
                switch (rng.below(3)) {
                case 0: p.ops.push_back(Op{Q_CONFIRM, {(int64_t)rng.below(1000)}}); break;
                case 1: p.ops.push_back(Op{Q_CLOCK, {(int64_t)rng.range(1, 400)}}); break;
                default: p.ops.push_back(Op{Q_ADD, {0, 1, (int64_t)rng.below(2)}}); break;
                }
            }
        };
        p.ops.push_back(Op{Q_ADD, {0, 1, 0}});
        noise();
        p.ops.push_back(Op{Q_PICK, {(int64_t)rng.range(400, 998)}});
        noise();
        p.ops.push_back(Op{Q_PICK, {(int64_t)rng.range(600, 700)}});
        noise();
        p.ops.push_back(Op{Q_ADD, {0, 1, (int64_t)rng.below(2)}});
        p.ops.push_back(Op{Q_PICK, {(int64_t)rng.range(1, 4)}});
        if (rng.chance(1, 2)) p.ops.push_back(Op{Q_REMOVE, {0}});
        p.ops.push_back(Op{Q_ADD, {1, (int64_t)rng.range(9990, 10005), 0}});
        noise();
        p.ops.push_back(Op{Q_ADD, {(int64_t)rng.range(9990, 10020), (int64_t)rng.range(1, 30), 0}});
        p.ops.push_back(Op{Q_PICK, {(int64_t)rng.range(1, 5)}});
        p.ops.push_back(Op{Q_REMOVE, {(int64_t)rng.range(0, 9000)}});
        p.ops.push_back(Op{Q_ADD, {(int64_t)rng.range(10000, 10030), (int64_t)rng.range(1, 5), 0}});
        return p;
    }
    int cap = (int)rng.range(1, 6), att = (int)rng.range(1, 4);
    p.knobs["q_cap"] = cap;
    p.knobs["q_attempts"] = att;
    int nops = (int)rng.range(30, tier == Tier::THOROUGH ? 160 : 80);
    uint32_t w_add = 20 + (uint32_t)rng.below(30), w_rm = (uint32_t)rng.below(12), w_pick = 20 + (uint32_t)rng.below(40), w_conf = (uint32_t)rng.below(15), w_clk = (uint32_t)rng.below(8);
    for (int i = 0; i < nops; ++i) {
        Op op;
        op.kind = Q_ADD + (int)rng.pick({w_add, w_rm, w_pick, w_conf, w_clk});
        switch (op.kind) {
        case Q_ADD: op.a = {(int64_t)rng.below(cap + 4), (int64_t)rng.skewed(1, 3), (int64_t)rng.below(2)}; break;
        case Q_REMOVE: op.a = {(int64_t)rng.below(cap + 4)}; break;
        case Q_PICK: op.a = {(int64_t)rng.skewed(1, 4)}; break;
        case Q_CONFIRM: op.a = {(int64_t)rng.below(1000)}; break;
        case Q_CLOCK: op.a = {(int64_t)rng.range(1, 400)}; break;
        }
        p.ops.push_back(op);
    }
    return p;
}

Plan Gen(uint64_t seed, Tier tier)
{
    Rng rng(seed);
    Plan p;
    if (rng.chance(1, 6)) return GenQueue(rng, tier, p);
    p.knobs["mode"] = 0;
    p.knobs["base"] = rng.range(110, 124);
    p.knobs["on_disk"] = 0;
    p.knobs["coins_cache_kb"] = 8192;
    p.knobs["batch_bytes"] = 16 << 20;
    p.knobs["mempool_kb"] = 300000;
    p.knobs["expiry_h"] = 336;
    p.knobs["cluster_count"] = 64;
    p.knobs["cluster_kvb"] = 101;
    int npeers = (int)rng.range(1, 4);
    p.knobs["peers"] = npeers;
    for (int i = 0; i < npeers; ++i) {
        p.knobs["p" + std::to_string(i) + "_flavour"] = i == 0 ? (int64_t)rng.below(3) : (int64_t)rng.below(N_FLAVOURS);
        p.knobs["p" + std::to_string(i) + "_relay"] = rng.chance(9, 10);
    }
    // swarm: how much of the run is about private broadcast
    const uint32_t pw = (uint32_t)rng.pick({2, 5, 3});
    std::vector<uint32_t> w(O_NOPS_END - O_LOCAL_TX, 0);
    auto W = [&](int k) -> uint32_t& { return w[k - O_LOCAL_TX]; };
    W(O_LOCAL_TX) = 10; W(O_PEER_TX) = 12; W(O_GETDATA) = 24; W(O_MEMPOOL_REQ) = 3; W(O_SEND) = 16; W(O_CLOCK) = 10; W(O_MINE) = 3; W(O_CONNECT) = 3;
    W(O_DISCONNECT) = 1; W(O_FEEFILTER) = 1; W(O_PEER_INV) = 2;
    W(O_PRIV_SUBMIT) = 5 * pw; W(O_PRIV_CONNECT) = 6 * pw; W(O_PRIV_GETDATA) = 6 * pw; W(O_PRIV_PONG) = 4 * pw; W(O_PRIV_ECHO) = 2 * pw; W(O_PRIV_PUBLIC) = pw; W(O_PRIV_ABORT) = pw;
    int nops = (int)rng.range(40, tier == Tier::THOROUGH ? 170 : 100);
    for (int i = 0; i < nops; ++i) {
        Op op;
        op.kind = O_LOCAL_TX + (int)rng.pick(w);
        auto peer = [&] { return (int64_t)rng.below(MAX_PEERS * 15); };
        auto seed48 = [&] { return (int64_t)(rng.next() >> 16); };
        switch (op.kind) {
        case O_LOCAL_TX: op.a = {(int64_t)rng.pick({6, 3, 1}), seed48(), (int64_t)rng.below(4)}; break;
        case O_PEER_TX: op.a = {peer(), (int64_t)rng.pick({6, 3, 1}), seed48(), (int64_t)rng.below(4), (int64_t)rng.chance(1, 6)}; break;
        case O_GETDATA: op.a = {peer(), (int64_t)rng.below(4000), (int64_t)rng.below(3), (int64_t)rng.pick({8, 2, 1})}; break;
        case O_MEMPOOL_REQ: op.a = {peer()}; break;
        case O_SEND: op.a = {peer(), (int64_t)rng.chance(1, 4)}; break;
        case O_CLOCK: op.a = {(int64_t)(rng.chance(1, 12) ? rng.range(60, 200) : rng.skewed(1, 12))}; break;
        case O_MINE: op.a = {(int64_t)rng.range(30, 100), seed48()}; break;
        case O_CONNECT: op.a = {(int64_t)rng.below(N_FLAVOURS), (int64_t)rng.chance(9, 10)}; break;
        case O_DISCONNECT: op.a = {peer()}; break;
        case O_FEEFILTER: op.a = {peer(), (int64_t)rng.pick({1, 1, 1}) * 2500}; break;
        case O_PEER_INV: op.a = {peer(), (int64_t)rng.below(4000)}; break;
        case O_PRIV_SUBMIT: op.a = {(int64_t)rng.pick({4, 1}), seed48(), (int64_t)rng.chance(1, 6), (int64_t)rng.below(1000)}; break;
        case O_PRIV_CONNECT: op.a = {(int64_t)rng.chance(14, 15)}; break;
        case O_PRIV_GETDATA: op.a = {peer(), (int64_t)rng.pick({14, 2, 2, 2, 2}), (int64_t)rng.below(1000)}; break;
        case O_PRIV_PONG: op.a = {peer(), (int64_t)rng.chance(1, 6)}; break;
        case O_PRIV_ECHO: op.a = {peer(), (int64_t)rng.below(1000)}; break;
        case O_PRIV_PUBLIC: op.a = {(int64_t)rng.below(1000)}; break;
        case O_PRIV_ABORT: op.a = {(int64_t)rng.below(1000)}; break;
        }
        p.ops.push_back(op);
    }
    return p;
}

// ---------------------------------------------------------------------------------------------
// compsim: PrivateBroadcast queue and attempt caps

struct QueueSim {
    Ctx& ctx;
    std::unique_ptr<PrivateBroadcast> pb;
    size_t cap, att;
    struct M { bool present{false}; size_t picks{0}; std::vector<NodeId> nodes; std::set<NodeId> confirmed; size_t lifetime_picks{0}; size_t adds{0}; };
    std::map<int, M> model;
    std::map<int, CTransactionRef> txs, copies;
    std::map<uint256, int> by_wtxid;
    std::map<NodeId, int> node_tx;
    std::vector<NodeId> nodes;
    NodeId next_node{0};
    int64_t now;

    explicit QueueSim(Ctx& c) : ctx(c)
    {
        cap = (size_t)std::clamp<int64_t>(ctx.knob("q_cap", 3), 1, 20000);
        att = (size_t)std::clamp<int64_t>(ctx.knob("q_attempts", 2), 1, 2000);
        if (ctx.knob("mode", 1) == 2) { pb = std::make_unique<PrivateBroadcast>(); cap = PrivateBroadcast::MAX_TRANSACTIONS; att = PrivateBroadcast::MAX_SEND_ATTEMPTS; ctx.probe("queue_production_limits_run"); }
        else pb = std::make_unique<PrivateBroadcast>(cap, att);
        now = 1893456000;
    }
    static CTransactionRef Make(int i)
    {
        CMutableTransaction m;
        m.version = 2;
        m.nLockTime = (uint32_t)i;
        m.vin.resize(1);
        m.vin[0].prevout = COutPoint(Txid::FromUint256(uint256{(uint8_t)(1 + i % 200)}), (uint32_t)(i / 200));
        m.vout.resize(1);
        m.vout[0].nValue = 1000 + i;
        m.vout[0].scriptPubKey = CScript() << OP_TRUE;
        return MakeTransactionRef(m);
    }
    const CTransactionRef& Tx(int i, bool copy)
    {
        auto& m = copy ? copies : txs;
        auto it = m.find(i);
        if (it == m.end()) {
            it = m.emplace(i, Make(i)).first;
            by_wtxid[it->second->GetWitnessHash().ToUint256()] = i;
        }
        return it->second;
    }
    size_t Present() const
    {
        size_t n = 0;
        for (auto& [i, m] : model) n += m.present;
        return n;
    }
    bool AnyPending() const
    {
        for (auto& [i, m] : model)
            if (m.present && m.picks < att) return true;
        return false;
    }

    void FullCheck(const char* where)
    {
        auto info = pb->GetBroadcastInfo();
        if (info.size() > cap) ctx.failf("private-queue-over-capacity", "%s: the queue holds %zu transactions, cap %zu", where, info.size(), cap);
        if (info.size() != Present()) ctx.failf("private-queue-model-mismatch", "%s: the queue holds %zu transactions, the model %zu", where, info.size(), Present());
        for (auto& e : info) {
            auto it = by_wtxid.find(e.tx->GetWitnessHash().ToUint256());
            if (it == by_wtxid.end() || !model[it->second].present) ctx.failf("private-queue-model-mismatch", "%s: the queue holds a transaction the model does not", where);
            const M& m = model[it->second];
            if (e.peers.size() > att) ctx.failf("send-attempts-exceeded", "%s: tx %d was picked for sending %zu times since it was (re-)added, cap %zu", where, it->second, e.peers.size(), att);
            if (e.peers.size() != m.picks) ctx.failf("private-queue-model-mismatch", "%s: tx %d has %zu send records, model %zu", where, it->second, e.peers.size(), m.picks);
            if (e.attempts_remaining != att - std::min(att, m.picks)) ctx.failf("private-queue-model-mismatch", "%s: tx %d reports %zu attempts remaining, model %zu", where, it->second, e.attempts_remaining, att - m.picks);
        }
        const bool have_pending = pb->HavePendingTransactions();
        if (have_pending != AnyPending()) ctx.failf("private-queue-model-mismatch", "%s: HavePendingTransactions()=%d, model %d", where, (int)have_pending, (int)AnyPending());
        uint64_t fp = 0;
        if (model.size() <= 64)
            for (auto& [i, m] : model) fp = mix64(fp, mix64((uint64_t)i * 4 + m.present, m.picks * 64 + m.confirmed.size()));
        else fp = mix64(Present(), node_tx.size());
        ctx.fingerprint(fp);
    }

    void Run()
    {
        SetMockTime(std::chrono::seconds{now});
        const int universe = (int)cap + 40;
        for (const Op& op : ctx.plan.ops) {
            switch (op.kind) {
            case Q_ADD: {
                int n = (int)std::clamp<int64_t>(op.arg(1), 1, 10100);
                size_t added = 0, present = 0, full = 0;
                for (int k = 0; k < n; ++k) {
                    int i = (int)(((uint64_t)op.arg(0) + k) % universe);
                    M& m = model[i];
                    const size_t size_before = Present();
                    auto res = pb->Add(Tx(i, (op.arg(2) & 1) && k == 0));
                    PrivateBroadcast::AddResult want;
                    if (m.present && m.picks < att) want = PrivateBroadcast::AddResult::AlreadyPresent;
                    else if (m.present) want = PrivateBroadcast::AddResult::Added;
                    else if (size_before >= cap) want = PrivateBroadcast::AddResult::QueueFull;
                    else want = PrivateBroadcast::AddResult::Added;
                    if (res != want) {
                        if (res == PrivateBroadcast::AddResult::Added && !m.present && size_before >= cap) ctx.failf("private-queue-over-capacity", "Add(tx %d) was accepted with %zu transactions already queued (cap %zu)", i, size_before, cap);
                        ctx.failf("private-queue-add-result-wrong", "Add(tx %d) returned %d, the documented contract gives %d (present=%d picks=%zu/%zu queued=%zu/%zu)", i, (int)res, (int)want, (int)m.present, m.picks, att, size_before, cap);
                    }
                    if (res == PrivateBroadcast::AddResult::Added) {
                        if (m.present) { ctx.probe("queue_readd_resets_attempts"); for (NodeId nd : m.nodes) node_tx.erase(nd); }
                        m.present = true; m.picks = 0; m.nodes.clear(); m.confirmed.clear(); ++m.adds;
                        ++added;
                    } else if (res == PrivateBroadcast::AddResult::QueueFull) { ++full; ctx.probe("queue_full_rejection"); }
                    else ++present;
                }
                ctx.evf("%s -> added=%zu already=%zu full=%zu size=%zu", Describe(op).c_str(), added, present, full, Present());
                break;
            }
            case Q_REMOVE: {
                int i = (int)op.mod(0, universe);
                M& m = model[i];
                auto r = pb->Remove(Tx(i, false));
                if (r.has_value() != m.present) ctx.failf("private-queue-model-mismatch", "Remove(tx %d) %s but the model says present=%d", i, r ? "removed it" : "found nothing", (int)m.present);
                if (r && *r != m.confirmed.size()) ctx.failf("private-queue-model-mismatch", "Remove(tx %d) reports %zu confirmed sends, model %zu", i, *r, m.confirmed.size());
                if (m.present) { for (NodeId nd : m.nodes) node_tx.erase(nd); m = M{}; }
                ctx.evf("%s -> %s size=%zu", Describe(op).c_str(), r ? "removed" : "absent", Present());
                break;
            }
            case Q_PICK: {
                int n = (int)std::clamp<int64_t>(op.arg(0), 1, 1200);
                size_t got = 0, none = 0;
                for (int k = 0; k < n; ++k) {
                    NodeId nd = next_node++;
                    CService addr;
                    auto r = pb->PickTxForSend(nd, addr);
                    const bool pending = AnyPending();
                    if (!r) {
                        if (pending) ctx.failf("private-queue-pick-none-with-pending", "PickTxForSend returned nothing although a queued transaction has send attempts left");
                        ++none;
                        if (Present() > 0) ctx.probe("queue_attempts_exhausted_no_pick");
                        continue;
                    }
                    auto it = by_wtxid.find((*r)->GetWitnessHash().ToUint256());
                    if (it == by_wtxid.end() || !model[it->second].present) ctx.failf("private-queue-model-mismatch", "PickTxForSend returned a transaction that is not queued");
                    M& m = model[it->second];
                    if (m.picks >= att) ctx.failf("send-attempts-exceeded", "tx %d was picked for sending a %zu-th time since it was last (re-)added; cap %zu", it->second, m.picks + 1, att);
                    ++m.picks; ++m.lifetime_picks;
                    m.nodes.push_back(nd);
                    node_tx[nd] = it->second;
                    nodes.push_back(nd);
                    ++got;
                    ctx.nontrivial = true;
                    if (m.picks == att) ctx.probe("queue_tx_reached_attempt_cap");
                    if (m.adds > 1 && m.lifetime_picks > att) ctx.probe("queue_tx_sent_more_than_cap_after_readd");
                }
                ctx.evf("%s -> picked=%zu none=%zu", Describe(op).c_str(), got, none);
                break;
            }
            case Q_CONFIRM: {
                if (nodes.empty()) break;
                NodeId nd = nodes[nodes.size() - 1 - op.mod(0, std::min<size_t>(nodes.size(), 6))];
                pb->NodeConfirmedReception(nd);
                auto it = node_tx.find(nd);
                auto t = pb->GetTxForNode(nd);
                if (t.has_value() != (it != node_tx.end())) ctx.failf("private-queue-model-mismatch", "GetTxForNode(%ld) %s, model %s", (long)nd, t ? "has a tx" : "has none", it != node_tx.end() ? "has one" : "has none");
                if (it != node_tx.end()) {
                    if (by_wtxid[(*t)->GetWitnessHash().ToUint256()] != it->second) ctx.failf("private-queue-model-mismatch", "GetTxForNode(%ld) returns another transaction than the one picked for that node", (long)nd);
                    model[it->second].confirmed.insert(nd);
                    if (!pb->DidNodeConfirmReception(nd)) ctx.failf("private-queue-model-mismatch", "DidNodeConfirmReception(%ld) false after NodeConfirmedReception", (long)nd);
                }
                ctx.evf("%s -> node %ld %s", Describe(op).c_str(), (long)nd, it != node_tx.end() ? "confirmed" : "unknown");
                break;
            }
            case Q_CLOCK:
                now += std::clamp<int64_t>(op.arg(0), 1, 100000);
                SetMockTime(std::chrono::seconds{now});
                (void)pb->GetStale();
                ctx.evf("clock+%ld", (long)op.arg(0));
                break;
            default: continue;
            }
            FullCheck(Describe(op).c_str());
        }
        ctx.sim_ms = (uint64_t)(now - 1893456000) * 1000;
    }
};

// ---------------------------------------------------------------------------------------------
// peersim

struct Rec {
    CTransactionRef tx;
    uint256 txid, wtxid;
    bool in_pool{false};
    int64_t entered{-1};        //!< step of the most recent entry into the mempool (-1: never)
    bool priv_submitted{false}; //!< accepted for private broadcast at least once
    bool priv_only{false};      //!< submitted for private broadcast and neither received back from the network nor submitted publicly since
    bool is_public{false};      //!< given to the node by a peer or through a non-private submission (or already in the mempool when privately submitted)
    bool from_peer{false};
};

struct PS {
    bool priv{false};
    int64_t connect_step{0};
    int64_t last_ann{-1};       //!< step of the node's last transaction-announcement batch to this peer
    bool mempool_req{false};
    // private-broadcast connection
    std::optional<uint256> announced;
    int inv_msgs{0};
    int credits{0};             //!< getdata messages naming the announced tx that were delivered and not yet answered
    std::optional<uint64_t> ping_nonce;
    int tx_msgs{0};
    std::vector<uint64_t> pongs; //!< ping nonces a (non-private) scripted peer still has to answer
};

struct Sim {
    Ctx& ctx;
    MempoolSim ms;
    std::unique_ptr<NetNode> net;
    struct NodeCtx {
        node::NodeContext nc;
        ~NodeCtx() { (void)nc.chainman.release(); (void)nc.mempool.release(); (void)nc.peerman.release(); }
    };
    std::unique_ptr<NodeCtx> nctx;
    std::vector<Rec> recs;
    std::map<uint256, int> by_txid, by_wtxid;
    std::vector<PS> ps;
    std::set<COutPoint> used;
    std::set<uint256> recent_block; //!< txids and wtxids of the most recent block
    std::set<uint256> confirmed_older; //!< txids of transactions confirmed in earlier blocks of this run (no longer "unconfirmed": outside the statement)
    int64_t step{0};
    int64_t last_push_step{-1};     //!< last step at which a transaction may have been queued for announcement to the connected peers
    std::string opsum;
    bool had_block{false};

    explicit Sim(Ctx& c) : ctx(c), ms(c, MempoolSimConfig{.check_consistency = false}) {}
    ~Sim()
    {
        nctx.reset();
        net.reset();
    }

    // --- helpers -------------------------------------------------------------------------------
    int AddRec(const CTransactionRef& tx)
    {
        auto it = by_wtxid.find(tx->GetWitnessHash().ToUint256());
        if (it != by_wtxid.end()) return it->second;
        Rec r;
        r.tx = tx;
        r.txid = tx->GetHash().ToUint256();
        r.wtxid = tx->GetWitnessHash().ToUint256();
        recs.push_back(r);
        by_txid[r.txid] = (int)recs.size() - 1;
        by_wtxid[r.wtxid] = (int)recs.size() - 1;
        return (int)recs.size() - 1;
    }
    int Lookup(const uint256& h) const
    {
        if (auto it = by_txid.find(h); it != by_txid.end()) return it->second;
        if (auto it = by_wtxid.find(h); it != by_wtxid.end()) return it->second;
        return -1;
    }
    SimPeer* PickPeer(const Op& op, size_t argi, bool want_priv)
    {
        std::vector<SimPeer*> c;
        for (auto& p : net->peers)
            if (!p->finalized && ps[p->idx].priv == want_priv) c.push_back(p.get());
        if (c.empty()) return nullptr;
        return c[op.mod(argi, c.size())];
    }
    /** recent-biased selection among recs satisfying pred */
    template <typename F>
    int PickRec(uint64_t sel, F pred)
    {
        std::vector<int> c;
        for (int i = 0; i < (int)recs.size(); ++i)
            if (pred(recs[i])) c.push_back(i);
        if (c.empty()) return -1;
        if (sel % 4 != 0) return c[c.size() - 1 - (sel / 4) % std::min<size_t>(c.size(), 3)];
        return c[(sel / 4) % c.size()];
    }
    uint64_t LastInvSeq(const SimPeer& p)
    {
        CNodeStateStats st;
        if (!net->peerman->GetNodeStateStats(p.id, st)) return 0;
        return st.m_last_inv_seq;
    }

    CTransactionRef Build(int shape, Rng& r, int fee_class)
    {
        const Keyring& kr = Keys();
        std::vector<MempoolSim::Spendable> ins;
        int64_t feerate = kFee[fee_class % 4];
        if (shape == 2) {
            // replacement of one of our own mempool transactions whose first input is a confirmed coin
            std::vector<int> c;
            for (int i = 0; i < (int)recs.size(); ++i)
                if (recs[i].in_pool && ms.TipUtxo().count(recs[i].tx->vin[0].prevout)) c.push_back(i);
            if (!c.empty()) {
                const Rec& v = recs[c[r.below(c.size())]];
                ins.push_back({v.tx->vin[0].prevout, ms.TipUtxo().at(v.tx->vin[0].prevout), true});
                feerate = 60000;
            }
        }
        if (ins.empty() && shape == 1) {
            std::vector<MempoolSim::Spendable> un;
            for (auto& s : ms.FreeUnconfirmed())
                if (!used.count(s.op) && kr.Classify(s.coin.spk).kind != SK::TRUE_BARE) un.push_back(s);
            if (!un.empty()) ins.push_back(un[r.below(un.size())]);
        }
        if (ins.empty()) {
            std::vector<MempoolSim::Spendable> cf;
            for (auto& s : ms.FreeConfirmed())
                if (!used.count(s.op) && kr.Classify(s.coin.spk).kind != SK::TRUE_BARE) cf.push_back(s);
            if (cf.empty()) return nullptr;
            ins.push_back(cf[r.below(cf.size())]);
        }
        CAmount total = ms.InputSum(ins);
        std::vector<CTxOut> outs;
        if (r.chance(2, 3) && total > 400000) outs.push_back(CTxOut(total / 3, kr.Spk(SK::P2WPKH, (int)r.below(N_KEYS))));
        outs.push_back(CTxOut(0, kr.Spk(r.coin() ? SK::P2WPKH : SK::P2TR, (int)r.below(N_KEYS))));
        CTransactionRef tx = ms.MakeTx(ins, outs, feerate, 0, 2, 0, {}, SigDefect::NONE, TS_SIMPLE);
        for (auto& i : ins) used.insert(i.op);
        return tx;
    }

    // --- the oracle ----------------------------------------------------------------------------
    void ScanMempool()
    {
        for (Rec& r : recs) {
            bool in = ms.pool().exists(Txid::FromUint256(r.txid));
            if (in && !r.in_pool) {
                r.entered = step;
                last_push_step = step;
                ctx.probe("tx_entered_mempool");
                if (r.priv_only) ctx.failf("private-tx-in-mempool", "tx#%d %s was submitted for private broadcast, has not been received back from the network nor re-submitted without private broadcast, but is in the mempool", (int)(&r - recs.data()), r.txid.ToString().substr(0, 10).c_str());
            }
            r.in_pool = in;
        }
    }

    void OnTxInvEntry(SimPeer& p, const CInv& inv)
    {
        int ri = Lookup(inv.hash);
        if (ri >= 0 && recs[ri].priv_only) ctx.failf("private-tx-announced-on-public-connection", "inv to peer#%d (%s) names tx#%d which is in private-broadcast-only state", p.idx, ConnectionTypeAsString(p.opts.conn_type).c_str(), ri);
    }

    void OnServedTx(SimPeer& p, const CTransactionRef& tx)
    {
        PS& s = ps[p.idx];
        const uint256 txid = tx->GetHash().ToUint256();
        int ri = Lookup(txid);
        if (ri >= 0 && recs[ri].priv_only) ctx.failf("private-tx-sent-on-public-connection", "tx message to peer#%d (%s) carries tx#%d which is in private-broadcast-only state", p.idx, ConnectionTypeAsString(p.opts.conn_type).c_str(), ri);
        if (recent_block.count(txid)) { ctx.probe("served_from_most_recent_block"); opsum += strprintf(" p%d<tx(recent-block)", p.idx); return; }
        if (confirmed_older.count(txid)) { ctx.probe("served_confirmed_tx_outside_statement"); return; }
        if (ri < 0) { ctx.probe("served_tx_unknown_to_harness"); return; }
        const Rec& r = recs[ri];
        opsum += strprintf(" p%d<tx#%d", p.idx, ri);
        if (r.entered < 0)
            ctx.failf("tx-served-that-never-entered-mempool", "peer#%d obtained tx#%d by getdata; it never entered the mempool and is not in the most recent block", p.idx, ri);
        if (!(r.entered < s.last_ann))
            ctx.failf("tx-served-before-announcement", "peer#%d obtained tx#%d by getdata at step %ld: it entered the mempool at step %ld, the node's last transaction announcement batch to this peer was at step %ld (-1 = never), and it is not in the most recent block",
                      p.idx, ri, (long)step, (long)r.entered, (long)s.last_ann);
        ctx.probe("getdata_served_from_mempool");
        ctx.nontrivial = true;
    }

    void ObservePeer(SimPeer& p, bool is_send_peer, bool stat_changed)
    {
        PS& s = ps[p.idx];
        bool tx_inv = false;
        for (const SentMsg& m : p.inbox) {
            if (m.type == NetMsgType::PING) {
                uint64_t nonce = 0;
                if (m.payload.size() >= 8) { SpanReader rd{m.payload}; rd >> nonce; }
                if (s.priv) s.ping_nonce = nonce; else s.pongs.push_back(nonce);
                continue;
            }
            if (m.type == NetMsgType::INV) {
                std::vector<CInv> invs;
                SpanReader rd{m.payload};
                rd >> invs;
                size_t ntx = 0;
                for (const CInv& inv : invs) {
                    if (!inv.IsGenTxMsg()) continue;
                    ++ntx;
                    if (!s.priv) OnTxInvEntry(p, inv);
                }
                if (ntx == 0) continue;
                if (s.priv) {
                    ++s.inv_msgs;
                    if (s.inv_msgs > 1 || invs.size() != 1) ctx.failf("private-connection-multiple-announcements", "private-broadcast connection peer#%d got %d inv message(s), the latest with %zu entries: more than one transaction announced on one connection", p.idx, s.inv_msgs, invs.size());
                    s.announced = invs[0].hash;
                    int ri = Lookup(invs[0].hash);
                    if (ri < 0 || !recs[ri].priv_submitted) ctx.failf("private-connection-announces-foreign-tx", "private-broadcast connection peer#%d was sent an inv for %s which was never submitted for private broadcast", p.idx, invs[0].hash.ToString().substr(0, 10).c_str());
                    ctx.probe("private_tx_announced_on_private_connection");
                    ctx.nontrivial = true;
                    opsum += strprintf(" priv-p%d<inv#%d", p.idx, ri);
                } else {
                    tx_inv = true;
                    opsum += strprintf(" p%d<inv[%zu]", p.idx, ntx);
                }
                continue;
            }
            if (m.type == NetMsgType::TX) {
                CTransactionRef tx;
                SpanReader rd{m.payload};
                rd >> TX_WITH_WITNESS(tx);
                if (s.priv) {
                    ++s.tx_msgs;
                    const uint256 txid = tx->GetHash().ToUint256();
                    int ri = Lookup(txid);
                    if (!s.announced || (txid != *s.announced && tx->GetWitnessHash().ToUint256() != *s.announced))
                        ctx.failf("private-connection-second-transaction", "private-broadcast connection peer#%d was sent tx %s (tx#%d) which is not the one announced on this connection", p.idx, txid.ToString().substr(0, 10).c_str(), ri);
                    if (s.credits <= 0) ctx.failf("private-tx-sent-without-request", "private-broadcast connection peer#%d was sent tx#%d without an outstanding getdata for it", p.idx, ri);
                    --s.credits;
                    ctx.probe("private_tx_served_on_request");
                    opsum += strprintf(" priv-p%d<tx#%d", p.idx, ri);
                } else {
                    OnServedTx(p, tx);
                }
                continue;
            }
            if (m.type == NetMsgType::NOTFOUND) {
                std::vector<CInv> invs;
                SpanReader rd{m.payload};
                rd >> invs;
                for (const CInv& inv : invs) {
                    int ri = Lookup(inv.hash);
                    if (ri < 0) continue;
                    if (recs[ri].in_pool) { ctx.probe("getdata_refused_tx_in_mempool_not_yet_announced"); ctx.nontrivial = true; }
                    else if (recs[ri].priv_only) ctx.probe("getdata_for_private_tx_from_public_peer_refused");
                    else ctx.probe("getdata_notfound_other");
                }
                opsum += strprintf(" p%d<notfound[%zu]", p.idx, invs.size());
                continue;
            }
        }
        p.inbox.clear();
        if (s.priv) return;
        if (tx_inv) {
            s.last_ann = step;
            s.mempool_req = false;
            ctx.probe("inv_batch_observed");
        } else if (is_send_peer && stat_changed) {
            // The node ran its announcement batch for this peer but every candidate was filtered (already known to the peer, below
            // its fee filter, no longer in the mempool) or the mempool was empty when it answered a `mempool` request: the
            // peer's public `last_inv_sequence` (getpeerinfo) moved although no inv went out. Accepted as an announcement event
            // only when the harness can justify it from the outside: something was queued for this peer since its last event.
            const bool justified = s.mempool_req || last_push_step > std::max(s.last_ann, s.connect_step);
            if (justified) {
                s.last_ann = step;
                s.mempool_req = false;
                ctx.probe("silent_inv_batch_all_filtered");
                opsum += strprintf(" p%d<silent-batch", p.idx);
            } else {
                ctx.probe("inv_sequence_moved_without_cause");
            }
        }
    }

    void Observe(int send_peer, bool stat_changed)
    {
        ScanMempool();
        for (auto& p : net->peers) ObservePeer(*p, p->idx == send_peer, stat_changed);
        for (size_t i = 0; i < recs.size(); ++i)
            if (recs[i].priv_only && recs[i].in_pool) ctx.failf("private-tx-in-mempool", "tx#%zu is in private-broadcast-only state but is in the mempool", i);
        for (auto& p : net->peers)
            if (!p->finalized && p->node->fDisconnect.load()) {
                opsum += strprintf(" p%d:dropped-by-node", p->idx);
                if (ps[p->idx].priv) ctx.probe(ps[p->idx].tx_msgs ? "private_connection_closed_after_send" : (ps[p->idx].announced ? "private_connection_closed_without_send" : "private_connection_in_vain"));
                net->Disconnect(*p);
            }
    }

    // --- stepping ------------------------------------------------------------------------------
    bool ProcessOne(SimPeer& p)
    {
        if (p.finalized) return false;
        ++step;
        bool more;
        {
            LOCK(NetEventsInterface::g_msgproc_mutex);
            p.node->fPauseSend = false;
            more = net->connman->ProcessMessagesOnce(*p.node);
        }
        net->connman->FlushSendBuffer(*p.node);
        ms.node().DrainSignals();
        Observe(-1, false);
        return more;
    }
    void SendTick(SimPeer& p)
    {
        if (p.finalized) return;
        ++step;
        const uint64_t before = LastInvSeq(p);
        {
            LOCK(NetEventsInterface::g_msgproc_mutex);
            net->peerman->SendMessages(*p.node);
        }
        net->connman->FlushSendBuffer(*p.node);
        ms.node().DrainSignals();
        const uint64_t after = p.finalized ? before : LastInvSeq(p);
        Observe(p.idx, after != before);
    }
    /** the msghand loop body for one peer, until its input queue is empty */
    void Drain(SimPeer& p)
    {
        for (int i = 0; i < 8 && !p.finalized; ++i) {
            bool more = ProcessOne(p);
            SendTick(p);
            if (!more) break;
        }
    }
    void FlushPongs()
    {
        for (auto& p : net->peers) {
            PS& s = ps[p->idx];
            if (p->finalized || s.priv || s.pongs.empty()) continue;
            for (uint64_t n : s.pongs) net->SendMsg(*p, NetMsgType::PONG, n);
            s.pongs.clear();
            Drain(*p);
        }
    }

    SimPeer* Connect(const PeerOpts& o, bool priv)
    {
        if ((int)net->peers.size() >= MAX_PEERS) return nullptr;
        ++step;
        SimPeer& p = net->AddPeer(o);
        ps.resize(net->peers.size());
        ps[p.idx] = PS{};
        ps[p.idx].priv = priv;
        ps[p.idx].connect_step = step;
        Observe(-1, false);
        return &p;
    }

    node::TransactionError Broadcast(const CTransactionRef& tx, node::TxBroadcast method, std::string& err)
    {
        ++step;
        node::TransactionError e = node::BroadcastTransaction(nctx->nc, tx, err, /*max_tx_fee=*/0, method, /*wait_callback=*/false);
        ms.node().DrainSignals();
        if (method != node::TxBroadcast::NO_MEMPOOL_PRIVATE_BROADCAST) last_push_step = step;
        return e;
    }

    void Fingerprint()
    {
        uint64_t h = 0;
        for (auto& r : recs) h = mix64(h, (uint64_t)r.in_pool | (uint64_t)r.priv_only << 1 | (uint64_t)r.is_public << 2 | (uint64_t)r.priv_submitted << 3);
        for (auto& p : net->peers) {
            const PS& s = ps[p->idx];
            uint64_t unannounced = 0;
            for (auto& r : recs) unannounced += r.in_pool && !(r.entered < s.last_ann);
            h = mix64(h, (uint64_t)p->finalized | (uint64_t)s.priv << 1 | unannounced << 2 | (uint64_t)s.announced.has_value() << 20 | (uint64_t)s.tx_msgs << 21 | (uint64_t)s.credits << 24);
        }
        ctx.fingerprint(mix64(h, recent_block.size()));
    }

    // --- the run -------------------------------------------------------------------------------
    void Run()
    {
        ms.Setup();
        PeerManager::Options po;
        po.private_broadcast = true;
        net = std::make_unique<NetNode>(ms.node(), po);
        net->auto_pong = false;
        nctx = std::make_unique<NodeCtx>();
        nctx->nc.chainman.reset(ms.node().chainman.get());
        nctx->nc.mempool.reset(ms.node().mempool.get());
        nctx->nc.peerman.reset(net->peerman.get());
        const int64_t t0 = ms.cs.now;
        int npeers = (int)std::clamp<int64_t>(ctx.knob("peers", 2), 1, 6);
        for (int i = 0; i < npeers; ++i) {
            const Flavour& f = kFlavours[ctx.knob("p" + std::to_string(i) + "_flavour", 0) % N_FLAVOURS];
            PeerOpts o;
            o.conn_type = f.ct;
            o.permissions = f.perm;
            o.wtxidrelay = f.wtxid;
            o.relay_txs = ctx.knob("p" + std::to_string(i) + "_relay", 1) != 0;
            Connect(o, false);
        }
        ctx.evf("setup: %d peers, height %d", npeers, ms.node().Height());

        for (const Op& op : ctx.plan.ops) {
            opsum.clear();
            std::string res;
            switch (op.kind) {
            case O_LOCAL_TX: {
                Rng r(mix64((uint64_t)op.arg(1), 0x6c74));
                CTransactionRef tx = Build((int)op.mod(0, 3), r, (int)op.mod(2, 4));
                if (!tx) { res = "no coins"; break; }
                int ri = AddRec(tx);
                recs[ri].is_public = true;
                std::string err;
                auto e = Broadcast(tx, node::TxBroadcast::MEMPOOL_AND_BROADCAST_TO_ALL, err);
                Observe(-1, false);
                res = strprintf("tx#%d -> %s in_pool=%d", ri, e == node::TransactionError::OK ? "OK" : err.c_str(), (int)recs[ri].in_pool);
                break;
            }
            case O_PEER_TX: {
                SimPeer* p = PickPeer(op, 0, false);
                if (!p) { res = "no peer"; break; }
                Rng r(mix64((uint64_t)op.arg(2), 0x7074));
                CTransactionRef tx = Build((int)op.mod(1, 3), r, (int)op.mod(3, 4));
                if (!tx) { res = "no coins"; break; }
                int ri = AddRec(tx);
                recs[ri].is_public = true;
                recs[ri].from_peer = true;
                last_push_step = step + 1;
                if ((op.arg(4) & 1) && tx->vout.size() >= 1) {
                    // child first (orphan), then the parent: the child enters the mempool in a later ProcessMessages call
                    const Keyring& kr = Keys();
                    MempoolSim::Spendable s{COutPoint(tx->GetHash(), 0), RefCoin{tx->vout[0].nValue, tx->vout[0].scriptPubKey, ms.node().Height() + 1, false}, false};
                    CTransactionRef child = ms.MakeTx({s}, {CTxOut(0, kr.Spk(SK::P2WPKH, 1))}, 4000, 0, 2, 0, {}, SigDefect::NONE, TS_CHAIN);
                    used.insert(s.op);
                    int ci = AddRec(child);
                    recs[ci].is_public = true;
                    recs[ci].from_peer = true;
                    net->SendMsg(*p, NetMsgType::TX, TX_WITH_WITNESS(*child));
                    Drain(*p);
                    res += strprintf("orphan child tx#%d first; ", ci);
                    if (p->finalized) break;
                    ctx.probe("orphan_child_delivered_first");
                }
                net->SendMsg(*p, NetMsgType::TX, TX_WITH_WITNESS(*tx));
                last_push_step = step + 1;
                Drain(*p);
                Drain(*p); // orphan reconsideration happens in a later ProcessMessages call
                res += strprintf("tx#%d from peer#%d in_pool=%d", ri, p->idx, (int)recs[ri].in_pool);
                break;
            }
            case O_GETDATA: {
                SimPeer* p = PickPeer(op, 0, false);
                if (!p || recs.empty()) { res = "nothing"; break; }
                int n = 1 + (int)op.mod(3, 3);
                std::vector<CInv> invs;
                for (int k = 0; k < n; ++k) {
                    int ri = PickRec((uint64_t)op.arg(1) + 977 * k, [](const Rec&) { return true; });
                    int kind = (int)((op.mod(2, 3) + k) % 3);
                    const Rec& rc = recs[ri];
                    invs.push_back(kind == 0 ? CInv(MSG_TX, rc.txid) : kind == 1 ? CInv(MSG_WTX, rc.wtxid) : CInv(MSG_WITNESS_TX, rc.txid));
                    res += strprintf("tx#%d(%s,in_pool=%d,entered=%ld,last_ann=%ld) ", ri, kGdKind[kind], (int)rc.in_pool, (long)rc.entered, (long)ps[p->idx].last_ann);
                }
                net->SendMsg(*p, NetMsgType::GETDATA, invs);
                ctx.probe("getdata_delivered");
                Drain(*p);
                break;
            }
            case O_MEMPOOL_REQ: {
                SimPeer* p = PickPeer(op, 0, false);
                if (!p) break;
                net->SendMsg(*p, NetMsgType::MEMPOOL);
                ps[p->idx].mempool_req = true;
                ctx.probe("mempool_request_delivered");
                Drain(*p);
                break;
            }
            case O_SEND: {
                if (op.arg(1) & 1) {
                    for (size_t i = 0; i < net->peers.size(); ++i) Drain(*net->peers[i]);
                } else if (SimPeer* p = PickPeer(op, 0, false)) Drain(*p);
                break;
            }
            case O_CLOCK:
                ++step;
                ms.cs.now += std::clamp<int64_t>(op.arg(0), 1, 3600);
                SetMockTime(std::chrono::seconds{ms.cs.now});
                break;
            case O_MINE: {
                ++step;
                const int tip_before = ms.TipIdx();
                ms.ExecOp(Op{MP_MINE, {std::clamp<int64_t>(op.arg(0), 0, 100), 0, op.arg(1)}});
                const int tip = ms.TipIdx();
                if (tip != tip_before) {
                    for (auto& h : recent_block) confirmed_older.insert(h);
                    recent_block.clear();
                    for (auto& tx : ms.cs.ref->blocks[tip].block->vtx) { recent_block.insert(tx->GetHash().ToUint256()); recent_block.insert(tx->GetWitnessHash().ToUint256()); }
                    had_block = true;
                    ctx.probe("block_connected");
                }
                Observe(-1, false);
                res = strprintf("tip #%d ntx=%zu pool=%lu", tip, ms.cs.ref->blocks[tip].block->vtx.size(), ms.pool().size());
                break;
            }
            case O_CONNECT: {
                const Flavour& f = kFlavours[op.mod(0, N_FLAVOURS)];
                PeerOpts o;
                o.conn_type = f.ct;
                o.permissions = f.perm;
                o.wtxidrelay = f.wtxid;
                o.relay_txs = op.arg(1) != 0;
                SimPeer* p = Connect(o, false);
                res = p ? strprintf("peer#%d", p->idx) : "too many peers";
                if (p) ctx.probe("peer_connected_mid_run");
                break;
            }
            case O_DISCONNECT: {
                std::vector<SimPeer*> c;
                for (auto& p : net->peers)
                    if (!p->finalized) c.push_back(p.get());
                if (c.size() <= 1) break;
                SimPeer* p = c[op.mod(0, c.size())];
                ++step;
                net->Disconnect(*p);
                ctx.fault("peer_disconnect");
                res = strprintf("peer#%d gone", p->idx);
                break;
            }
            case O_FEEFILTER: {
                SimPeer* p = PickPeer(op, 0, false);
                if (!p) break;
                net->SendMsg(*p, NetMsgType::FEEFILTER, (int64_t)std::clamp<int64_t>(op.arg(1), 0, 1000000));
                Drain(*p);
                break;
            }
            case O_PEER_INV: {
                SimPeer* p = PickPeer(op, 0, false);
                if (!p || recs.empty()) break;
                int ri = PickRec((uint64_t)op.arg(1), [](const Rec& r) { return !r.priv_only; });
                if (ri < 0) break;
                std::vector<CInv> invs{p->opts.wtxidrelay ? CInv(MSG_WTX, recs[ri].wtxid) : CInv(MSG_TX, recs[ri].txid)};
                net->SendMsg(*p, NetMsgType::INV, invs);
                Drain(*p);
                res = strprintf("tx#%d", ri);
                break;
            }
            case O_PRIV_SUBMIT: {
                int ri = -1;
                if (op.arg(2) & 1) ri = PickRec((uint64_t)op.arg(3), [](const Rec& r) { return r.priv_submitted; });
                if (ri < 0) {
                    Rng r(mix64((uint64_t)op.arg(1), 0x7076));
                    CTransactionRef tx = Build((int)op.mod(0, 2), r, 2);
                    if (!tx) { res = "no coins"; break; }
                    ri = AddRec(tx);
                }
                Rec& rc = recs[ri];
                const bool was_in_pool = rc.in_pool;
                std::string err;
                auto e = Broadcast(rc.tx, node::TxBroadcast::NO_MEMPOOL_PRIVATE_BROADCAST, err);
                if (e == node::TransactionError::OK) {
                    rc.priv_submitted = true;
                    if (was_in_pool) rc.is_public = true;
                    if (!rc.is_public) rc.priv_only = true;
                    ctx.probe(rc.priv_only ? "private_submission_accepted" : "private_submission_of_public_tx");
                }
                Observe(-1, false);
                res = strprintf("tx#%d -> %s priv_only=%d queue=%zu", ri, e == node::TransactionError::OK ? "OK" : err.c_str(), (int)rc.priv_only, net->peerman->GetPrivateBroadcastInfo().size());
                break;
            }
            case O_PRIV_CONNECT: {
                PeerOpts o;
                o.conn_type = ConnectionType::PRIVATE_BROADCAST;
                o.wtxidrelay = false;
                o.relay_txs = op.arg(0) != 0;
                SimPeer* p = Connect(o, true);
                res = p ? strprintf("peer#%d announced=%d", p->idx, (int)ps[p->idx].announced.has_value()) : "too many peers";
                break;
            }
            case O_PRIV_GETDATA: {
                SimPeer* p = PickPeer(op, 0, true);
                if (!p) { res = "no private connection"; break; }
                PS& s = ps[p->idx];
                int mode = (int)op.mod(1, 5);
                std::vector<CInv> invs;
                int other = PickRec((uint64_t)op.arg(2), [&](const Rec& r) { return !s.announced || r.txid != *s.announced; });
                int ai = s.announced ? Lookup(*s.announced) : -1;
                if (ai < 0) mode = 1;
                if (mode == 1 && other < 0) { res = "nothing to ask for"; break; }
                switch (mode) {
                case 0: invs = {CInv(MSG_TX, recs[ai].txid)}; break;
                case 1: invs = {CInv(MSG_TX, recs[other].txid)}; break;
                case 2: invs = {CInv(MSG_WTX, recs[ai].wtxid)}; break;
                case 3: invs = {CInv(MSG_TX, recs[ai].txid), CInv(MSG_TX, other >= 0 ? recs[other].txid : recs[ai].txid)}; break;
                default: invs = {CInv(MSG_WITNESS_TX, recs[ai].txid)}; break;
                }
                bool names_announced = false;
                for (auto& i : invs)
                    if (ai >= 0 && (i.hash == recs[ai].txid || i.hash == recs[ai].wtxid)) names_announced = true;
                if (names_announced) ++s.credits;
                net->SendMsg(*p, NetMsgType::GETDATA, invs);
                ctx.probe(mode == 0 ? "private_getdata_for_announced_tx" : "private_getdata_unexpected");
                Drain(*p);
                res = strprintf("private peer#%d mode=%d", p->idx, mode);
                break;
            }
            case O_PRIV_PONG: {
                SimPeer* p = PickPeer(op, 0, true);
                if (!p || !ps[p->idx].ping_nonce) { res = "no ping outstanding"; break; }
                uint64_t n = *ps[p->idx].ping_nonce ^ ((op.arg(1) & 1) ? 0x55 : 0);
                net->SendMsg(*p, NetMsgType::PONG, n);
                Drain(*p);
                ctx.probe("private_pong_delivered");
                res = strprintf("private peer#%d", p->idx);
                break;
            }
            case O_PRIV_ECHO: {
                SimPeer* p = PickPeer(op, 0, false);
                int ri = PickRec((uint64_t)op.arg(1), [](const Rec& r) { return r.priv_submitted; });
                if (!p || ri < 0) { res = "nothing"; break; }
                if (p->opts.conn_type == ConnectionType::BLOCK_RELAY) { res = "block-relay peer"; break; }
                // from now on the transaction counts as received back from the network
                if (recs[ri].priv_only) ctx.probe("private_tx_received_back_from_network");
                recs[ri].priv_only = false;
                recs[ri].is_public = true;
                last_push_step = step + 1;
                net->SendMsg(*p, NetMsgType::TX, TX_WITH_WITNESS(*recs[ri].tx));
                Drain(*p);
                res = strprintf("tx#%d from peer#%d in_pool=%d queue=%zu", ri, p->idx, (int)recs[ri].in_pool, net->peerman->GetPrivateBroadcastInfo().size());
                break;
            }
            case O_PRIV_PUBLIC: {
                int ri = PickRec((uint64_t)op.arg(0), [](const Rec& r) { return r.priv_submitted; });
                if (ri < 0) { res = "nothing"; break; }
                if (recs[ri].priv_only) ctx.probe("private_tx_resubmitted_without_private_broadcast");
                recs[ri].priv_only = false;
                recs[ri].is_public = true;
                std::string err;
                auto e = Broadcast(recs[ri].tx, node::TxBroadcast::MEMPOOL_AND_BROADCAST_TO_ALL, err);
                Observe(-1, false);
                res = strprintf("tx#%d -> %s in_pool=%d", ri, e == node::TransactionError::OK ? "OK" : err.c_str(), (int)recs[ri].in_pool);
                break;
            }
            case O_PRIV_ABORT: {
                int ri = PickRec((uint64_t)op.arg(0), [](const Rec& r) { return r.priv_submitted; });
                if (ri < 0) { res = "nothing"; break; }
                ++step;
                auto removed = net->peerman->AbortPrivateBroadcast(recs[ri].txid);
                Observe(-1, false);
                ctx.probe("private_broadcast_aborted");
                res = strprintf("tx#%d removed=%zu queue=%zu", ri, removed.size(), net->peerman->GetPrivateBroadcastInfo().size());
                break;
            }
            default: continue;
            }
            FlushPongs();
            if (net->peerman->GetPrivateBroadcastInfo().size() > PrivateBroadcast::MAX_TRANSACTIONS) ctx.failf("private-queue-over-capacity", "the node's private broadcast queue holds %zu transactions", net->peerman->GetPrivateBroadcastInfo().size());
            ctx.ev(Describe(op) + " :: " + res + " |" + opsum);
            Fingerprint();
        }
        ctx.sim_ms = (uint64_t)(ms.cs.now - t0) * 1000;
        nctx.reset();
        net.reset();
        ms.Finish();
    }
};

void Run(Ctx& ctx)
{
    if (ctx.knob("mode", 0) != 0) {
        QueueSim q(ctx);
        q.Run();
        return;
    }
    Sim s(ctx);
    s.Run();
}

Engine MakeEngine()
{
    Engine e;
    e.prop = "C39";
    e.name = "peersim+compsim/origin-privacy";
    e.level = "exploration";
    e.gen = Gen;
    e.run = Run;
    e.describe = Describe;
    e.chunk = 1;
    e.quick_runs = 600;
    e.thorough_runs = 20000;
    e.quick_budget_s = 50;
    e.thorough_budget_s = 900;
    e.rule = "5/6 of the runs (peersim) = one real node with 1-4 initial scripted peers (inbound, outbound-full-relay, manual, block-relay-only; permissions none/mempool/noban/forcerelay; wtxid or txid relay; relay flag) and 40-170 seeded events: "
             "local submissions through node::BroadcastTransaction (broadcast-to-all and NO_MEMPOOL_PRIVATE_BROADCAST), `tx` messages from peers (simple, chained, RBF replacement, orphan child before parent), getdata "
             "(MSG_TX/MSG_WTX/MSG_WITNESS_TX, 1-3 items, biased to the newest transactions, private ones included), `mempool` requests, feefilter, inv from peers, msghand iterations, clock steps of 1-200 s driving the "
             "Poisson inv timers (deterministic PeerManager rng), blocks confirming part of the mempool, peers connecting/disconnecting mid-run, private-broadcast connections opening (handshake -> inv), their getdata "
             "(right tx, other tx, wrong type, two items), pong, the private tx echoed back by a public peer, public re-submission, abort. One step = one ProcessMessages or one SendMessages call for one peer; after every step "
             "the mempool membership of every generated transaction and every message captured from the node are checked. A tx message to a non-private peer is legal only if the tx is in the most recent block or its latest mempool entry step "
             "precedes the step of the node's last transaction-inv batch to that peer (a batch in which every candidate was filtered counts only if the peer's public last_inv_sequence moved during that SendMessages and "
             "something had been queued for the peer since its previous batch). 1/6 of the runs (compsim) = the real PrivateBroadcast with cap 1-6 / 1-4 attempts (or, 1/8 of those, the production 10,000 / 1,000) under "
             "Add / Remove / PickTxForSend / NodeConfirmedReception / clock ops against a counting model. non-trivial = a getdata for a mempool transaction was answered (served or refused), a private announcement was sent, or "
             "a transaction was picked; distinct = fingerprints of (per-tx mempool/private state, per-peer number of not-yet-announced mempool txs, private-connection state).";
    e.real_components = {"PeerManagerImpl (ProcessMessage getdata/tx/mempool/verack/pong, SendMessages inv trickle, FindTxForGetData, PushPrivateBroadcastTx, InitiateTxBroadcastToAll/Private, AbortPrivateBroadcast, FinalizeNode)",
                         "node::BroadcastTransaction (all three TxBroadcast methods)", "PrivateBroadcast", "CTxMemPool::info_for_relay / sequence numbers, validation + mempool acceptance, orphanage / TxDownloadManager",
                         "CConnman::PushMessage (private-broadcast message filter), CNode, V1 transport framing of incoming messages"};
    e.stub_components = {"sockets and the net / msghand / privbcast threads (their loop bodies are simulator events; private-broadcast connections are opened by the simulator instead of ThreadPrivateBroadcast)",
                         "CScheduler tasks (ReattemptPrivateBroadcast / ReattemptInitialBroadcast are not run)", "remote peers (scripted)", "clock (SetMockTime)", "NodeContext (a shell holding the simulator's chainman/mempool/peerman)"};
    e.assumptions = {"'the node last sent that peer transaction announcements' is observed as an inv message with at least one transaction entry captured for that peer; an announcement batch whose candidates were all filtered is "
                     "recognised through the peer's public last_inv_sequence statistic and only when the harness saw a cause for it",
                     "'received back from the network' starts when a non-private peer's tx message carrying the transaction is handed to the node; 'submitted without private broadcast' when BroadcastTransaction(MEMPOOL_AND_BROADCAST_TO_ALL) is called",
                     "no reorganisations: transactions returned to the mempool from disconnected blocks get entry sequence 0 and are served immediately (they were public in a block)",
                     "stale re-broadcast scheduling (ReattemptPrivateBroadcast) is outside the simulated history"};
    e.expected_probes = {"inv_batch_observed", "getdata_served_from_mempool", "getdata_refused_tx_in_mempool_not_yet_announced", "served_from_most_recent_block", "silent_inv_batch_all_filtered",
                         "private_submission_accepted", "private_tx_announced_on_private_connection", "private_tx_served_on_request", "private_getdata_unexpected", "private_tx_received_back_from_network",
                         "private_tx_resubmitted_without_private_broadcast", "getdata_for_private_tx_from_public_peer_refused", "private_connection_in_vain", "orphan_child_delivered_first",
                         "queue_full_rejection", "queue_tx_reached_attempt_cap", "queue_readd_resets_attempts", "queue_tx_sent_more_than_cap_after_readd", "queue_production_limits_run"};
    return e;
}
Engine g_engine = MakeEngine();
SIM_REGISTER_ENGINE(g_engine);

} // namespace
