// C37 — the address manager stays internally consistent and bounded.
// compsim: the real AddrMan (deterministic=true, consistency_check_ratio=1, so every public call runs
// AddrManImpl::CheckAddrman twice and aborts on a non-zero code) under a simulated NodeClock, driven by
// seeded histories of Add (all networks, many source groups, time penalties, batches, "hammering" one
// address from hundreds of source groups), Good, Attempt, Connected, SetServices, ResolveCollisions,
// SelectTriedCollision(+feeler outcome), Select(+connection outcome), GetAddr, clock jumps (seconds ...
// months, and backwards), serialise -> new instance (same or changed asmap, deterministic or random-key
// loader) and the real peers.dat path (DumpPeerAddresses / LoadAddrman) with stored-data faults.
// Oracle: a table-level snapshot taken through GetEntries()/Size()/GetAddr() after every operation,
// checked against the bounds the property states and against the snapshot before a reload.
#include "../core/sim.h"
#include "../simfs/simfs.h"

#include <addrdb.h>
#include <addrman.h>
#include <addrman_impl.h>
#include <common/args.h>
#include <netaddress.h>
#include <netgroup.h>
#include <protocol.h>
#include <serialize.h>
#include <streams.h>
#include <util/asmap.h>
#include <util/fs.h>
#include <util/time.h>

#include <sys/stat.h>
#include <unistd.h>

#include <algorithm>
#include <array>
#include <chrono>
#include <filesystem>
#include <fstream>
#include <map>
#include <memory>
#include <optional>
#include <set>
#include <unordered_set>

using namespace sim;
using namespace std::chrono_literals;

namespace {

enum OpKind { ADD, HAMMER, GOOD, ATTEMPT, CONNECTED, SETSERVICES, RESOLVE, FEELER, SELECT, GETADDR, ADVANCE, BACKWARD, ROUNDTRIP, DUMP, LOAD, CHECKALL, GOOD_COLLIDER, DUMP_CRASH, N_OPS };

// ---- capacity constants, written down from the documentation of addrman.h (1024 new buckets, 256 tried
// buckets, 64 entries each, at most 8 new-table references per address); deliberately not taken from
// addrman_impl.h so that a changed constant there is noticed.
constexpr int NEW_BUCKETS = 1024;
constexpr int TRIED_BUCKETS = 256;
constexpr int BUCKET_SIZE = 64;
constexpr int MAX_NEW_REFS = 8;

constexpr int64_t T0 = 1893456000;          // 2030-01-01, the runner's default epoch
constexpr int64_t T_MAX = 4'200'000'000LL;  // CAddress::nTime is 32 bit on the wire and on disk

// ---- address universe -------------------------------------------------------------------------
// Address number i of a run is (template = active[i % nact], host = i / nact). Templates put many hosts
// into one network group, so that bucket/position collisions (64 slots per source-group x address-group
// in the new table, 8x64 per address-group in the tried table) are frequent with a few dozen addresses.
enum Tmpl { T_V4_A, T_V4_B, T_V4_PORTS, T_V6, T_V6_HENET, T_V6_6TO4, T_ONION, T_I2P, T_CJDNS, T_UNROUTABLE, N_TMPL };

CNetAddr FromBip155(uint8_t id, const std::vector<uint8_t>& bytes)
{
    DataStream s;
    s << id;
    WriteCompactSize(s, bytes.size());
    s << std::span{bytes};
    CNetAddr a;
    s >> CNetAddr::V2(a);
    return a;
}

std::vector<uint8_t> HashBytes(uint64_t tag, uint64_t host, size_t n)
{
    std::vector<uint8_t> v(n);
    Rng r(mix64(tag, host));
    r.fill(v.data(), n);
    return v;
}

CService MakeService(int tmpl, uint32_t host)
{
    uint16_t port = 8333;
    uint8_t H = (host >> 8) & 0xff, h = host & 0xff;
    switch (tmpl) {
    case T_V4_A: return CService{FromBip155(1, {81, 7, H, h}), port};
    case T_V4_B: return CService{FromBip155(1, {81, 8, H, h}), port};
    case T_V4_PORTS: return CService{FromBip155(1, {93, 184, 216, 34}), (uint16_t)(10000 + host)};
    case T_V6: return CService{FromBip155(2, {0x2a, 0x01, 0x04, 0xf8, 0, 0, 0, 0, 0, 0, 0, 0, 0, 1, H, h}), port};
    case T_V6_HENET: return CService{FromBip155(2, {0x20, 0x01, 0x04, 0x70, 0x10, 0, 0, 0, 0, 0, 0, 0, 0, 2, H, h}), port};
    case T_V6_6TO4: return CService{FromBip155(2, {0x20, 0x02, 81, 7, H, h, 0, 0, 0, 0, 0, 0, 0, 0, 0, 1}), port}; // linked IPv4 81.7.H.h: IPv4 group/class, IPv6 network
    case T_ONION: { auto b = HashBytes(0x70, host, 32); b[0] = 0xa0 | (b[0] & 0x0f); return CService{FromBip155(4, b), port}; }
    case T_I2P: { auto b = HashBytes(0x70, host, 32); b[0] = 0xa0 | (b[0] & 0x0f); return CService{FromBip155(5, b), 0}; } // same bytes as the onion host: same GetKey(), different network
    case T_CJDNS: { auto b = HashBytes(0x71, host, 16); b[0] = 0xfc; b[1] = 0x10 | (b[1] & 0x0f); return CService{FromBip155(6, b), port}; }
    default:
        switch (host % 4) {
        case 0: return CService{FromBip155(1, {10, 0, H, h}), port};        // RFC1918
        case 1: return CService{FromBip155(1, {127, 0, 0, h}), port};       // loopback
        case 2: return CService{FromBip155(1, {192, 168, H, h}), port};     // RFC1918
        default: return CService{FromBip155(2, {0xfd, 0x12, 0, 0, 0, 0, 0, 0, 0, 0, 0, 0, 0, 0, H, h}), port}; // RFC4193
        }
    }
}

/** network by construction (not by asking the address) */
Network TmplNetwork(int tmpl)
{
    switch (tmpl) {
    case T_V4_A: case T_V4_B: case T_V4_PORTS: return NET_IPV4;
    case T_V6: case T_V6_HENET: case T_V6_6TO4: return NET_IPV6;
    case T_ONION: return NET_ONION;
    case T_I2P: return NET_I2P;
    case T_CJDNS: return NET_CJDNS;
    default: return NET_UNROUTABLE;
    }
}
/** "network class" as used by the GetAddr network filter: tunnelled IPv4 counts as IPv4 */
Network TmplNetClass(int tmpl) { return tmpl == T_V6_6TO4 ? NET_IPV4 : TmplNetwork(tmpl); }

CNetAddr MakeSource(uint64_t j)
{
    if (j % 17 == 16) return CNetAddr{}; // "no source" (invalid all-zero address), as the unit tests use
    if (j % 5 == 4) { auto b = HashBytes(0x72, j, 32); b[0] = (uint8_t)(((j / 5) % 16) << 4) | (b[0] & 0x0f); return FromBip155(4, b); }
    if (j % 11 == 10) return FromBip155(2, {0x2a, 0x02, (uint8_t)(j >> 8), (uint8_t)j, 0, 0, 0, 0, 0, 0, 0, 0, 0, 0, 0, 9});
    return FromBip155(1, {(uint8_t)(11 + j % 100), (uint8_t)((j / 100) % 256), 1, 1}); // one /16 per j (for j < 25600)
}

const uint64_t SERVICE_TABLE[] = {NODE_NONE, NODE_NETWORK, NODE_NETWORK | NODE_WITNESS, NODE_NETWORK_LIMITED | NODE_WITNESS,
                                  NODE_NETWORK | NODE_WITNESS | NODE_P2P_V2, NODE_NETWORK | NODE_BLOOM | NODE_COMPACT_FILTERS};
ServiceFlags MakeServices(int64_t sel)
{
    uint64_t s = (uint64_t)sel;
    if (s % 8 < 6) return ServiceFlags(SERVICE_TABLE[s % 8]);
    return ServiceFlags(mix64(0x5e, s)); // arbitrary 64-bit masks, incl. the highest bits
}

// Two hand-assembled asmaps (bit-packed, LSB first): a single RETURN instruction "[0]" followed by the ASN in
// the 15-bit class "[0] + 15 bits big endian of (asn-1)": 17 bits, 7 zero padding bits.
const std::array<std::byte, 3> ASMAP_ALL_AS1{std::byte{0}, std::byte{0}, std::byte{0}};
const std::array<std::byte, 3> ASMAP_ALL_AS2{std::byte{0}, std::byte{0}, std::byte{1}};
constexpr int N_NGM = 3;

// ---- table-level snapshot -----------------------------------------------------------------------
struct Ent {
    bool tried{false};
    int reported_mult{0};
    std::vector<std::pair<int, int>> slots; // (bucket, position), in table order
    int64_t ntime{0};
    uint64_t services{0};
    CNetAddr source;
    int64_t last_success{0};
    int attempts{0};
    int64_t last_try{0}; // memory only
    bool SameStored(const Ent& o) const
    {
        return tried == o.tried && ntime == o.ntime && services == o.services && source == o.source && last_success == o.last_success && attempts == o.attempts;
    }
    bool operator==(const Ent& o) const { return SameStored(o) && reported_mult == o.reported_mult && slots == o.slots && last_try == o.last_try; }
};
using Snap = std::map<CService, Ent>;

Plan Gen(uint64_t seed, Tier tier)
{
    Rng rng(seed);
    Plan p;
    // swarm: which address templates exist in this run (at least one routable)
    int64_t gmask = 0;
    int style = (int)rng.below(6);
    if (style == 0) gmask = 1 << rng.below(N_TMPL - 1);                       // a single network group
    else if (style == 1) gmask = (1 << T_V4_A) | (1 << T_V6_6TO4);            // one IPv4 group reached over two networks
    else if (style == 2) gmask = (1 << N_TMPL) - 1;                           // everything
    else { gmask = rng.below(1 << N_TMPL); if ((gmask & ((1 << T_UNROUTABLE) - 1)) == 0) gmask |= 1 << rng.below(N_TMPL - 1); }
    // "dense" runs: a few hundred hosts of one or two network groups, large Add/Good batches: the tried table of one group
    // (8 buckets x 64 positions) fills up far enough for tried-slot collisions and test-before-evict resolution
    bool dense = rng.chance(1, 4);
    if (dense) gmask = rng.chance(1, 3) ? (1 << T_V4_A) | (1 << T_V6_6TO4) : 1 << rng.below(N_TMPL - 1);
    p.knobs["gmask"] = gmask;
    int64_t pool = dense ? rng.range(150, 400) : rng.chance(1, 3) ? rng.range(2, 12) : rng.chance(1, 2) ? rng.range(12, 80) : rng.range(80, 400);
    p.knobs["pool"] = pool;
    int64_t nsrc = rng.chance(1, 3) ? rng.range(1, 3) : rng.range(3, 64);
    p.knobs["sources"] = nsrc;
    p.knobs["asmap0"] = rng.chance(2, 3) ? 0 : (int64_t)rng.range(1, N_NGM - 1);
    p.knobs["load_det"] = (int64_t)rng.below(2);  // LoadAddrman builds a deterministic (-test=addrman) or random-key manager
    bool files = rng.chance(1, 2);
    p.knobs["files"] = files;

    std::vector<uint32_t> w(N_OPS);
    w[ADD] = 20 + rng.below(40);
    w[HAMMER] = rng.chance(1, 4) ? 1 + rng.below(3) : 0;
    w[GOOD] = 5 + rng.below(30);
    w[ATTEMPT] = rng.below(15);
    w[CONNECTED] = rng.below(6);
    w[SETSERVICES] = rng.below(5);
    w[RESOLVE] = 2 + rng.below(10);
    w[FEELER] = rng.below(10);
    w[SELECT] = rng.below(12);
    w[GETADDR] = rng.below(6);
    w[ADVANCE] = 5 + rng.below(20);
    w[BACKWARD] = rng.chance(1, 4) ? 1 + rng.below(2) : 0;
    w[ROUNDTRIP] = 1 + rng.below(5);
    w[DUMP] = files ? 1 + rng.below(4) : 0;
    w[LOAD] = files ? 1 + rng.below(6) : 0;
    w[DUMP_CRASH] = files ? 1 + rng.below(4) : 0;
    w[CHECKALL] = 1 + rng.below(3);
    w[GOOD_COLLIDER] = rng.chance(2, 3) ? 1 + rng.below(8) : 0;
    bool big_batches = dense || rng.chance(1, 2);
    if (dense) { w[ADD] += 20; w[GOOD] += 25; w[GOOD_COLLIDER] = 4 + rng.below(8); w[RESOLVE] += 5; w[FEELER] += 5; w[HAMMER] = 0; }
    int time_style = (int)rng.below(3); // 0: mostly fresh timestamps, 1: mixed, 2: many stale/future ones

    auto addr_id = [&]() -> int64_t { return rng.chance(1, 8) ? (int64_t)rng.below(8) : (int64_t)rng.below(pool); };
    auto time_off = [&]() -> int64_t { // offset of a reported connection time relative to the simulated clock
        return rng.chance(3, 4) ? 0 : rng.chance(1, 6) ? (int64_t)rng.range(1, 600) : -(int64_t)rng.skewed(1, 2 * 86400);
    };
    int nops = (int)rng.range(10, tier == Tier::THOROUGH ? 160 : 90);
    for (int i = 0; i < nops; ++i) {
        Op op;
        op.kind = (int)rng.pick(w);
        switch (op.kind) {
        case ADD: {
            int64_t cnt = dense && rng.chance(1, 2) ? rng.range(30, 120) : rng.chance(1, 2) ? 1 : big_batches ? rng.skewed(2, 120) : rng.range(2, 6);
            int64_t toff;
            uint64_t ts = rng.below(10);
            if (time_style == 0) ts = ts < 8 ? 0 : ts;
            if (time_style == 2) ts = ts < 4 ? 9 - (ts & 1) : ts;
            if (ts < 4) toff = -(int64_t)rng.skewed(0, 3 * 3600);
            else if (ts < 7) toff = -(int64_t)rng.skewed(3600, 29 * 86400);
            else if (ts == 7) toff = 0;
            else if (ts == 8) toff = -(int64_t)rng.range(29 * 86400, 45 * 86400); // around the 30 day horizon
            else toff = rng.range(1, 3600); // in the future (more than 10 minutes ahead counts as terrible)
            int64_t tmode = (ts == 9 && rng.chance(1, 2)) ? 1 : 0; // 1: the TIME_INIT default of CAddress (100000000) instead of a clock-relative time
            int64_t pen = rng.chance(1, 3) ? 0 : rng.chance(1, 2) ? 7200 : (int64_t)rng.skewed(1, 100000000);
            // addr, count, source, nTime offset, penalty, services, self-announcement, stride, time mode
            op.a = {addr_id(), cnt, (int64_t)rng.below(nsrc), toff, pen, (int64_t)rng.below(64), (int64_t)rng.chance(1, 10), (int64_t)(rng.chance(1, 2) ? 1 : rng.range(1, 13)), tmode};
            break;
        }
        case HAMMER:
            // addr, number of source groups, first source, penalty (>0 keeps "new information" true), nTime offset
            op.a = {addr_id(), (int64_t)(rng.chance(1, 2) ? rng.range(150, 450) : rng.chance(1, 2) ? rng.range(450, 900) : rng.skewed(8, 450)), (int64_t)rng.below(1000), (int64_t)rng.range(1, 7200), -(int64_t)rng.skewed(0, 3600)};
            break;
        case GOOD: // addr, time offset, count, stride (batches fill the tried table quickly enough for slot collisions)
            op.a = {addr_id(), time_off(), (int64_t)(dense && rng.chance(1, 2) ? rng.range(20, 80) : rng.chance(2, 3) ? 1 : big_batches ? rng.skewed(2, 80) : rng.range(2, 5)), (int64_t)(rng.chance(1, 2) ? 1 : rng.range(1, 13))};
            break;
        case ATTEMPT: op.a = {addr_id(), (int64_t)rng.chance(3, 4), time_off()}; break;
        case CONNECTED: op.a = {addr_id(), time_off()}; break;
        case SETSERVICES: op.a = {addr_id(), (int64_t)rng.below(64)}; break;
        case RESOLVE: break;
        case FEELER: op.a = {(int64_t)rng.below(3), (int64_t)rng.chance(3, 4)}; break; // outcome none/failed/succeeded, count failure
        case SELECT: op.a = {(int64_t)rng.chance(1, 3), (int64_t)(rng.chance(1, 2) ? 0 : rng.below(128)), (int64_t)rng.below(4)}; break;
        case GETADDR: op.a = {(int64_t)(rng.chance(1, 2) ? 0 : rng.skewed(1, 300)), (int64_t)(rng.chance(1, 2) ? 0 : rng.range(1, 100)), (int64_t)(rng.chance(1, 2) ? 0 : rng.range(1, 7)), (int64_t)rng.below(2)}; break;
        case ADVANCE: {
            uint64_t k = rng.below(8);
            int64_t d = k < 2 ? rng.range(1, 120) : k < 4 ? rng.range(120, 3 * 3600) : k < 6 ? rng.range(3 * 3600, 3 * 86400) : k < 7 ? rng.range(3 * 86400, 40 * 86400) : rng.range(40 * 86400, 400 * 86400);
            op.a = {d};
            break;
        }
        case BACKWARD: op.a = {(int64_t)rng.skewed(1, 86400)}; break;
        case ROUNDTRIP: op.a = {(int64_t)rng.chance(1, 2), (int64_t)rng.below(2), (int64_t)(rng.chance(3, 4) ? 0 : rng.range(1, N_NGM - 1))}; break; // adopt, loader deterministic, asmap change
        case DUMP: break;
        case LOAD: op.a = {(int64_t)rng.pick({4, 3, 3, 2, 1}), (int64_t)rng.below(1 << 20), (int64_t)rng.range(1, 255), (int64_t)rng.chance(1, 3), (int64_t)rng.pick({6, 2, 1})}; break; // fault kind, offset, xor mask, adopt, offset anywhere / in the header / the compat byte
        case CHECKALL: break;
        case GOOD_COLLIDER: op.a = {(int64_t)rng.below(64), time_off()}; break;
        case DUMP_CRASH: // mode (one seeded crash / every kill point / every power-loss (k,j) pair), seed, power loss, restart from the image
            op.a = {(int64_t)(tier == Tier::THOROUGH ? rng.pick({2, 1, 1}) : rng.pick({6, 1, 1})), (int64_t)rng.below(1 << 30), (int64_t)rng.below(2), (int64_t)rng.chance(1, 4)};
            break;
        }
        p.ops.push_back(op);
    }
    return p;
}

const char* FaultName(int k)
{
    switch (k) { case 0: return "none"; case 1: return "truncate"; case 2: return "byteflip"; case 3: return "stray-partial-tempfile"; default: return "append-garbage"; }
}

std::string Describe(const Op& op)
{
    char b[256];
    switch (op.kind) {
    case ADD: snprintf(b, sizeof b, "Add(addr=%ld x%ld stride %ld, source=%ld%s, nTime=%s%+lds, penalty=%lds, services#%ld)", (long)op.arg(0), (long)op.arg(1), (long)op.arg(7), (long)op.arg(2), op.arg(6) ? " [self-announcement]" : "", op.arg(8) & 1 ? "TIME_INIT, not now" : "now", (long)op.arg(3), (long)op.arg(4), (long)op.arg(5)); break;
    case HAMMER: snprintf(b, sizeof b, "Add(addr=%ld) from %ld source groups starting at %ld (penalty=%lds, nTime=now%+lds)", (long)op.arg(0), (long)op.arg(1), (long)op.arg(2), (long)op.arg(3), (long)op.arg(4)); break;
    case GOOD: snprintf(b, sizeof b, "Good(addr=%ld x%ld stride %ld, time=now%+lds)", (long)op.arg(0), (long)op.arg(2, 1), (long)op.arg(3, 1), (long)op.arg(1)); break;
    case ATTEMPT: snprintf(b, sizeof b, "Attempt(addr=%ld, count_failure=%ld, time=now%+lds)", (long)op.arg(0), (long)op.arg(1), (long)op.arg(2)); break;
    case CONNECTED: snprintf(b, sizeof b, "Connected(addr=%ld, time=now%+lds)", (long)op.arg(0), (long)op.arg(1)); break;
    case SETSERVICES: snprintf(b, sizeof b, "SetServices(addr=%ld, services#%ld)", (long)op.arg(0), (long)op.arg(1)); break;
    case RESOLVE: snprintf(b, sizeof b, "ResolveCollisions()"); break;
    case FEELER: snprintf(b, sizeof b, "SelectTriedCollision() then feeler %s", op.arg(0) % 3 == 0 ? "not made" : op.arg(0) % 3 == 1 ? (op.arg(1) ? "failed (counted)" : "failed") : "succeeded"); break;
    case SELECT: snprintf(b, sizeof b, "Select(new_only=%ld, netmask=%lx) then %s", (long)(op.arg(0) & 1), (long)op.arg(1), op.arg(2) % 4 == 0 ? "nothing" : op.arg(2) % 4 == 1 ? "Attempt(counted)" : op.arg(2) % 4 == 2 ? "Attempt(not counted)" : "Good"); break;
    case GETADDR: snprintf(b, sizeof b, "GetAddr(max=%ld, pct=%ld, net#%ld, filtered=%ld)", (long)op.arg(0), (long)op.arg(1), (long)op.arg(2), (long)(op.arg(3) & 1)); break;
    case ADVANCE: snprintf(b, sizeof b, "clock += %lds", (long)op.arg(0)); break;
    case BACKWARD: snprintf(b, sizeof b, "FAULT clock -= %lds", (long)op.arg(0)); break;
    case ROUNDTRIP: snprintf(b, sizeof b, "serialise -> new AddrMan(deterministic=%ld)%s%s", (long)(op.arg(1) & 1), op.arg(2) % N_NGM ? " [asmap changed]" : "", op.arg(0) & 1 ? ", continue with the reloaded instance" : ""); break;
    case DUMP: snprintf(b, sizeof b, "DumpPeerAddresses -> peers.dat"); break;
    case LOAD: snprintf(b, sizeof b, "LoadAddrman(peers.dat) fault=%s off=%ld xor=%02lx%s", FaultName((int)(op.arg(0) % 5)), (long)op.arg(1), (long)(op.arg(2) & 0xff), op.arg(3) & 1 ? ", continue with the loaded instance (restart)" : ""); break;
    case CHECKALL: snprintf(b, sizeof b, "Size(all networks x new/tried) and GetAddr(all) cross-check"); break;
    case DUMP_CRASH: snprintf(b, sizeof b, "DumpPeerAddresses, then LoadAddrman on %s%s", op.arg(0) % 3 == 0 ? (op.arg(2) & 1 ? "one seeded power-loss image of that dump" : "one seeded process-kill image of that dump") : op.arg(0) % 3 == 1 ? "every process-kill image of that dump" : "every power-loss image (crash point x durable prefix) of that dump", op.arg(3) & 1 ? ", restart from the last image" : ""); break;
    case GOOD_COLLIDER: snprintf(b, sizeof b, "Good(new-table address #%ld of those whose tried slot is occupied, time=now%+lds)", (long)op.arg(0), (long)op.arg(1)); break;
    default: snprintf(b, sizeof b, "?");
    }
    return b;
}

struct Sim {
    Ctx& ctx;
    std::vector<NetGroupManager> ngm;
    int cur_ngm{0};
    std::unique_ptr<AddrMan> am;
    int64_t now{T0};
    int64_t max_now{T0};

    // address universe of this run
    std::vector<int> active;
    int pool, nsrc;
    std::vector<CService> svc;       // by address number
    std::vector<int> tmpl_of;        // by address number
    std::map<CService, int> id_of;

    // model: what may legitimately be in the tables at all
    std::set<int> ever_added;  // routable-by-construction addresses handed to Add
    std::set<int> ever_good;   // addresses reported with Good
    Snap cur;

    // peers.dat
    bool files_ready{false};
    std::string dir, live, scratch, img, path, spath;
    bool have_file{false};
    std::vector<unsigned char> file_bytes;
    Snap file_snap;
    int file_ngm{0};

    bool did_add{false}, did_move{false};

    explicit Sim(Ctx& c) : ctx(c)
    {
        ngm.push_back(NetGroupManager::NoAsmap());
        ngm.push_back(NetGroupManager::WithEmbeddedAsmap(ASMAP_ALL_AS1));
        ngm.push_back(NetGroupManager::WithEmbeddedAsmap(ASMAP_ALL_AS2));
        int64_t gmask = c.knob("gmask", 1);
        for (int t = 0; t < N_TMPL; ++t)
            if ((gmask >> t) & 1) active.push_back(t);
        if (active.empty()) active.push_back(T_V4_A);
        pool = (int)std::clamp<int64_t>(c.knob("pool", 16), 1, 2000);
        nsrc = (int)std::clamp<int64_t>(c.knob("sources", 4), 1, 100000);
        cur_ngm = (int)std::clamp<int64_t>(c.knob("asmap0", 0), 0, N_NGM - 1);
        for (int i = 0; i < pool; ++i) {
            int t = active[i % active.size()];
            svc.push_back(MakeService(t, (uint32_t)(i / active.size())));
            tmpl_of.push_back(t);
            id_of.emplace(svc.back(), i);
        }
        am = std::make_unique<AddrMan>(ngm[cur_ngm], /*deterministic=*/true, /*consistency_check_ratio=*/1);
        SetClock();
    }

    void SetClock()
    {
        now = std::clamp<int64_t>(now, T0 - 400 * 86400, T_MAX);
        max_now = std::max(max_now, now);
        SetMockTime(std::chrono::seconds{now});
    }
    NodeSeconds At(int64_t off) const { return NodeSeconds{std::chrono::seconds{std::clamp<int64_t>(now + off, 1'000'000'000, T_MAX)}}; }
    std::string Name(const CService& s) const
    {
        auto it = id_of.find(s);
        return (it == id_of.end() ? std::string("?") : "#" + std::to_string(it->second)) + "=" + s.ToStringAddrPort();
    }

    // ---- snapshot + the per-address slot bounds --------------------------------------------------
    Snap TakeSnapshot(const AddrMan& a, const char* where)
    {
        Snap s;
        std::set<std::pair<int, int>> seen;
        for (int tried = 0; tried < 2; ++tried) {
            seen.clear();
            auto entries = a.GetEntries(tried);
            for (auto& [info, pos] : entries) {
                if (pos.tried != (bool)tried) ctx.failf("entry-in-wrong-table", "%s: GetEntries(tried=%d) returned an entry marked tried=%d", where, tried, pos.tried);
                if (pos.bucket < 0 || pos.bucket >= (tried ? TRIED_BUCKETS : NEW_BUCKETS) || pos.position < 0 || pos.position >= BUCKET_SIZE)
                    ctx.failf("slot-out-of-bucket-capacity", "%s: %s table entry at bucket %d position %d", where, tried ? "tried" : "new", pos.bucket, pos.position);
                if (!seen.insert({pos.bucket, pos.position}).second) ctx.failf("slot-listed-twice", "%s: %s[%d][%d]", where, tried ? "tried" : "new", pos.bucket, pos.position);
                const CService& key = info;
                auto [it, fresh] = s.try_emplace(key);
                Ent& e = it->second;
                if (!fresh && (e.tried || tried)) ctx.failf(tried && e.tried ? "address-in-two-tried-slots" : "address-in-new-and-tried", "%s: %s", where, Name(key).c_str());
                if (fresh) {
                    e.tried = tried;
                    e.reported_mult = pos.multiplicity;
                    e.ntime = TicksSinceEpoch<std::chrono::seconds>(info.nTime);
                    e.services = info.nServices;
                    e.source = info.source;
                    e.last_success = TicksSinceEpoch<std::chrono::seconds>(info.m_last_success);
                    e.attempts = info.nAttempts;
                    e.last_try = TicksSinceEpoch<std::chrono::seconds>(info.m_last_try);
                } else {
                    Ent f;
                    f.tried = tried; f.reported_mult = pos.multiplicity; f.ntime = TicksSinceEpoch<std::chrono::seconds>(info.nTime); f.services = info.nServices; f.source = info.source;
                    f.last_success = TicksSinceEpoch<std::chrono::seconds>(info.m_last_success); f.attempts = info.nAttempts; f.last_try = TicksSinceEpoch<std::chrono::seconds>(info.m_last_try);
                    f.slots = e.slots;
                    if (!(f == e)) ctx.failf("occurrences-disagree", "%s: two new-table occurrences of %s carry different records", where, Name(key).c_str());
                }
                e.slots.push_back({pos.bucket, pos.position});
            }
            if (entries.size() > (size_t)(tried ? TRIED_BUCKETS : NEW_BUCKETS) * BUCKET_SIZE) ctx.failf("table-over-capacity", "%s: %zu entries", where, entries.size());
        }
        for (auto& [k, e] : s) {
            if (!e.tried && (int)e.slots.size() > MAX_NEW_REFS) ctx.failf("more-than-8-new-slots", "%s: %s occupies %zu new-table slots", where, Name(k).c_str(), e.slots.size());
            if (e.tried && e.slots.size() != 1) ctx.failf("address-in-two-tried-slots", "%s: %s", where, Name(k).c_str());
            if ((int)e.slots.size() != e.reported_mult) ctx.failf("multiplicity-mismatch", "%s: %s occupies %zu slots, reported multiplicity %d", where, Name(k).c_str(), e.slots.size(), e.reported_mult);
        }
        return s;
    }

    /** totals: Size() against the tables, and the capacity bound */
    void CheckTotals(const AddrMan& a, const Snap& s, const char* where, int only = -1)
    {
        size_t n_new = 0, n_tried = 0;
        for (auto& [k, e] : s) (e.tried ? n_tried : n_new)++;
        // (each Size() call costs two full consistency checks: between reloads only one of the three is asked per operation)
        size_t sz_new = only < 0 || only == 0 ? a.Size(std::nullopt, true) : n_new, sz_tried = only < 0 || only == 1 ? a.Size(std::nullopt, false) : n_tried, sz = only < 0 || only == 2 ? a.Size() : n_new + n_tried;
        if (sz_new != n_new || sz_tried != n_tried || sz != n_new + n_tried)
            ctx.failf("size-disagrees-with-tables", "%s: Size new/tried/all=%zu/%zu/%zu, tables hold %zu/%zu distinct addresses", where, sz_new, sz_tried, sz, n_new, n_tried);
        if (sz_new > (size_t)NEW_BUCKETS * BUCKET_SIZE || sz_tried > (size_t)TRIED_BUCKETS * BUCKET_SIZE) ctx.failf("table-over-capacity", "%s: new=%zu tried=%zu", where, sz_new, sz_tried);
    }

    /** nothing is in a table that was never put there */
    void CheckMembership(const Snap& s, const char* where)
    {
        for (auto& [k, e] : s) {
            auto it = id_of.find(k);
            if (it == id_of.end() || !ever_added.count(it->second)) ctx.failf("unknown-address-in-table", "%s: %s was never (validly) added", where, Name(k).c_str());
            if (e.tried && !ever_good.count(it->second)) ctx.failf("tried-without-good", "%s: %s is in the tried table but was never reported good", where, Name(k).c_str());
        }
    }

    void CheckPerNetwork(const AddrMan& a, const Snap& s, const char* where)
    {
        std::map<Network, std::pair<size_t, size_t>> cnt;
        for (auto& [k, e] : s) {
            Network n = TmplNetwork(tmpl_of[id_of.at(k)]);
            (e.tried ? cnt[n].second : cnt[n].first)++;
        }
        for (Network n : {NET_UNROUTABLE, NET_IPV4, NET_IPV6, NET_ONION, NET_I2P, NET_CJDNS, NET_INTERNAL}) {
            size_t gn = a.Size(n, true), gt = a.Size(n, false), ga = a.Size(n);
            if (gn != cnt[n].first || gt != cnt[n].second || ga != gn + gt)
                ctx.failf("network-size-disagrees-with-tables", "%s: network %d Size new/tried/all=%zu/%zu/%zu, tables hold %zu/%zu", where, (int)n, gn, gt, ga, cnt[n].first, cnt[n].second);
        }
        // GetAddr(all, unfiltered) is exactly the stored set with the stored records
        auto all = a.GetAddr(0, 0, std::nullopt, /*filtered=*/false);
        CheckGetAddr(all, s, where);
        if (all.size() != s.size()) ctx.failf("getaddr-all-incomplete", "%s: GetAddr(0,0,all,unfiltered) returned %zu of %zu addresses", where, all.size(), s.size());
    }

    void CheckGetAddr(const std::vector<CAddress>& v, const Snap& s, const char* where)
    {
        std::set<CService> seen;
        for (auto& ca : v) {
            auto it = s.find(ca);
            if (it == s.end()) ctx.failf("getaddr-unknown-address", "%s: %s is in no table", where, Name(ca).c_str());
            if (!seen.insert(ca).second) ctx.failf("getaddr-duplicate", "%s: %s", where, Name(ca).c_str());
            if (TicksSinceEpoch<std::chrono::seconds>(ca.nTime) != it->second.ntime || (uint64_t)ca.nServices != it->second.services)
                ctx.failf("getaddr-record-differs", "%s: %s", where, Name(ca).c_str());
        }
    }

    /** reload oracle. exact: same asmap (everything incl. placement must be restored); otherwise re-bucketed.
     *  Returns {class, detail}; class empty = the reloaded tables are what the serialised ones promise. */
    struct Diff { std::string cls, detail; bool ok() const { return cls.empty(); } };
    static Diff MkDiff(const char* cls, const char* fmt, ...) __attribute__((format(printf, 2, 3)))
    {
        char buf[1024];
        va_list ap;
        va_start(ap, fmt);
        vsnprintf(buf, sizeof buf, fmt, ap);
        va_end(ap);
        return Diff{cls, buf};
    }
    Diff DiffReload(const Snap& before, const Snap& after, AddrMan& loaded, bool exact, const char* what)
    {
        for (auto& [k, e] : after) {
            auto it = before.find(k);
            if (it == before.end()) return MkDiff("reload-invented-address", "%s: %s", what, Name(k).c_str());
            if (!e.SameStored(it->second))
                return MkDiff("reload-record-differs", "%s: %s tried %d->%d nTime %ld->%ld services %lx->%lx last_success %ld->%ld attempts %d->%d source %s->%s", what, Name(k).c_str(), it->second.tried, e.tried,
                              (long)it->second.ntime, (long)e.ntime, (unsigned long)it->second.services, (unsigned long)e.services, (long)it->second.last_success, (long)e.last_success, it->second.attempts, e.attempts,
                              it->second.source.ToStringAddr().c_str(), e.source.ToStringAddr().c_str());
        }
        if (exact) {
            for (auto& [k, e] : before)
                if (!after.count(k)) return MkDiff("reload-lost-address", "%s: %s (%s) is missing after the reload", what, Name(k).c_str(), e.tried ? "tried" : "new");
            for (auto& [k, e] : after) {
                const Ent& b = before.at(k);
                if (e.slots != b.slots) return MkDiff("reload-placement-differs", "%s: %s had %zu slot(s) (first %d/%d), reloaded %zu (first %d/%d)", what, Name(k).c_str(), b.slots.size(), b.slots[0].first, b.slots[0].second, e.slots.size(), e.slots[0].first, e.slots[0].second);
            }
        } else {
            // documented re-bucketing: tried entries by their own group, new entries get (at most) one reference, at the
            // bucket/position derived from their own source; colliding entries may be dropped, nothing else.
            for (auto& [k, e] : after) {
                if (e.tried) continue;
                auto pos = loaded.FindAddressEntry(CAddress{k, NODE_NONE});
                if (!pos || pos->tried) return MkDiff("reload-rebucket-lookup", "%s: %s not found as a new entry", what, Name(k).c_str());
                if (e.slots.size() != 1 || e.slots[0] != std::make_pair(pos->bucket, pos->position))
                    return MkDiff("reload-not-rebucketed", "%s: asmap changed but %s sits in %zu slot(s), first %d/%d, own-source slot is %d/%d", what, Name(k).c_str(), e.slots.size(), e.slots[0].first, e.slots[0].second, pos->bucket, pos->position);
            }
        }
        return {};
    }
    void CompareReload(const Snap& before, const Snap& after, AddrMan& loaded, bool exact, const char* what)
    {
        Diff d = DiffReload(before, after, loaded, exact, what);
        if (!d.ok()) ctx.fail(d.cls, d.detail);
    }

    uint64_t Fingerprint() const
    {
        uint64_t h = 11;
        for (auto& [k, e] : cur) h = mix64(h, (uint64_t)id_of.at(k) * 64 + (e.tried ? 32 : 0) + e.slots.size() * 2 + (e.attempts > 0));
        return mix64(h, cur_ngm);
    }

    // ---- peers.dat plumbing ----------------------------------------------------------------------
    // RunDir()/live    : the node's data directory; only the real DumpPeerAddresses writes here, recorded by simfs
    // RunDir()/scratch : data directory for loads of deliberately damaged copies (not recorded)
    // RunDir()/img     : crash images materialised from the simfs log (not recorded)
    void SetDataDir(const std::string& d)
    {
        gArgs.ForceSetArg("-datadir", d);
        gArgs.ClearPathCache();
    }
    void SetupFiles()
    {
        if (files_ready) return;
        dir = RunDir();
        live = dir + "/live";
        scratch = dir + "/scratch";
        img = dir + "/img";
        mkdir(live.c_str(), 0700);
        mkdir(scratch.c_str(), 0700);
        mkdir((scratch + "/regtest").c_str(), 0700);
        simfs::Arm(live);
        mkdir((live + "/regtest").c_str(), 0700); // recorded: part of every crash image
        path = live + "/regtest/peers.dat";
        spath = scratch + "/regtest/peers.dat";
        gArgs.ForceSetArg("-checkaddrman", "1");
        gArgs.ForceSetArg("-test", ctx.knob("load_det", 1) ? "addrman" : "none");
        SetDataDir(live);
        files_ready = true;
    }
    ~Sim()
    {
        if (files_ready) simfs::Disarm();
    }
    static bool ReadFile(const std::string& p, std::vector<unsigned char>& out)
    {
        std::ifstream f(p, std::ios::binary);
        if (!f) return false;
        out.assign(std::istreambuf_iterator<char>(f), std::istreambuf_iterator<char>());
        return true;
    }
    static void WriteFile(const std::string& p, const unsigned char* d, size_t n)
    {
        std::ofstream f(p, std::ios::binary | std::ios::trunc);
        f.write((const char*)d, (std::streamsize)n);
    }
    static bool Exists(const std::string& p) { struct stat st; return stat(p.c_str(), &st) == 0; }

    void Adopt(std::unique_ptr<AddrMan> loaded, Snap&& s, int ngm_idx)
    {
        am = std::move(loaded);
        cur = std::move(s);
        cur_ngm = ngm_idx;
    }

    // ---- operations ------------------------------------------------------------------------------
    void DoAddOne(int id, int64_t toff, bool time_init, ServiceFlags sv, std::vector<CAddress>& batch)
    {
        CAddress ca{svc[id], sv, time_init ? NodeSeconds{100000000s} : At(toff)};
        batch.push_back(ca);
        if (tmpl_of[id] != T_UNROUTABLE) ever_added.insert(id);
    }

    void Run()
    {
        cur = TakeSnapshot(*am, "start");
        size_t opi = 0;
        for (const Op& op : ctx.plan.ops) {
            const std::string what = Describe(op);
            const char* w = what.c_str();
            bool is_const = false;   // the operation must not change any observable record
            bool snapshot_done = false;
            Snap prev;
            switch (op.kind) {
            case ADD: {
                int id0 = (int)op.mod(0, pool);
                int cnt = (int)std::clamp<int64_t>(op.arg(1), 1, 200);
                int stride = (int)std::clamp<int64_t>(op.arg(7, 1), 1, 64);
                CNetAddr src = (op.arg(6) & 1) ? (CNetAddr)svc[id0] : MakeSource(op.mod(2, nsrc));
                std::vector<CAddress> batch;
                for (int k = 0; k < cnt; ++k) DoAddOne((id0 + k * stride) % pool, op.arg(3), op.arg(8) & 1, MakeServices(op.arg(5) + k), batch);
                size_t before = cur.size();
                bool r = am->Add(batch, src, std::chrono::seconds{std::max<int64_t>(0, op.arg(4))});
                if (r) did_add = true;
                bool unroutable_only = true;
                for (int k = 0; k < cnt; ++k) unroutable_only &= tmpl_of[(id0 + k * stride) % pool] == T_UNROUTABLE;
                if (unroutable_only) {
                    if (r) ctx.failf("unroutable-address-added", "%s returned true", w);
                    ctx.probe("unroutable_rejected");
                }
                ctx.evf("add #%d x%d src%ld -> %d (was %zu)", id0, cnt, (long)op.arg(2), r, before);
                break;
            }
            case HAMMER: {
                int id = (int)op.mod(0, pool);
                int n = (int)std::clamp<int64_t>(op.arg(1), 1, 1000);
                int added = 0;
                for (int k = 0; k < n; ++k) {
                    std::vector<CAddress> batch;
                    DoAddOne(id, std::min<int64_t>(0, op.arg(4)), false, NODE_NETWORK, batch);
                    added += am->Add(batch, MakeSource((uint64_t)(op.arg(2) & 0xffff) + k), std::chrono::seconds{std::clamp<int64_t>(op.arg(3), 1, 100000000)});
                }
                if (added) did_add = true;
                ctx.evf("hammer #%d x%d -> %d", id, n, added);
                break;
            }
            case GOOD: {
                int id0 = (int)op.mod(0, pool);
                int cnt = (int)std::clamp<int64_t>(op.arg(2, 1), 1, 200);
                int stride = (int)std::clamp<int64_t>(op.arg(3, 1), 1, 64);
                int moved = 0;
                for (int k = 0; k < cnt; ++k) {
                    int id = (id0 + k * stride) % pool;
                    ever_good.insert(id);
                    moved += am->Good(svc[id], At(op.arg(1)));
                }
                if (moved) { did_move = true; ctx.probe("moved_to_tried", moved); }
                ctx.evf("good #%d x%d -> %d", id0, cnt, moved);
                break;
            }
            case ATTEMPT: {
                int id = (int)op.mod(0, pool);
                am->Attempt(svc[id], op.arg(1) & 1, At(op.arg(2)));
                ctx.evf("attempt #%d", id);
                break;
            }
            case CONNECTED: {
                int id = (int)op.mod(0, pool);
                am->Connected(svc[id], At(op.arg(1)));
                ctx.evf("connected #%d", id);
                break;
            }
            case SETSERVICES: {
                int id = (int)op.mod(0, pool);
                am->SetServices(svc[id], MakeServices(op.arg(1)));
                ctx.evf("setservices #%d", id);
                break;
            }
            case RESOLVE: {
                am->ResolveCollisions();
                ctx.evf("resolve");
                break;
            }
            case FEELER: {
                auto [ca, last_try] = am->SelectTriedCollision();
                int id = -1;
                if (ca.IsValid()) {
                    auto it = cur.find(ca);
                    if (it == cur.end() || !it->second.tried) ctx.failf("collision-candidate-not-in-tried", "%s returned %s", w, Name(ca).c_str());
                    id = id_of.at(ca);
                    ctx.probe("tried_collision_pending");
                    int outcome = (int)op.mod(0, 3);
                    if (outcome == 1) am->Attempt(ca, op.arg(1) & 1, At(0));
                    if (outcome == 2) { ever_good.insert(id); am->Good(ca, At(0)); }
                    is_const = outcome == 0;
                } else {
                    is_const = true;
                }
                ctx.evf("feeler -> #%d", id);
                break;
            }
            case SELECT: {
                bool new_only = op.arg(0) & 1;
                std::unordered_set<Network> nets;
                static const Network NETS[] = {NET_IPV4, NET_IPV6, NET_ONION, NET_I2P, NET_CJDNS, NET_UNROUTABLE, NET_INTERNAL};
                for (int b = 0; b < 7; ++b)
                    if ((op.arg(1) >> b) & 1) nets.insert(NETS[b]);
                auto [ca, last_try] = am->Select(new_only, nets);
                int id = -1;
                if (ca.IsValid()) {
                    auto it = cur.find(ca);
                    if (it == cur.end()) ctx.failf("select-unknown-address", "%s returned %s which is in no table", w, Name(ca).c_str());
                    id = id_of.at(ca);
                    if (new_only && it->second.tried) ctx.failf("select-new-only-returned-tried", "%s returned %s", w, Name(ca).c_str());
                    if (!nets.empty() && !nets.count(TmplNetwork(tmpl_of[id]))) ctx.failf("select-wrong-network", "%s returned %s", w, Name(ca).c_str());
                    if (TicksSinceEpoch<std::chrono::seconds>(last_try) != it->second.last_try) ctx.failf("select-record-differs", "%s: last_try of %s", w, Name(ca).c_str());
                    ctx.probe(it->second.tried ? "select_tried" : "select_new");
                    // the connection attempt that follows a selection
                    int act = (int)op.mod(2, 4);
                    if (act == 1 || act == 2) am->Attempt(ca, act == 1, At(0));
                    if (act == 3) { ever_good.insert(id); if (am->Good(ca, At(0))) { did_move = true; ctx.probe("moved_to_tried"); } }
                    is_const = act == 0;
                } else {
                    is_const = true;
                }
                ctx.evf("select new_only=%d nets=%zu -> #%d", new_only, nets.size(), id);
                break;
            }
            case GETADDR: {
                size_t max_a = (size_t)std::clamp<int64_t>(op.arg(0), 0, 5000), pct = (size_t)std::clamp<int64_t>(op.arg(1), 0, 100);
                std::optional<Network> net;
                static const Network NETS[] = {NET_IPV4, NET_IPV6, NET_ONION, NET_I2P, NET_CJDNS, NET_UNROUTABLE, NET_INTERNAL};
                if (op.mod(2, 8)) net = NETS[op.mod(2, 8) - 1];
                bool filtered = op.arg(3) & 1;
                auto v = am->GetAddr(max_a, pct, net, filtered);
                CheckGetAddr(v, cur, w);
                size_t limit = cur.size();
                if (pct) limit = pct * limit / 100;
                if (max_a) limit = std::min(limit, max_a);
                if (v.size() > limit) ctx.failf("getaddr-over-limit", "%s returned %zu > %zu", w, v.size(), limit);
                if (net)
                    for (auto& ca : v)
                        if (TmplNetClass(tmpl_of[id_of.at(ca)]) != *net) ctx.failf("getaddr-wrong-network", "%s returned %s", w, Name(ca).c_str());
                if (filtered && !net && !max_a && !pct && v.size() < cur.size()) ctx.probe("getaddr_filtered_out_terrible");
                is_const = true;
                ctx.evf("getaddr -> %zu", v.size());
                break;
            }
            case ADVANCE:
                now += std::clamp<int64_t>(op.arg(0), 1, 400 * 86400);
                SetClock();
                is_const = true;
                ctx.evf("t=%ld", (long)(now - T0));
                break;
            case BACKWARD:
                now -= std::clamp<int64_t>(op.arg(0), 1, 86400);
                SetClock();
                ctx.fault("clock_backward");
                is_const = true;
                ctx.evf("t=%ld", (long)(now - T0));
                break;
            case ROUNDTRIP: {
                int target = (cur_ngm + (int)op.mod(2, N_NGM)) % N_NGM;
                bool exact = target == cur_ngm;
                DataStream ds;
                ds << *am;
                size_t nbytes = ds.size();
                auto loaded = std::make_unique<AddrMan>(ngm[target], /*deterministic=*/(bool)(op.arg(1) & 1), /*consistency_check_ratio=*/1);
                try {
                    ds >> *loaded;
                } catch (const std::exception& e) {
                    ctx.failf("reload-rejected-own-serialisation", "%s: %s", w, e.what());
                }
                if (!ds.empty()) ctx.failf("reload-left-unread-bytes", "%s: %zu of %zu bytes", w, ds.size(), nbytes);
                Snap ls = TakeSnapshot(*loaded, w);
                CompareReload(cur, ls, *loaded, exact, w);
                CheckTotals(*loaded, ls, w);
                CheckPerNetwork(*loaded, ls, w);
                if (exact) { ctx.probe("reload_stream_equal"); if (!cur.empty()) ctx.nontrivial = true; }
                else { ctx.fault("asmap_changed"); ctx.probe(ls.size() < cur.size() ? "reload_rebucket_dropped" : "reload_rebucket_kept_all"); }
                for (auto& [k, e] : cur)
                    if (!e.tried && e.slots.size() > 1) { ctx.probe(exact ? "reload_with_multiplicity" : "reload_rebucket_collapsed_multiplicity"); break; }
                bool adopt = op.arg(0) & 1;
                ctx.evf("roundtrip %zuB asmap%d->%d det=%d adopt=%d -> %zu", nbytes, cur_ngm, target, (int)(op.arg(1) & 1), adopt, ls.size());
                if (adopt) { Adopt(std::move(loaded), std::move(ls), target); snapshot_done = true; }
                else is_const = true;
                break;
            }
            case DUMP: {
                if (!ctx.knob("files", 0)) { is_const = true; break; }
                SetupFiles();
                bool ok = DumpPeerAddresses(gArgs, *am);
                if (!ok) ctx.failf("dump-failed", "%s", w);
                if (!ReadFile(path, file_bytes)) ctx.failf("dump-failed", "%s: no peers.dat", w);
                have_file = true;
                file_snap = cur;
                file_ngm = cur_ngm;
                is_const = true;
                ctx.probe("peers_dat_dumped");
                ctx.evf("dump %zuB", file_bytes.size());
                break;
            }
            case DUMP_CRASH: {
                // The real dump runs to completion in the recorded directory; then the directory that a crash at a seeded
                // (or every) point of that dump would have left is rebuilt from the I/O log and loaded by a fresh manager.
                if (!ctx.knob("files", 0)) { is_const = true; break; }
                SetupFiles();
                const size_t log0 = simfs::LogSize();
                if (!DumpPeerAddresses(gArgs, *am)) ctx.failf("dump-failed", "%s", w);
                const size_t log1 = simfs::LogSize();
                if (log1 <= log0 + 2) ctx.failf("engine-bug-simfs", "%s: the dump produced only %zu recorded file operations", w, log1 - log0);
                if (simfs::OpsFromOtherThreads()) ctx.failf("engine-bug-simfs", "%s: file operations from another thread", w);
                const bool had_old = have_file;
                const Snap old_snap = file_snap;
                const int old_ngm = file_ngm;
                if (!ReadFile(path, file_bytes)) ctx.failf("dump-failed", "%s: no peers.dat", w);
                have_file = true;
                file_snap = cur;
                file_ngm = cur_ngm;
                // crash specifications
                std::vector<simfs::CrashSpec> specs;
                int mode = (int)op.mod(0, 3);
                Rng r(op.arg(1));
                if (mode == 0) {
                    simfs::CrashSpec c;
                    std::vector<size_t> bp;
                    for (size_t b : simfs::BoundaryPoints())
                        if (b >= log0 && b <= log1) bp.push_back(b);
                    c.k = (!bp.empty() && r.coin()) ? bp[r.below(bp.size())] : log0 + r.below(log1 - log0 + 1);
                    c.powerloss = op.arg(2) & 1;
                    c.j = log0 + r.below(c.k - log0 + 1);
                    c.torn = r.coin();
                    c.torn_sel = (uint32_t)r.next();
                    specs.push_back(c);
                } else if (mode == 1) {
                    for (size_t k = log0; k <= log1; ++k) { simfs::CrashSpec c; c.k = k; specs.push_back(c); }
                } else {
                    for (size_t k = log0; k <= log1; ++k)
                        for (size_t j = log0; j <= k; ++j) { simfs::CrashSpec c; c.k = k; c.powerloss = true; c.j = j; c.torn = r.coin(); c.torn_sel = (uint32_t)r.next(); specs.push_back(c); }
                }
                // operations recorded before this dump are taken to be durable (they are at least one simulated operation old)
                size_t n_old = 0, n_new = 0;
                std::unique_ptr<AddrMan> last;
                Snap last_snap;
                bool last_is_new = false;
                for (const auto& c : specs) {
                    std::error_code ec;
                    std::filesystem::remove_all(img, ec);
                    simfs::ImageInfo ii;
                    if (!simfs::Materialize(c, img, &ii)) ctx.failf("engine-bug-simfs", "%s: cannot materialise crash image k=%zu", w, c.k - log0);
                    mkdir((img + "/regtest").c_str(), 0700);
                    SetDataDir(img);
                    auto res = LoadAddrman(ngm[cur_ngm], gArgs);
                    SetDataDir(live);
                    ctx.fault(c.powerloss ? "crash_powerloss_during_dump" : "crash_kill_during_dump");
                    if (ii.tore) ctx.fault("torn_write");
                    char cw[160];
                    if (c.powerloss) snprintf(cw, sizeof cw, "power-loss image at file-op %zu of %zu (durable prefix %zu%s)", c.k - log0, log1 - log0, c.j - log0, ii.tore ? ", torn last write" : "");
                    else snprintf(cw, sizeof cw, "process-kill image at file-op %zu of %zu", c.k - log0, log1 - log0);
                    if (!res) ctx.failf(c.powerloss ? "powerloss-image-rejected" : "crash-image-rejected", "%s: %s: LoadAddrman refused the directory a crash during the dump leaves behind", w, cw);
                    Snap ls = TakeSnapshot(**res, w);
                    Diff dn = DiffReload(cur, ls, **res, /*exact=*/true, cw);
                    bool is_new = dn.ok();
                    if (!is_new) {
                        Diff dold = had_old ? DiffReload(old_snap, ls, **res, /*exact=*/old_ngm == cur_ngm, cw) : (ls.empty() ? Diff{} : MkDiff("not-empty", "%zu addresses although there was no older file", ls.size()));
                        if (!dold.ok()) ctx.failf("crash-image-neither-old-nor-new", "%s: vs new: [%s] %s; vs old: [%s] %s", cw, dn.cls.c_str(), dn.detail.c_str(), dold.cls.c_str(), dold.detail.c_str());
                    }
                    (is_new ? n_new : n_old)++;
                    CheckTotals(**res, ls, w);
                    last = std::move(*res);
                    last_snap = std::move(ls);
                    last_is_new = is_new;
                }
                if (n_old) ctx.probe("crash_image_old_state", n_old);
                if (n_new) ctx.probe("crash_image_new_state", n_new);
                if (mode) ctx.probe(mode == 1 ? "crash_points_enumerated_kill" : "crash_points_enumerated_powerloss");
                if (!cur.empty() || !old_snap.empty()) ctx.nontrivial = true;
                ctx.evf("dump-crash mode%d %zu images: old %zu new %zu", mode, specs.size(), n_old, n_new);
                if ((op.arg(3) & 1) && last && (last_is_new || old_ngm == cur_ngm)) {
                    // restart from the last crash image
                    Adopt(std::move(last), std::move(last_snap), cur_ngm);
                    snapshot_done = true;
                    ctx.probe("restart_from_crash_image");
                } else {
                    is_const = true;
                }
                break;
            }
            case LOAD: {
                // loads of deliberately damaged copies of the last complete dump, in a scratch data directory
                if (!ctx.knob("files", 0)) { is_const = true; break; }
                SetupFiles();
                int kind = (int)op.mod(0, 5);
                unlink(spath.c_str());
                unlink((spath + ".bak").c_str());
                SetDataDir(scratch);
                struct Restore { Sim& s; ~Restore() { s.SetDataDir(s.live); } } restore{*this};
                if (!have_file) {
                    // no file: a fresh, empty manager is created and written out
                    auto res = LoadAddrman(ngm[cur_ngm], gArgs);
                    if (!res) ctx.failf("load-failed-without-file", "%s", w);
                    if ((*res)->Size() != 0) ctx.failf("load-invented-address", "%s: %zu addresses without a file", w, (*res)->Size());
                    if (!Exists(spath)) ctx.failf("load-did-not-create-file", "%s", w);
                    ctx.probe("load_created_file");
                    ctx.evf("load nofile");
                    if (op.arg(3) & 1) { Snap e; Adopt(std::move(*res), std::move(e), cur_ngm); snapshot_done = true; }
                    else is_const = true;
                    break;
                }
                size_t fsz = file_bytes.size();
                size_t off = (size_t)op.mod(1, fsz);
                if (op.mod(4, 3) == 1) off = (size_t)op.mod(1, std::min<size_t>(fsz, 48)); // header: magic, format, compat, key, counts
                if (op.mod(4, 3) == 2) off = std::min<size_t>(fsz - 1, 5);                  // the "lowest compatible format" byte
                std::vector<unsigned char> damaged = file_bytes;
                std::string stray = scratch + "/regtest/peers.7e57";
                bool is_damaged = false;
                if (kind == 1) { damaged.resize(off); is_damaged = true; }
                if (kind == 2) { damaged[off] ^= (unsigned char)std::clamp<int64_t>(op.arg(2) & 0xff, 1, 255); is_damaged = true; }
                if (kind == 4) { Rng r(op.arg(1)); size_t n = 1 + r.below(64); for (size_t i = 0; i < n; ++i) damaged.push_back((unsigned char)r.next()); }
                if (kind == 3) {
                    // a stray, partial temporary file of some interrupted dump next to the intact peers.dat
                    DataStream ds;
                    ds << *am;
                    size_t n = op.mod(1, ds.size() + 1);
                    WriteFile(stray, (const unsigned char*)ds.data(), n);
                }
                WriteFile(spath, damaged.data(), damaged.size());
                auto res = LoadAddrman(ngm[file_ngm], gArgs);
                bool ok = (bool)res;
                const char* outcome = "rejected";
                if (is_damaged) {
                    ctx.fault(kind == 1 ? "file_truncate" : "file_byteflip");
                    if (ok) {
                        // the only non-error outcome the code documents: incompatible version byte -> backup + fresh empty manager
                        bool version_path = kind == 2 && off == 5 && Exists(spath + ".bak") && (*res)->Size() == 0;
                        if (!version_path)
                            ctx.failf("damaged-peers-dat-accepted", "%s: %zu-byte file damaged at offset %zu was loaded with %zu addresses", w, fsz, off, (*res)->Size());
                        ctx.probe("file_version_reset");
                        outcome = "version-reset";
                    } else {
                        ctx.probe("file_damage_rejected");
                    }
                } else {
                    if (kind == 3) ctx.fault("stray_partial_tempfile");
                    if (kind == 4) ctx.fault("file_append_garbage");
                    if (!ok) {
                        if (kind != 4) ctx.failf("load-rejected-intact-file", "%s", w);
                        ctx.probe("file_trailing_garbage_rejected");
                    } else {
                        Snap ls = TakeSnapshot(**res, w);
                        CompareReload(file_snap, ls, **res, /*exact=*/true, w);
                        CheckTotals(**res, ls, w);
                        CheckPerNetwork(**res, ls, w);
                        ctx.probe(kind == 3 ? "stray_tempfile_ignored" : kind == 4 ? "file_trailing_garbage_ignored" : "reload_file_equal");
                        if (!file_snap.empty()) ctx.nontrivial = true;
                        outcome = "equal";
                        if (op.arg(3) & 1) {
                            Adopt(std::move(*res), std::move(ls), file_ngm);
                            snapshot_done = true;
                            ctx.probe("restart_from_peers_dat");
                        }
                    }
                }
                unlink(stray.c_str());
                if (!snapshot_done) is_const = true;
                ctx.evf("load %s -> %s", FaultName(kind), outcome);
                break;
            }
            case GOOD_COLLIDER: {
                // workload steering only: pick a new-table address whose tried slot (computed with the deterministic
                // bucketing key 1; a wrong guess merely makes this an ordinary Good) is held by another address.
                std::set<std::pair<int, int>> occupied;
                for (auto& [k, e] : cur)
                    if (e.tried) occupied.insert(e.slots[0]);
                std::vector<int> cand;
                for (auto& [k, e] : cur) {
                    if (e.tried) continue;
                    AddrInfo ai{CAddress{k, NODE_NONE}, e.source};
                    int tb = ai.GetTriedBucket(uint256{1}, ngm[cur_ngm]);
                    if (occupied.count({tb, ai.GetBucketPosition(uint256{1}, false, tb)})) cand.push_back(id_of.at(k));
                }
                int id = -1, r = 0;
                if (!cand.empty()) {
                    id = cand[op.mod(0, cand.size())];
                    ever_good.insert(id);
                    r = am->Good(svc[id], At(op.arg(1)));
                    if (r) { did_move = true; ctx.probe("moved_to_tried"); } else ctx.probe("good_hit_occupied_tried_slot");
                }
                ctx.evf("good-collider #%d of %zu -> %d", id, cand.size(), r);
                break;
            }
            case CHECKALL:
                CheckPerNetwork(*am, cur, w);
                is_const = true;
                ctx.evf("checkall %zu", cur.size());
                break;
            }

            if (!snapshot_done) {
                prev = std::move(cur);
                cur = TakeSnapshot(*am, w);
                if (is_const) {
                    if (!(cur == prev)) ctx.failf("observer-changed-tables", "%s changed the stored records (%zu -> %zu addresses)", w, prev.size(), cur.size());
                } else {
                    Observe(prev, op);
                }
            }
            CheckTotals(*am, cur, w, (int)(opi++ % 3));
            CheckMembership(cur, w);
            if (did_add && did_move) ctx.nontrivial = true;
            ctx.fingerprint(Fingerprint());
        }
        CheckTotals(*am, cur, "end of history");
        CheckPerNetwork(*am, cur, "end of history");
        ctx.sim_ms = (uint64_t)(max_now - T0) * 1000;
    }

    /** probes about what the operation did to the tables (no claims) */
    void Observe(const Snap& prev, const Op& op)
    {
        size_t gone = 0;
        for (auto& [k, e] : prev) {
            auto it = cur.find(k);
            if (it == cur.end()) { ++gone; continue; }
            if (e.tried && !it->second.tried) ctx.probe(op.kind == RESOLVE ? "collision_resolved_evicted_old" : "tried_evicted_to_new");
            if (!e.tried && it->second.tried && op.kind == RESOLVE) ctx.probe("collision_resolved_promoted_new");
        }
        if (gone && (op.kind == ADD || op.kind == HAMMER)) ctx.probe("new_slot_overwritten", gone);
        if (gone && op.kind != ADD && op.kind != HAMMER) ctx.probe("entry_dropped_by_eviction", gone);
        for (auto& [k, e] : cur) {
            if (e.tried) continue;
            auto it = prev.find(k);
            size_t was = it == prev.end() || it->second.tried ? 0 : it->second.slots.size();
            if (e.slots.size() > 1 && e.slots.size() > was) ctx.probe("new_multiplicity_gt1");
            if (e.slots.size() == MAX_NEW_REFS && was < MAX_NEW_REFS) ctx.probe("new_multiplicity_8");
        }
    }
};

void Run(Ctx& ctx)
{
    if (!CheckStandardAsmap(ASMAP_ALL_AS1) || !CheckStandardAsmap(ASMAP_ALL_AS2)) ctx.failf("engine-bug-asmap", "hand-assembled asmap rejected by CheckStandardAsmap");
    Sim s(ctx);
    s.Run();
}

Engine MakeEngine()
{
    Engine e;
    e.prop = "C37";
    e.name = "compsim/addrman";
    e.level = "exploration";
    e.gen = Gen;
    e.run = Run;
    e.describe = Describe;
    e.chunk = 20;
    e.quick_runs = 3000;
    e.thorough_runs = 40000;
    e.quick_budget_s = 50;
    e.thorough_budget_s = 900;
    e.rule = "seeded histories of 10-160 address-manager operations over a per-run address universe of 2-400 addresses drawn from 10 templates "
             "(two IPv4 /16 groups, one IPv4 host on many ports, IPv6 /32, he.net /36, 6to4-tunnelled IPv4, Tor v3, I2P, CJDNS, unroutable) and 1-64 (hammer: up to 900) source groups, "
             "with per-run op weights: Add (single/batch, time penalty, stale/future/default timestamps, self-announcement), Good, Attempt, Connected, SetServices, ResolveCollisions, "
             "SelectTriedCollision+feeler outcome, Select+connection outcome, GetAddr, clock forward (1 s .. 400 d) and backward, serialise->new instance (same or changed asmap, "
             "deterministic or random-key loader, optionally continuing on the reloaded instance), DumpPeerAddresses/LoadAddrman on a real peers.dat with truncation, byte flip, trailing garbage, stray temp file and missing-file faults, "
             "and process-kill / power-loss crash images of a dump in progress (one seeded point, or every point of that dump's I/O log); non-trivial = an address was added and one moved to the tried table, or a non-empty manager was reloaded and compared; "
             "distinct = distinct fingerprints of the table snapshot (address, table, multiplicity, failed-attempt flag; asmap in use) after an operation (first 64 per run)";
    e.real_components = {"AddrMan / AddrManImpl incl. CheckAddrman after every call (addrman.cpp)", "AddrInfo, CAddress/CService/CNetAddr BIP155 serialisation (addrman_impl.h, protocol.h, netaddress.cpp)",
                         "NetGroupManager + asmap interpreter (netgroup.cpp, util/asmap.cpp)", "DumpPeerAddresses / LoadAddrman / SerializeFileDB / DeserializeFileDB incl. checksum (addrdb.cpp)", "ArgsManager datadir resolution, AutoFile, RenameOver"};
    e.stub_components = {"NodeClock (SetMockTime, simulated seconds)", "peers and connection outcomes (scripted Attempt/Good/Connected reports)", "peers.dat on a tmpfs directory behind the simfs libc interposition layer (I/O log, crash images); stored-data faults (truncate, flip, append, stray temp file) applied to a copy of the closed file",
                         "asmap: two hand-assembled single-RETURN maps (all IPv4/IPv6 -> AS1 / AS2)"};
    e.assumptions = {"timestamps handed to Good/Attempt/Connected and CAddress::nTime are positive and fit the 32-bit on-disk field (years 2001..2103); CAddress documents other values as unspecified",
                     "crash during dump: the directory is rebuilt from the simfs log of the real dump (process kill = log prefix; power loss = durable prefix + only fsynced later operations, optional torn last append); "
                     "file operations older than the dump in progress are taken to be durable; the result must load as exactly the previous dump (or empty if none) or exactly the new one",
                     "after a reload with a changed asmap only the documented re-bucketing is claimed (subset of addresses, unchanged stored records, one own-source slot per new entry), not equality",
                     "the placement oracle after an asmap change uses the manager's own FindAddressEntry() for the expected own-source bucket",
                     "a flipped 'lowest compatible version' byte is accepted to yield a fresh empty manager plus peers.dat.bak (documented LoadAddrman behaviour); every other damage must be an error"};
    e.expected_probes = {"moved_to_tried", "good_hit_occupied_tried_slot", "new_multiplicity_gt1", "new_multiplicity_8", "new_slot_overwritten", "tried_collision_pending", "collision_resolved_evicted_old", "collision_resolved_promoted_new",
                         "select_tried", "select_new", "getaddr_filtered_out_terrible", "unroutable_rejected", "reload_stream_equal", "reload_with_multiplicity", "reload_rebucket_collapsed_multiplicity",
                         "peers_dat_dumped", "reload_file_equal", "file_damage_rejected", "file_version_reset", "stray_tempfile_ignored", "restart_from_peers_dat", "load_created_file", "crash_image_old_state", "crash_image_new_state", "crash_points_enumerated_kill", "crash_points_enumerated_powerloss", "restart_from_crash_image"};
    return e;
}
Engine g_engine = MakeEngine();
SIM_REGISTER_ENGINE(g_engine);

} // namespace
