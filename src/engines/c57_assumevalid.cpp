// C57 — scripts are skipped only under the assumed-valid conditions.
// nodesim: a real regtest node (SimNode) configured per run with -assumevalid=<hash> and -minimumchainwork=<n>, fed a
// generated block tree: a main branch of > 2100 blocks that carries exactly one block with an invalid script (the
// "probe": it spends a mature coinbase with a corrupted / wrong-key / stripped signature, everything else about it is
// valid) and an optional competing branch. Headers and blocks are delivered separately (headers first, blocks later, in
// either order with the competing branch, blocks in or out of order). An independent model of the header tree evaluates
// the five conditions of the statement at the moment the node connects the probe:
//   (1) an assumed-valid block is configured and its header is known, (2) the probe is an ancestor of it,
//   (3) the probe lies on the best (most-work) known header chain, (4) the best header has >= minimumchainwork,
//   (5) work(best header) - work(probe), expressed in seconds of 600 s blocks at the best header's difficulty, is more
//       than two weeks.
// One-directional oracle: if any of them fails at that moment, the probe must be rejected (never be part of the active chain);
// if all hold either outcome is legal.
//
// Deviation from the design paragraph: blocks are built directly with chaingen (BuildTx/BuildBlock) instead of
// ChainSim::MineOn, because RefChain keeps one UTXO map per block (O(n^2) memory/time for 2 100-4 500 block trees); the
// tree here consists of coinbase-only blocks plus the probe, whose validity is known by construction.
#include "../core/sim.h"
#include "../nodesim/chaingen.h"
#include "../nodesim/refchain.h"
#include "../nodesim/simnode.h"

#include <arith_uint256.h>
#include <chain.h>
#include <chainparams.h>
#include <consensus/validation.h>
#include <util/time.h>
#include <validation.h>

#include <algorithm>

using namespace sim;
using namespace nodesim;

namespace {

enum OpKind { OP_HDR = 0, OP_BLK = 1 };
// OP_HDR: a0 = branch (0 main, 1 competing), a1 = deliver the branch's not yet announced headers up to this height, a2 = batch size
// OP_BLK: a0 = branch, a1 = deliver the branch's not yet delivered blocks up to this height, a2 = order (0 ascending,
//         1 lowest block last, 2 descending; 1 and 2 need the headers to be known already, else ascending)

enum AvKind { AV_MAIN = 0, AV_COMPETING = 1, AV_UNKNOWN = 2, AV_ZERO = 3, AV_UNSET = 4 };

constexpr int64_t kTwoWeeks = 14 * 24 * 60 * 60;
constexpr int64_t kSpacing = 600; // regtest nPowTargetSpacing (consensus constant of the chain under test)

std::string Describe(const Op& op)
{
    char b[200];
    static const char* order[] = {"ascending", "lowest-block-last", "descending"};
    const char* br = (op.arg(0) & 1) ? "competing" : "main";
    switch (op.kind) {
    case OP_HDR: snprintf(b, sizeof b, "deliver_headers(branch=%s, up_to_height=%ld, batch=%ld)", br, (long)op.arg(1), (long)std::clamp<int64_t>(op.arg(2), 1, 2000)); break;
    case OP_BLK: snprintf(b, sizeof b, "deliver_blocks(branch=%s, up_to_height=%ld, order=%s)", br, (long)op.arg(1), order[op.mod(2, 3)]); break;
    default: snprintf(b, sizeof b, "?");
    }
    return b;
}

// ------------------------------------------------------------------------------------------------------------------
// Plan generator: a configuration in which all five conditions hold when the probe is connected, then (per focus) one
// condition is broken, sometimes a second one (swarm), sometimes repaired before / after the probe's block arrives.

Plan Gen(uint64_t seed, Tier tier)
{
    Rng rng(seed);
    Plan p;
    const bool thorough = tier == Tier::THOROUGH;
    enum { F_HOLD, F_AV, F_BEST, F_MCW, F_DEPTH, F_RANDOM };
    const int focus = (int)rng.pick({18, 22, 18, 14, 20, 8});
    const bool second = focus != F_HOLD && rng.chance(1, 5); // break one more thing
    auto brk = [&](int f) { return focus == f || focus == F_RANDOM ? (focus == f || rng.chance(1, 3)) : (second && rng.chance(1, 4)); };

    const int P = rng.chance(4, 5) ? (int)rng.range(101, 125) : (int)rng.range(126, 280);
    p.knobs["probe_height"] = P;
    p.knobs["coin_height"] = rng.range(1, P - 100);
    p.knobs["coin_kind"] = (int64_t)std::vector<int>{(int)SK::P2WPKH, (int)SK::P2TR, (int)SK::P2PKH, (int)SK::P2SH_P2WPKH, (int)SK::TRUE_WSH}[rng.pick({35, 35, 10, 10, 10})];
    p.knobs["defect"] = (int64_t)rng.pick({60, 25, 15}); // bad-sig, wrong-key, strip-witness
    p.knobs["spacing"] = (int64_t)rng.pick({2, 1, 1});    // block time steps: 1 s, 600 s, seeded 1..1200 s
    p.knobs["tseed"] = (int64_t)(rng.next() >> 16);
    p.knobs["check_block_index"] = rng.chance(1, 4) ? 1 : (int64_t)rng.range(20, 200);

    // (5) burial of the probe under the main header tip when its block arrives
    int d;
    if (brk(F_DEPTH)) {
        switch (rng.pick({45, 15, 12, 8, 10, 10})) {
        case 0: d = 2016; break;
        case 1: d = 2015; break;
        case 2: d = (int)rng.range(1000, 2014); break;
        case 3: d = (int)rng.range(1007, 1010); break; // one week
        case 4: d = (int)rng.range(1, 60); break;
        default: d = 0; break;                          // block arrives without any header announced before
        }
    } else {
        d = rng.chance(3, 5) ? 2017 : (int)rng.range(2018, 2040);
    }
    const bool short_chain = rng.chance(1, 8);
    const int L = short_chain ? P + d + (int)rng.range(0, 2) : P + std::max(d, 2017) + (int)rng.range(0, 20);
    p.knobs["main_len"] = L;

    // (3) competing branch
    enum { C_NONE, C_SHORT_BELOW, C_LONG_BELOW_BEST, C_LONG_BELOW_LESS, C_ABOVE };
    int ck;
    if (brk(F_BEST)) ck = C_LONG_BELOW_BEST;
    else ck = (int)rng.pick({40, 25, 0, 10, 25});
    // (1)+(2) assumed-valid block
    enum { A_DESC, A_SELF, A_ANC, A_SIB, A_UNKNOWN, A_ZERO, A_UNSET, A_LATE };
    int ak;
    if (brk(F_AV)) {
        ak = std::vector<int>{A_ANC, A_SIB, A_UNKNOWN, A_ZERO, A_UNSET, A_LATE}[rng.pick({15, 35, 15, 6, 4, 25})];
        if (ak == A_LATE && L <= P + d) ak = A_UNKNOWN;
    } else {
        ak = rng.chance(1, 5) ? A_SELF : A_DESC;
    }
    if (ak == A_SIB && (ck == C_NONE || ck == C_ABOVE)) ck = rng.chance(3, 4) ? C_SHORT_BELOW : C_LONG_BELOW_LESS;

    int F = -1, ctip = -1;
    switch (ck) {
    case C_SHORT_BELOW:
        F = std::max(0, P - 1 - (int)rng.below(12));
        ctip = std::max(F + 1, P + (int)rng.range(-2, 12));
        break;
    case C_LONG_BELOW_BEST:
        F = std::max(0, P - 1 - (int)rng.below(12));
        ctip = P + std::max(d, rng.chance(4, 5) ? 2017 : 0) + (int)rng.range(1, 8);
        break;
    case C_LONG_BELOW_LESS:
        F = std::max(0, P - 1 - (int)rng.below(12));
        ctip = std::max(F + 1, P + d - (int)rng.range(rng.chance(1, 6) ? 0 : 1, 8)); // 0: equal work with the main header tip (ambiguous best header)
        break;
    case C_ABOVE:
        F = P + (int)rng.below(std::min(std::max(d, 1), 30));
        ctip = std::max(F + 1, P + d + (int)rng.range(0, 8));
        break;
    default: break;
    }
    p.knobs["c_fork"] = F;
    p.knobs["c_len"] = F < 0 ? 0 : ctip - F;

    int av_kind = AV_MAIN, av_h = P;
    switch (ak) {
    case A_DESC: {
        int hi = std::max(P + 1, std::min(L, P + d));
        av_h = (int)std::vector<int64_t>{P + 1, hi, rng.range(P + 1, hi)}[rng.pick({1, 2, 2})];
        av_h = std::min(av_h, L);
        if (av_h <= P) av_h = P; // chain ends at the probe
        break;
    }
    case A_SELF: av_h = P; break;
    case A_ANC: av_h = rng.chance(1, 2) ? P - 1 : (int)rng.range(0, P - 1); break;
    case A_SIB:
        av_kind = AV_COMPETING;
        av_h = (int)std::vector<int64_t>{P, P + 1, ctip, rng.range(F + 1, ctip), P - 1}[rng.pick({3, 2, 3, 2, 1})];
        av_h = std::clamp(av_h, F + 1, ctip);
        break;
    case A_UNKNOWN: av_kind = AV_UNKNOWN; break;
    case A_ZERO: av_kind = AV_ZERO; break;
    case A_UNSET: av_kind = AV_UNSET; break;
    case A_LATE: av_h = rng.chance(1, 2) ? P + d + 1 : (int)rng.range(P + d + 1, L); break;
    }
    p.knobs["av_kind"] = av_kind;
    p.knobs["av_height"] = av_h;
    p.knobs["av_seed"] = (int64_t)(rng.next() >> 8);

    // (4) minimum chain work relative to the work of the header that is expected to be best when the probe's block arrives
    const int hb = std::max(P + d, (ck == C_LONG_BELOW_BEST || ck == C_ABOVE || ck == C_LONG_BELOW_LESS) ? ctip : 0);
    const int64_t W = 2 * (int64_t)(hb + 1);
    int64_t mcw;
    if (brk(F_MCW)) {
        mcw = std::vector<int64_t>{W + 1, W + 2, W + 2 * rng.range(2, 40), W + 100000}[rng.pick({40, 30, 20, 10})];
    } else {
        mcw = std::vector<int64_t>{0, W, W - 1, std::max<int64_t>(1, W - 2 * rng.range(1, 60)), 2}[rng.pick({40, 25, 10, 20, 5})];
    }
    p.knobs["min_chain_work"] = mcw;

    // ---- deliveries
    auto hdr = [&](int b, int upto) { p.ops.push_back(Op{OP_HDR, {b, upto, (int64_t)std::vector<int>{2000, 500, 1, 37}[rng.pick({6, 2, 1, 1})]}}); };
    auto blk = [&](int b, int upto, int order = -1) { p.ops.push_back(Op{OP_BLK, {b, upto, order >= 0 ? order : (int64_t)rng.pick({6, 2, 2})}}); };
    const int k = (int)rng.below(6); // blocks delivered on top of the probe
    const std::vector<int> interesting{P - 1, P, P + 1, P + k, P + k + 1, P + k + 2, P + k + 4, P + 1008, P + 2015, P + 2016, P + 2017, P + 2018, P + d, L, std::max(ctip, 0), std::max(F, 0), std::max(F, 0) + 1};
    auto any_height = [&]() { return interesting[rng.below(interesting.size())]; };

    if (focus == F_RANDOM && rng.chance(1, 2)) {
        // unstructured: anything in any order
        if (rng.coin()) blk(0, P - 1, 0);
        int n = (int)rng.range(3, thorough ? 12 : 8);
        for (int i = 0; i < n; ++i) {
            int b = F >= 0 && rng.chance(1, 3) ? 1 : 0;
            int h = any_height();
            if (rng.chance(1, 2)) hdr(b, h);
            else blk(b, (b == 0 && h > P + 40 && !rng.chance(1, 10)) ? P + (int)rng.below(8) : h);
        }
        return p;
    }

    // optional early part of the main chain
    int early = -1;
    if (rng.coin()) { early = std::max(1, P - 1 - (int)rng.below(15)); blk(0, early, 0); }
    // header announcements before the probe's block; "repair": the burial/AV/best-header situation at the first announcement
    // differs from the one when the block arrives
    const bool repair = d > 0 && rng.chance(1, 5);
    int d0 = d;
    if (repair) d0 = (int)std::vector<int64_t>{d - 1, std::min(d - 1, 2016), rng.range(0, d - 1)}[rng.pick({2, 2, 1})];
    const bool c_late = F >= 0 && rng.chance(1, ck == C_LONG_BELOW_BEST ? 3 : 5);   // competing headers only after the probe was connected
    const bool c_first = F >= 0 && !c_late && rng.coin();
    auto c_headers = [&]() {
        if (F >= 0 && std::max(early, 0) < F && c_first) hdr(0, F);
        if (F >= 0) hdr(1, ctip);
    };
    if (c_first) c_headers();
    if (d0 > 0) {
        if (rng.chance(1, 6)) hdr(0, P + d0 / 2);
        hdr(0, P + d0);
    }
    if (F >= 0 && !c_late && !c_first) c_headers();
    if (rng.chance(2, 3)) blk(0, P - 1, rng.chance(3, 4) ? 0 : -1);
    if (repair) hdr(0, P + d);
    blk(0, P + k);
    // afterwards: late repairs, more blocks, reorg to the competing branch and back
    if (c_late) hdr(1, ctip);
    int n_post = (int)rng.range(0, thorough ? 6 : 4);
    int main_blocks = P + k;
    if (F >= 0 && F < P && ctip > main_blocks && (rng.chance(1, 2) || (c_late && ck == C_LONG_BELOW_BEST))) {
        // reorg to the competing branch (disconnects the probe if it was connected) and back: the probe is connected a
        // second time, under whatever the header tree looks like by then
        int cb = std::min(ctip, main_blocks + (int)rng.range(1, 3));
        blk(1, cb);
        if (rng.chance(1, 4)) hdr(1, ctip);
        if (rng.chance(1, 4)) hdr(0, L);
        main_blocks = cb + (int)rng.range(1, 3);
        blk(0, main_blocks);
    }
    for (int i = 0; i < n_post; ++i) {
        switch (rng.pick({3, 3, 4, (uint32_t)(F >= 0 ? 5 : 0), (uint32_t)(F >= 0 ? 2 : 0), (uint32_t)(thorough ? 2 : 1)})) {
        case 0: hdr(0, L); break;
        case 1: hdr(0, P + (int)rng.range(2015, 2018)); break;
        case 2: main_blocks += (int)rng.range(1, 6); blk(0, main_blocks); break;
        case 3: blk(1, (ctip - F > 60 || rng.coin()) ? std::min(ctip, main_blocks + (int)rng.range(1, 3)) : ctip); break;
        case 4: hdr(1, ctip); break;
        case 5: if (rng.chance(1, 3)) { blk(0, L); main_blocks = L; } else { main_blocks += (int)rng.range(1, 40); blk(0, main_blocks); } break;
        }
    }
    return p;
}

// ------------------------------------------------------------------------------------------------------------------

struct MBlk {
    std::shared_ptr<const CBlock> blk;
    uint256 hash;
    int parent{-1};
    int height{0};
    int branch{0};
    int64_t time{0};
    int64_t work{0};        //!< model: sum of per-block work from genesis to this block
    int64_t own_work{0};    //!< model: work of this block alone
    bool under_probe{false}; //!< the probe or one of its descendants
    bool hdr{false};        //!< model: header announced to the node (and not refused as descendant of a rejected block)
    bool given{false};      //!< full block handed to the node
};

/** Model's block work: floor(2^256 / (target+1)) computed from the compact target; regtest values fit 63 bits. */
int64_t ModelBlockWork(uint32_t nbits)
{
    arith_uint256 target;
    bool neg = false, over = false;
    target.SetCompact(nbits, &neg, &over);
    if (neg || over || target == 0) return 0;
    arith_uint256 divisor = target + 1;
    arith_uint256 all_ones = ~arith_uint256(0);
    arith_uint256 q = all_ones / divisor; // floor((2^256-1)/divisor) == floor(2^256/divisor) unless divisor divides 2^256
    if (q * divisor + divisor == 0) q = q + 1; // divisor * (q+1) wrapped to exactly 2^256
    if (q.bits() > 62) return -1;
    return (int64_t)q.GetLow64();
}

struct Conds {
    bool av_configured{false}, av_known{false}, ancestor_of_av{false}, on_best_chain{false}, min_work{false}, buried{false};
    int best_height{-1};
    int n_best{0};
    int64_t best_work{0};
    int64_t equiv_time{0};
    int first_failed() const
    {
        if (!av_configured) return 0;
        if (!av_known) return 1;
        if (!ancestor_of_av) return 2;
        if (!on_best_chain) return 3;
        if (!min_work) return 4;
        if (!buried) return 5;
        return -1;
    }
    /** failing conditions; a condition that is undefined because an earlier one fails (ancestry of an unknown block, burial under a chain the probe is not on) is not counted */
    unsigned mask() const
    {
        unsigned m = 0;
        if (!av_configured) m |= 1;
        else if (!av_known) m |= 2;
        else if (!ancestor_of_av) m |= 4;
        if (!on_best_chain) m |= 8;
        else if (!buried) m |= 32;
        if (!min_work) m |= 16;
        return m;
    }
};
const char* kCondClass[6] = {"scripts-skipped-without-assumevalid-block", "scripts-skipped-assumevalid-header-unknown", "scripts-skipped-not-ancestor-of-assumevalid",
                             "scripts-skipped-not-on-best-header-chain", "scripts-skipped-best-header-below-minimumchainwork", "scripts-skipped-within-two-weeks-of-best-header"};
const char* kCondReject[6] = {"reject_no_assumevalid_configured", "reject_av_header_unknown", "reject_not_ancestor_of_av", "reject_not_on_best_header_chain", "reject_below_min_chain_work", "reject_within_two_weeks"};

struct Sim {
    Ctx& ctx;
    std::unique_ptr<const CChainParams> params;
    std::vector<MBlk> t;
    std::vector<int> br[2];   //!< br[0][h] = main block at height h (0 = genesis); br[1][i] = competing block at height F+1+i
    int P{101}, F{-1}, L{0};
    int probe{-1};
    int av{-1};               //!< model index of the assumed-valid block (-1: hash that is not in the tree / none)
    int av_kind{AV_MAIN};
    int64_t mcw{0};
    size_t hdr_next[2]{1, 0}, blk_next[2]{1, 0};
    std::unique_ptr<SimNode> node;
    bool probe_active{false};
    bool probe_rejected{false};
    bool ever_attempted{false};
    bool ever_connected{false};
    size_t verdicts_seen{0};
    int64_t t_min{0}, t_max{0};

    explicit Sim(Ctx& c) : ctx(c) {}

    int Mine(int parent, int branch, const std::vector<CTransactionRef>& txs, const CScript& cb_spk, int64_t dt)
    {
        const MBlk& p = t[parent];
        BlockExtras ex;
        ex.cb_extranonce = (uint32_t)t.size();
        ex.coinbase_spk = cb_spk;
        const int height = p.height + 1;
        auto b = BuildBlock(p.hash, height, p.time + dt, txs, RefSubsidy(height, 150), ex, params->GetConsensus());
        MBlk m;
        m.blk = b;
        m.hash = b->GetHash();
        m.parent = parent;
        m.height = height;
        m.branch = branch;
        m.time = p.time + dt;
        m.own_work = ModelBlockWork(b->nBits);
        m.work = p.work + m.own_work;
        m.under_probe = p.under_probe;
        t.push_back(std::move(m));
        return (int)t.size() - 1;
    }

    void Build()
    {
        params = CChainParams::RegTest();
        const Keyring& kr = Keys();
        P = (int)std::clamp<int64_t>(ctx.knob("probe_height", 101), 101, 1000);
        L = (int)std::clamp<int64_t>(ctx.knob("main_len", P + 2017), P, P + 2600);
        const int coin_h = (int)std::clamp<int64_t>(ctx.knob("coin_height", 1), 1, P - 100);
        int coin_kind = (int)ctx.knob("coin_kind", (int)SK::P2WPKH);
        if (coin_kind < 0 || coin_kind >= (int)SK::NKINDS || coin_kind == (int)SK::TRUE_BARE) coin_kind = (int)SK::P2WPKH;
        const int spacing = (int)ctx.knob("spacing", 0);
        Rng r(mix64((uint64_t)ctx.knob("tseed", 1), 0x633537));
        auto dt = [&]() -> int64_t { return spacing == 0 ? 1 : spacing == 1 ? 600 : r.range(1, 1200); };
        auto any_spk = [&]() { return kr.Spk((SK)r.below((int)SK::NKINDS), (int)r.below(N_KEYS)); };

        MBlk g;
        g.blk = std::make_shared<const CBlock>(params->GenesisBlock());
        g.hash = g.blk->GetHash();
        g.time = g.blk->GetBlockTime();
        g.own_work = ModelBlockWork(g.blk->nBits);
        g.work = g.own_work;
        g.hdr = g.given = true;
        t.push_back(g);
        br[0].push_back(0);
        if (g.own_work <= 0) ctx.failf("harness-model-work", "cannot model the work of nBits=%08x", g.blk->nBits);

        const int coin_key = (int)r.below(N_KEYS);
        CTransactionRef coin_tx;
        CScript coin_spk = kr.Spk((SK)coin_kind, coin_key);
        for (int h = 1; h <= L; ++h) {
            std::vector<CTransactionRef> txs;
            if (h == P) {
                // the probe: one transaction spending the mature coinbase of height coin_h with an unsatisfied script
                TxIn in;
                in.prevout = COutPoint(coin_tx->GetHash(), 0);
                in.coin = RefCoin{coin_tx->vout[0].nValue, coin_spk, coin_h, true};
                std::vector<CTxOut> outs{CTxOut(in.coin.value - 1000, kr.Spk(SK::P2WPKH, (int)r.below(N_KEYS)))};
                static const SigDefect kDef[3] = {SigDefect::BAD_SIG, SigDefect::WRONG_KEY, SigDefect::STRIP_WITNESS};
                bool ok = true;
                CTransactionRef tx = BuildTx({in}, outs, 0, 2, kDef[(uint64_t)ctx.knob("defect", 0) % 3], 0, ok);
                if (ok) tx = BuildTx({in}, outs, 0, 2, SigDefect::BAD_SIG, 0, ok); // the chosen defect does not apply to this script kind
                if (ok) ctx.failf("harness-probe-not-invalid", "could not build an unsatisfied spend of script kind %d", coin_kind);
                txs.push_back(tx);
            }
            int id = Mine(br[0].back(), 0, txs, h == coin_h ? coin_spk : any_spk(), dt());
            if (h == coin_h) coin_tx = t[id].blk->vtx[0];
            if (h == P) { probe = id; t[id].under_probe = true; }
            br[0].push_back(id);
        }
        F = (int)ctx.knob("c_fork", -1);
        int c_len = (int)std::clamp<int64_t>(ctx.knob("c_len", 0), 0, 2700);
        if (F > L) F = L;
        if (F >= 0 && c_len > 0) {
            int parent = br[0][F];
            for (int i = 0; i < c_len; ++i) {
                parent = Mine(parent, 1, {}, any_spk(), dt());
                br[1].push_back(parent);
            }
        } else {
            F = -1;
        }
        av_kind = (int)std::clamp<int64_t>(ctx.knob("av_kind", AV_MAIN), 0, 4);
        if (av_kind == AV_COMPETING && br[1].empty()) av_kind = AV_MAIN;
        const int av_h = (int)ctx.knob("av_height", P);
        if (av_kind == AV_MAIN) av = br[0][std::clamp(av_h, 0, L)];
        else if (av_kind == AV_COMPETING) av = br[1][std::clamp(av_h - (F + 1), 0, (int)br[1].size() - 1)];
        mcw = std::max<int64_t>(0, ctx.knob("min_chain_work", 0));
        t_min = t[0].time;
        for (auto& b : t) t_max = std::max(t_max, b.time);
    }

    void StartNode()
    {
        NodeOpts o;
        o.dir = RunDir() + "/node0";
        o.with_mempool = true;
        o.mempool_check_ratio = 0;
        o.check_block_index = (int)std::clamp<int64_t>(ctx.knob("check_block_index", 50), 1, 1000);
        if (av_kind == AV_MAIN || av_kind == AV_COMPETING) o.assumed_valid = t[av].hash;
        else if (av_kind == AV_UNKNOWN) {
            uint256 h;
            Rng r(mix64((uint64_t)ctx.knob("av_seed", 7), 0x6176));
            r.fill(h.begin(), 32);
            o.assumed_valid = h;
        } else if (av_kind == AV_ZERO) o.assumed_valid = uint256{};
        // AV_UNSET: the chain's default (regtest: none)
        o.min_chain_work = arith_uint256((uint64_t)mcw);
        SetMockTime(std::chrono::seconds{t_max + 60});
        node = std::make_unique<SimNode>(o);
        if (!node->Start()) ctx.failf("node-start-failed", "%s", node->last_error.c_str());
    }

    // ---- the model's five conditions, from its own tree and its own record of what was announced
    bool IsAncestorOrSelf(int a, int b) const
    {
        while (b >= 0 && t[b].height > t[a].height) b = t[b].parent;
        return a == b;
    }

    Conds Eval() const
    {
        Conds c;
        c.av_configured = av_kind == AV_MAIN || av_kind == AV_COMPETING || av_kind == AV_UNKNOWN;
        auto known = [&](int id) { return t[id].hdr && !(probe_rejected && t[id].under_probe); };
        c.av_known = av >= 0 && t[av].hdr; // a header stays in the node's index even when it later turns out to descend from a rejected block
        c.ancestor_of_av = av >= 0 && IsAncestorOrSelf(probe, av);
        // best known header(s): most work; with equal work any of them may be the node's choice
        int64_t best = -1;
        std::vector<int> bests;
        for (int id = 0; id < (int)t.size(); ++id) {
            if (!known(id)) continue;
            if (t[id].work > best) { best = t[id].work; bests.clear(); }
            if (t[id].work == best) bests.push_back(id);
        }
        c.n_best = (int)bests.size();
        c.best_work = best;
        for (int id : bests) {
            c.best_height = std::max(c.best_height, t[id].height);
            if (IsAncestorOrSelf(probe, id)) {
                c.on_best_chain = true;
                // seconds of 600 s blocks, at the best header's own difficulty, that the work on top of the probe amounts to
                int64_t eq = (t[id].work - t[probe].work) * kSpacing / t[id].own_work;
                c.equiv_time = std::max(c.equiv_time, eq);
            }
        }
        c.min_work = best >= mcw;
        c.buried = c.on_best_chain && c.equiv_time > kTwoWeeks;
        return c;
    }

    bool NodeHasProbeActive()
    {
        LOCK(cs_main);
        const CBlockIndex* pi = node->cm().m_blockman.LookupBlockIndex(t[probe].hash);
        return pi && node->cm().ActiveChain().Contains(*pi);
    }
    bool NodeKnowsHeader(int id)
    {
        LOCK(cs_main);
        return node->cm().m_blockman.LookupBlockIndex(t[id].hash) != nullptr;
    }

    /** The oracle. Called after every call into the node with the model already updated for that call. */
    void Observe(const char* where)
    {
        if (node->Fatal()) ctx.failf("node-fatal-error", "%s", node->notifications->fatal_errors.empty() ? node->notifications->flush_errors[0].c_str() : node->notifications->fatal_errors[0].c_str());
        const bool active = NodeHasProbeActive();
        std::optional<VerdictRecorder::Verdict> verdict;
        auto& vs = node->verdicts->verdicts;
        for (; verdicts_seen < vs.size(); ++verdicts_seen) {
            if (vs[verdicts_seen].hash != t[probe].hash) continue;
            // "already known to be invalid" is not a new connection attempt
            if (probe_rejected && vs[verdicts_seen].result == BlockValidationResult::BLOCK_CACHED_INVALID) continue;
            verdict = vs[verdicts_seen];
        }
        const bool connected_now = active && !probe_active;
        if (probe_active && !active) { ctx.probe("probe_disconnected_by_reorg"); ctx.evf("probe disconnected (%s)", where); }
        if (!connected_now && !verdict) { probe_active = active; return; }

        const Conds c = Eval();
        const int ff = c.first_failed();
        ever_attempted = true;
        ctx.nontrivial = true;
        ctx.probe("probe_attempted");
        ctx.fault("invalid_script_block_offered_for_connection");
        const int64_t depth = c.on_best_chain ? c.best_height - t[probe].height : -1;
        ctx.evf("probe %s at %s: av_cfg=%d av_known=%d anc_of_av=%d on_best=%d(best_h=%d,n=%d) min_work=%d(%ld>=%ld) buried=%d(eq=%lds) verdict=%s", connected_now ? "CONNECTED" : "not connected", where,
                c.av_configured, c.av_known, c.ancestor_of_av, c.on_best_chain, c.best_height, c.n_best, c.min_work, (long)c.best_work, (long)mcw, c.buried, (long)c.equiv_time,
                verdict ? (verdict->valid ? "valid" : verdict->reason.c_str()) : "-");
        char detail[600];
        snprintf(detail, sizeof detail,
                 "%s: probe block (height %d, invalid script) %s although: assumevalid configured=%d, its header known=%d, probe is its ancestor=%d, probe on best header chain=%d "
                 "(best known header height %d, %d candidate(s)), best header work %ld >= minimumchainwork %ld: %d, work on top of the probe = %ld s of blocks (needs > %ld): %d",
                 where, t[probe].height, connected_now ? "became part of the active chain" : "was reported valid", c.av_configured, c.av_known, c.ancestor_of_av, c.on_best_chain, c.best_height, c.n_best,
                 (long)c.best_work, (long)mcw, c.min_work, (long)c.equiv_time, (long)kTwoWeeks, c.buried);
        if (connected_now || (verdict && verdict->valid)) {
            if (ff >= 0) ctx.fail(kCondClass[ff], detail);
            ctx.probe("skip_taken_all_conditions_hold");
            if (ever_connected) ctx.probe("probe_reconnected_after_reorg");
            ever_connected = true;
            if (depth == 2017) ctx.probe("skip_at_burial_exactly_2017");
            if (c.best_work == mcw) ctx.probe("skip_with_min_work_equal_best_header_work");
            if (av == probe) ctx.probe("skip_av_is_probe_itself");
            if (c.n_best > 1) ctx.probe("skip_with_equal_work_best_headers");
            if (F >= 0 && hdr_next[1] > 0 && t[br[1][hdr_next[1] - 1]].work > t[br[0][hdr_next[0] - 1]].work) ctx.probe("skip_while_competing_branch_above_probe_is_best");
        }
        if (verdict && !verdict->valid) {
            if (verdict->reason.find("script-verify-flag-failed") == std::string::npos)
                ctx.failf("harness-probe-rejected-for-other-reason", "the probe block was rejected with '%s' (expected a script verification failure)", verdict->reason.c_str());
            probe_rejected = true;
            if (ff >= 0) {
                ctx.probe(kCondReject[ff]);
                if (ever_connected) ctx.probe("reject_on_reconnect_after_reorg");
                if (ff == 5 && depth == 2016) ctx.probe("reject_at_burial_exactly_2016");
                if (ff == 5 && depth == 2015) ctx.probe("reject_at_burial_exactly_2015");
                if (ff == 5 && depth == 0) ctx.probe("reject_block_is_its_own_best_header");
                if (ff == 1 && av >= 0) ctx.probe("reject_av_header_not_yet_announced");
                if (ff == 2 && av >= 0 && t[av].branch == 1) ctx.probe("reject_av_on_sibling_branch");
                if (ff == 2 && av >= 0 && t[av].branch == 0) ctx.probe("reject_av_is_ancestor_of_probe");
                if (ff == 3) ctx.fault("competing_header_branch_is_best");
                if (ff == 4 && mcw - c.best_work <= 2) ctx.probe("reject_min_work_just_above_best_header");
                // exactly one condition broken?
                if ((c.mask() & (c.mask() - 1)) == 0) ctx.probe("reject_with_single_condition_broken");
            } else {
                ctx.probe("checked_although_all_conditions_hold"); // legal: the statement only restricts skipping
            }
        }
        probe_active = active;
    }

    uint64_t Fingerprint(const Conds& c) const
    {
        uint64_t h = mix64((uint64_t)(hdr_next[0] - P), (uint64_t)hdr_next[1]);
        h = mix64(h, (uint64_t)(blk_next[0] - P) * 4099 + blk_next[1]);
        h = mix64(h, c.mask() * 8 + probe_active * 4 + probe_rejected * 2 + ever_connected);
        h = mix64(h, (uint64_t)(c.best_height - P) * 7 + (uint64_t)av_kind);
        h = mix64(h, (uint64_t)(mcw - c.best_work + 5 > 10 ? 11 : mcw - c.best_work + 5));
        return h;
    }

    size_t IndexFor(int b, int64_t height) const
    {
        int64_t i = b == 0 ? height : height - (F + 1);
        return (size_t)std::clamp<int64_t>(i, -1, (int64_t)br[b].size() - 1) + 1; // one past the last index to deliver
    }

    void DoHeaders(const Op& op)
    {
        const int b = (int)(op.arg(0) & 1);
        const size_t end = br[b].empty() ? 0 : IndexFor(b, op.arg(1));
        const size_t batch = (size_t)std::clamp<int64_t>(op.arg(2), 1, 2000);
        size_t from = hdr_next[b];
        if (from >= end) { ctx.evf("headers b%d up to %ld: nothing new", b, (long)op.arg(1)); return; }
        if (!t[t[br[b][from]].parent].hdr) { ctx.evf("headers b%d: parent of the first header was never announced, skipped", b); return; }
        size_t sent = 0;
        bool all_ok = true;
        while (from < end) {
            size_t n = std::min(batch, end - from);
            std::vector<CBlockHeader> hs;
            for (size_t i = from; i < from + n; ++i) hs.push_back(static_cast<const CBlockHeader&>(*t[br[b][i]].blk));
            BlockValidationState st;
            const bool ok = node->ProcessHeaders(hs, st);
            const bool dead = probe_rejected && t[br[b][from + n - 1]].under_probe;
            if (dead) {
                // headers on top of a block the node has rejected are expected to be refused; the model does not count them as known
                ctx.probe("headers_on_rejected_chain_offered");
                ctx.evf("headers b%d [%zu..%zu) on the rejected chain -> %d %s", b, from, from + n, ok, st.GetRejectReason().c_str());
                all_ok = false;
                break;
            }
            if (!ok) ctx.failf("harness-valid-header-refused", "header batch of branch %d starting at index %zu refused: %s", b, from, st.ToString().c_str());
            for (size_t i = from; i < from + n; ++i) t[br[b][i]].hdr = true;
            from += n;
            sent += n;
            hdr_next[b] = from;
        }
        if (all_ok && !NodeKnowsHeader(br[b][end - 1])) ctx.failf("harness-header-not-indexed", "announced header at height %d is not in the node's index", t[br[b][end - 1]].height);
        if (sent) ctx.probe(b == 0 ? "headers_first_main" : "headers_first_competing");
        ctx.evf("headers b%d up to h=%d: %zu sent", b, t[br[b][end - 1]].height, sent);
        Observe("header delivery");
    }

    void DeliverBlock(int id)
    {
        MBlk& m = t[id];
        const bool dead = probe_rejected && m.under_probe;
        if (!dead) m.hdr = true; // a block carries its header
        m.given = true;
        auto res = node->ProcessBlock(m.blk, /*force_processing=*/true);
        if (!res.accepted && !dead) ctx.failf("harness-valid-block-not-accepted", "block at height %d of branch %d was not accepted", m.height, m.branch);
        if (res.verdict && !res.verdict->valid && !m.under_probe)
            ctx.failf("harness-valid-block-rejected", "block at height %d of branch %d (no defect) rejected: %s", m.height, m.branch, res.verdict->reason.c_str());
        if (dead) ctx.probe("block_on_rejected_chain_offered");
        char where[96];
        snprintf(where, sizeof where, "delivery of block h=%d of the %s branch", m.height, m.branch ? "competing" : "main");
        Observe(where);
    }

    void DoBlocks(const Op& op)
    {
        const int b = (int)(op.arg(0) & 1);
        const size_t end = br[b].empty() ? 0 : IndexFor(b, op.arg(1));
        const size_t from = blk_next[b];
        if (from >= end) { ctx.evf("blocks b%d up to %ld: nothing new", b, (long)op.arg(1)); return; }
        if (!t[t[br[b][from]].parent].hdr) { ctx.evf("blocks b%d: parent of the first block was never announced, skipped", b); return; }
        int order = (int)op.mod(2, 3);
        if (order != 0 && hdr_next[b] < end) order = 0; // out-of-order delivery needs the headers first
        if (order != 0 && probe_rejected && t[br[b][end - 1]].under_probe) order = 0;
        const int h_before = node->Height();
        if (order == 0) {
            for (size_t i = from; i < end; ++i) {
                if (probe_rejected && t[br[b][i]].under_probe && i > from + 1) break; // two refused blocks are enough
                DeliverBlock(br[b][i]);
            }
        } else if (order == 1) {
            for (size_t i = from + 1; i < end; ++i) DeliverBlock(br[b][i]);
            DeliverBlock(br[b][from]);
            ctx.probe("blocks_out_of_order");
        } else {
            for (size_t i = end; i-- > from;) DeliverBlock(br[b][i]);
            ctx.probe("blocks_out_of_order");
        }
        blk_next[b] = end;
        hdr_next[b] = std::max(hdr_next[b], end);
        const int h_after = node->Height();
        ctx.evf("blocks b%d [%d..%d] order=%d: height %d -> %d probe_active=%d rejected=%d", b, t[br[b][from]].height, t[br[b][end - 1]].height, order, h_before, h_after, probe_active, probe_rejected);
    }

    void Run()
    {
        Build();
        StartNode();
        ctx.evf("tree: P=%d L=%d fork=%d clen=%zu av_kind=%d av_h=%d mcw=%ld probe=%s", P, L, F, br[1].size(), av_kind, av >= 0 ? t[av].height : -1, (long)mcw, t[probe].hash.ToString().substr(0, 12).c_str());
        if (av == probe) ctx.probe("config_av_is_probe");
        if (av >= 0 && av != probe && IsAncestorOrSelf(probe, av)) ctx.probe("config_av_descendant_of_probe");
        if (av >= 0 && !IsAncestorOrSelf(probe, av)) ctx.probe(t[av].branch == 1 ? "config_av_on_sibling_branch" : "config_av_below_probe");
        if (av_kind == AV_UNKNOWN) ctx.probe("config_av_hash_not_in_tree");
        if (av_kind == AV_ZERO || av_kind == AV_UNSET) ctx.probe("config_no_assumevalid");
        if (mcw > 0) ctx.probe("config_min_chain_work_set");
        for (const Op& op : ctx.plan.ops) {
            switch (op.kind) {
            case OP_HDR: DoHeaders(op); break;
            case OP_BLK: DoBlocks(op); break;
            default: break;
            }
            ctx.fingerprint(Fingerprint(Eval()));
        }
        Observe("end of run");
        // simulated time: the span of block timestamps the node was taken through (the mock clock sits at its end)
        int64_t t_seen = t_min;
        for (auto& b : t)
            if (b.hdr) t_seen = std::max(t_seen, b.time);
        ctx.sim_ms = (uint64_t)(t_seen - t_min) * 1000;
        node->Stop(true);
    }
};

void Run(Ctx& ctx)
{
    Sim s(ctx);
    s.Run();
}

Engine MakeEngine()
{
    Engine e;
    e.prop = "C57";
    e.name = "nodesim/assumevalid";
    e.level = "exploration";
    e.gen = Gen;
    e.run = Run;
    e.describe = Describe;
    e.chunk = 1;
    e.quick_runs = 900;
    e.thorough_runs = 22000;
    e.quick_budget_s = 50;
    e.thorough_budget_s = 900;
    e.rule = "per run: a generated regtest block tree (main branch of probe_height+2017..2060 coinbase-only blocks, exactly one 'probe' block at height 101-280 that spends a mature "
             "P2WPKH/P2TR/P2PKH/P2SH-P2WPKH/P2WSH coinbase with a corrupted, wrong-key or stripped signature; optional competing branch forking below or above the probe, 1-2100 blocks) "
             "and a real node started with -assumevalid (descendant of the probe / the probe / an ancestor / a block of the sibling branch / a hash not in the tree / a header announced too late / none) "
             "and -minimumchainwork (none, equal to, 1-2 units below/above the work of the header that is best when the probe arrives). Operations: announce headers of a branch up to a height, "
             "deliver blocks of a branch up to a height (ascending, lowest last, descending), in generated orders so that the probe is buried by 0, 1-60, ~1008, 2015, 2016, 2017, 2018+ blocks "
             "under the best header, with the competing branch's headers announced before or after, conditions broken at first and repaired before or after the probe's block, and reorgs to the "
             "competing branch and back (probe re-connected under new conditions). Oracle after every call into the node: whenever the probe becomes part of the active chain or BlockChecked "
             "reports it valid, the model (own tree, own work arithmetic, own record of announced headers) must find all five conditions of the statement true at that moment. "
             "non-trivial = the node tried to connect the probe at least once; distinct = distinct fingerprints of (announced/delivered frontiers relative to the probe, failing-condition mask, "
             "probe state, best-header height, assumevalid kind, minimumchainwork margin).";
    e.real_components = {"ChainstateManager/Chainstate: ProcessNewBlockHeaders, ProcessNewBlock, ActivateBestChain, ConnectBlock incl. the script_check_reason computation (validation.cpp)",
                         "CBlockIndex tree, m_best_header maintenance, GetBlockProofEquivalentTime/GetBlockProof (chain.cpp, blockstorage.cpp)", "script interpreter + signature/script caches",
                         "BlockManager flat files, coins DB (in-memory LevelDB env)"};
    e.stub_components = {"peers (headers/blocks handed to ProcessNewBlockHeaders/ProcessNewBlock in generated order, force_processing=true)", "wall clock (mock time fixed after the latest block timestamp)",
                         "ValidationSignals runner (immediate)", "script-check worker threads (0)"};
    e.assumptions = {"the probe's script is invalid by construction (generator's signing code corrupts the signature / uses another key / strips the witness) and the probe block has no other defect; "
                     "a rejection of the probe for any non-script reason is reported as a harness error",
                     "with several known headers of equal maximal work the statement's 'best known header chain' is ambiguous: the model accepts a skip if the probe lies under any of them",
                     "'more than two weeks of work' = (work(best header) - work(probe)) * 600 s / work of the best header's own block > 1 209 600 s; block work = floor(2^256/(target+1))",
                     "no assumed-valid block configured is treated as 'no block may be skipped'",
                     "one-directional: a node that verifies scripts although all conditions hold is legal and only counted (probe checked_although_all_conditions_hold)"};
    e.expected_probes = {"probe_attempted", "skip_taken_all_conditions_hold", "skip_at_burial_exactly_2017", "skip_with_min_work_equal_best_header_work", "skip_av_is_probe_itself",
                         "reject_within_two_weeks", "reject_at_burial_exactly_2016", "reject_at_burial_exactly_2015", "reject_block_is_its_own_best_header", "reject_av_header_unknown",
                         "reject_av_header_not_yet_announced", "reject_not_ancestor_of_av", "reject_av_on_sibling_branch", "reject_av_is_ancestor_of_probe", "reject_not_on_best_header_chain",
                         "reject_below_min_chain_work", "reject_min_work_just_above_best_header", "reject_no_assumevalid_configured", "reject_with_single_condition_broken",
                         "probe_reconnected_after_reorg", "reject_on_reconnect_after_reorg", "blocks_out_of_order", "headers_first_competing"};
    return e;
}
Engine g_engine = MakeEngine();
SIM_REGISTER_ENGINE(g_engine);

} // namespace
