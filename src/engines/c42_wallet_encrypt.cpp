// C42 — wallet encryption protects keys.
// crashsim on walletsim: a real descriptor CWallet on a production SQLite database (synchronous=FULL, rollback journal) whose
// wallet directory lives under the simfs root, attached to a genesis-only SimNode. Every private key, extended key and seed of the
// wallet is chosen by the harness (imported descriptors / HD master key derived from the plan), so the harness knows every secret
// byte string that must not survive encryption, and knows - from its own derivation of the scriptPubKeys - which outputs the wallet
// must be able to sign for.
//   workload: address/label/top-up churn, EncryptWallet(passphrase: empty, 1 char, typical, long, UTF-8, raw bytes with NUL), Lock,
//             Unlock (right / wrong: one byte more, one less, one bit flipped, unrelated, a previous passphrase, a refused new one,
//             cut at the NUL, empty), ChangeWalletPassphrase (right / wrong old passphrase), SignTransaction attempts for the original
//             keys and for addresses handed out later, clean unload/load.
//   faults:   the I/O log of the EncryptWallet call (encryption transaction, new-descriptor transaction, VACUUM rewrite) is cut at
//             seeded or at every index; process-kill and power-loss images (unsynced suffix dropped, optional torn append) are loaded
//             by a second WalletNode.
//   oracle:   see Engine::rule / the comments at each failf.
#include "../core/sim.h"
#include "../nodesim/simnode.h"
#include "../nodesim/walletsim.h"
#include "../simfs/simfs.h"

#include <addresstype.h>
#include <key.h>
#include <key_io.h>
#include <policy/policy.h>
#include <pubkey.h>
#include <script/interpreter.h>
#include <script/script.h>
#include <script/signingprovider.h>
#include <support/allocators/secure.h>
#include <util/strencodings.h>
#include <util/time.h>
#include <wallet/scriptpubkeyman.h>
#include <wallet/sqlite.h>
#include <wallet/wallet.h>
#include <wallet/walletdb.h>

#include <algorithm>
#include <filesystem>
#include <fstream>
#include <map>
#include <optional>
#include <set>

#include <sqlite3.h>

using namespace sim;
using namespace nodesim;

namespace {

enum OpKind { O_NEWADDR = 0, O_LABEL, O_TOPUP, O_ENCRYPT, O_LOCK, O_UNLOCK, O_UNLOCK_WRONG, O_CHANGE, O_CHANGE_WRONG, O_SIGN, O_RELOAD, O_SCAN, O_NOPS, O_CRASH = 100 };

// ---------------------------------------------------------------------------------------------------------------------------
// passphrases

enum PassKind { P_EMPTY = 0, P_ONECHAR, P_TYPICAL, P_LONG, P_UTF8, P_BYTES_NUL, P_SPACES, P_NKINDS };

SecureString MakePass(uint64_t kind, uint64_t seed)
{
    Rng r(mix64(seed, 0x70617373));
    SecureString s;
    auto ascii = [&](size_t n) {
        static const char al[] = "abcdefghijklmnopqrstuvwxyzABCDEFGHIJKLMNOPQRSTUVWXYZ0123456789!#$%&()*+,-./:;<=>?@[]^_{|}~";
        for (size_t i = 0; i < n; ++i) s.push_back(al[r.below(sizeof(al) - 1)]);
    };
    switch (kind % P_NKINDS) {
    case P_EMPTY: break;
    case P_ONECHAR: ascii(1); break;
    case P_TYPICAL: ascii(8 + r.below(16)); break;
    case P_LONG: ascii(200 + r.skewed(0, 6000)); break;
    case P_UTF8: {
        static const char* parts[] = {"p\xc3\xa4ssw\xc3\xb6rd", "\xe5\xaf\x86\xe7\xa0\x81", "\xf0\x9f\x94\x91", "\xd0\xbf\xd0\xb0\xd1\x80\xd0\xbe\xd0\xbb\xd1\x8c", "\xc3\x9f", "e\xcc\x81", "\xef\xbc\xa1"};
        int n = 2 + (int)r.below(4);
        for (int i = 0; i < n; ++i) { s += parts[r.below(7)]; ascii(r.below(3)); }
        break;
    }
    case P_BYTES_NUL: {
        size_t n = 4 + r.below(40);
        for (size_t i = 0; i < n; ++i) s.push_back((char)r.below(256));
        s[1 + r.below(n - 2)] = '\0';
        s[n - 1] = (char)0xff;
        break;
    }
    case P_SPACES: s += "  "; ascii(6 + r.below(8)); s += " \t"; break;
    }
    return s;
}

const char* PassKindName(uint64_t k)
{
    static const char* n[] = {"empty", "one-char", "typical", "long", "utf8", "bytes-with-NUL", "leading/trailing-space"};
    return n[k % P_NKINDS];
}

/** A passphrase that differs from `right`; `hist` = previously valid passphrases and refused new ones. */
SecureString WrongPass(const SecureString& right, const std::vector<SecureString>& hist, uint64_t variant, uint64_t seed, const char** name)
{
    Rng r(mix64(seed, 0x77726f6e67));
    SecureString s = right;
    const char* nm = "";
    switch (variant % 8) {
    case 0: s.push_back('x'); nm = "one-char-more"; break;
    case 1: if (!s.empty()) { s.pop_back(); nm = "one-char-less"; } else { s = "x"; nm = "one-char-more"; } break;
    case 2: if (!s.empty()) { s[r.below(s.size())] ^= (char)(1 << r.below(8)); nm = "one-bit-flipped"; } else { s = " "; nm = "one-char-more"; } break;
    case 3: s = MakePass(2 + r.below(5), r.next()); nm = "unrelated"; break;
    case 4: if (!hist.empty()) { s = hist[r.below(hist.size())]; nm = "earlier-or-refused-passphrase"; } else { s.push_back('\0'); nm = "NUL-appended"; } break;
    case 5: {
        size_t z = s.find('\0');
        if (z != SecureString::npos) { s.resize(z); nm = "cut-at-NUL"; } else { s.push_back('\0'); nm = "NUL-appended"; }
        break;
    }
    case 6: if (!s.empty()) { s.clear(); nm = "empty"; } else { s = "\n"; nm = "one-char-more"; } break;
    case 7: if (!s.empty()) { s = SecureString(s.rbegin(), s.rend()); nm = "reversed"; } else { s = "0"; nm = "one-char-more"; } break;
    }
    if (s == right) { s.push_back('~'); nm = "one-char-more"; }
    if (name) *name = nm;
    return s;
}

// ---------------------------------------------------------------------------------------------------------------------------
// key book: what the harness knows about the wallet's keys

struct Pattern {
    std::string what;                 //!< "raw private key", "hex private key", "WIF", "xprv", "seed", ...
    std::vector<unsigned char> bytes;
    bool stored{false};               //!< the unencrypted wallet stores this byte string (raw form of a root key): must be FOUND before encryption
};
struct Target {
    CScript spk;
    std::string label;
};
struct ImportSpec {
    std::string text;                 //!< descriptor with private keys
    bool ranged{false};
    bool can_be_active{false};
    int range_end{1};
    bool has_priv{true};
};

enum ImportKind { K_WPKH_WIF = 0, K_PKH_WIF, K_SHWPKH_WIF, K_TR_WIF, K_WPKH_XPRV, K_TR_XPRV_HARD, K_WSH_MULTI, K_PKH_XPRV_HARD, K_WATCH_XPUB, K_NKINDS };
constexpr uint32_t H = 0x80000000u;

struct KeyBook {
    std::vector<Pattern> patterns;
    std::vector<Target> targets;
    std::vector<ImportSpec> imports;
    CExtKey hd_master;
    bool hd{false};

    static void PutBytes(std::vector<Pattern>& out, const std::string& what, const unsigned char* p, size_t n, bool stored)
    {
        out.push_back({what, std::vector<unsigned char>(p, p + n), stored});
    }
    static void PutStr(std::vector<Pattern>& out, const std::string& what, const std::string& s)
    {
        out.push_back({what, std::vector<unsigned char>(s.begin(), s.end()), false});
    }
    void AddKey(const CKey& k, bool stored, const std::string& who)
    {
        const unsigned char* p = UCharCast(k.begin());
        PutBytes(patterns, "raw private key (" + who + ")", p, 32, stored);
        std::string hex = HexStr(std::span<const unsigned char>(p, 32));
        PutStr(patterns, "hex private key (" + who + ")", hex);
        std::string up = hex;
        for (auto& c : up) c = (char)toupper((unsigned char)c);
        PutStr(patterns, "HEX private key (" + who + ")", up);
        PutStr(patterns, "WIF private key (" + who + ")", EncodeSecret(k));
    }
    void AddSeed(const unsigned char* seed, size_t n, const std::string& who)
    {
        PutBytes(patterns, "raw seed (" + who + ")", seed, n, false);
        PutStr(patterns, "hex seed (" + who + ")", HexStr(std::span<const unsigned char>(seed, n)));
    }
    void AddExt(const CExtKey& e, bool stored, const std::string& who)
    {
        AddKey(e.key, stored, who);
        PutStr(patterns, "xprv string (" + who + ")", EncodeExtKey(e));
    }

    static CKey KeyFrom(Rng& r)
    {
        for (;;) {
            unsigned char b[32];
            r.fill(b, 32);
            CKey k;
            k.Set(b, b + 32, /*fCompressedIn=*/true);
            if (k.IsValid()) return k;
        }
    }
    static CExtKey ExtFrom(Rng& r, unsigned char seed_out[32])
    {
        r.fill(seed_out, 32);
        CExtKey e;
        e.SetSeed(std::span<const std::byte>((const std::byte*)seed_out, 32));
        return e;
    }
    static CExtKey Derive(CExtKey k, std::initializer_list<uint32_t> path)
    {
        for (uint32_t p : path) {
            CExtKey c;
            if (!k.Derive(c, p)) throw std::runtime_error("BIP32 derivation failed");
            k = c;
        }
        return k;
    }
    static CScript SpkWpkh(const CPubKey& p) { return GetScriptForDestination(WitnessV0KeyHash(p)); }
    static CScript SpkPkh(const CPubKey& p) { return GetScriptForDestination(PKHash(p)); }
    static CScript SpkShWpkh(const CPubKey& p) { return GetScriptForDestination(ScriptHash(SpkWpkh(p))); }
    static CScript SpkTr(const CPubKey& p)
    {
        TaprootBuilder b;
        b.Finalize(XOnlyPubKey(p));
        return GetScriptForDestination(b.GetOutput());
    }

    /** One imported descriptor with harness-chosen keys. */
    void AddImport(int kind, uint64_t seed, int idx)
    {
        Rng r(mix64(seed, 0x696d70 + (uint64_t)idx * 977));
        ImportSpec sp;
        const std::string who = "import#" + std::to_string(idx);
        auto single = [&](const char* pre, const char* post, CScript (*mk)(const CPubKey&)) {
            CKey k = KeyFrom(r);
            AddKey(k, true, who);
            sp.text = std::string(pre) + EncodeSecret(k) + post;
            targets.push_back({mk(k.GetPubKey()), who});
        };
        auto ranged = [&](const char* pre, const std::string& path_text, std::initializer_list<uint32_t> path, const char* post, CScript (*mk)(const CPubKey&)) {
            unsigned char seed32[32];
            CExtKey e = ExtFrom(r, seed32);
            AddExt(e, true, who);
            AddSeed(seed32, 32, who);
            sp.ranged = true;
            sp.can_be_active = true;
            sp.range_end = 2 + (int)r.below(4);
            sp.text = std::string(pre) + EncodeExtKey(e) + path_text + "/*" + post;
            CExtKey base = Derive(e, path);
            for (int i = 0; i < std::min(sp.range_end, 3); ++i) {
                CExtKey c = Derive(base, {(uint32_t)i});
                AddKey(c.key, false, who + " child " + std::to_string(i));
                targets.push_back({mk(c.key.GetPubKey()), who + "/" + std::to_string(i)});
            }
        };
        switch (kind % K_NKINDS) {
        case K_WPKH_WIF: single("wpkh(", ")", SpkWpkh); break;
        case K_PKH_WIF: single("pkh(", ")", SpkPkh); break;
        case K_SHWPKH_WIF: single("sh(wpkh(", "))", SpkShWpkh); break;
        case K_TR_WIF: single("tr(", ")", SpkTr); break;
        case K_WPKH_XPRV: ranged("wpkh(", "/0", {0}, ")", SpkWpkh); break;
        case K_TR_XPRV_HARD: ranged("tr(", "/86h/1h/0h/0", {86 | H, 1 | H, 0 | H, 0}, ")", SpkTr); break;
        case K_PKH_XPRV_HARD: ranged("pkh(", "/44h/1h/0h/1", {44 | H, 1 | H, 0 | H, 1}, ")", SpkPkh); break;
        case K_WSH_MULTI: {
            CKey a = KeyFrom(r), b = KeyFrom(r);
            AddKey(a, true, who + " key A");
            AddKey(b, true, who + " key B");
            sp.text = "wsh(multi(2," + EncodeSecret(a) + "," + EncodeSecret(b) + "))";
            CScript ws = CScript() << OP_2 << ToByteVector(a.GetPubKey()) << ToByteVector(b.GetPubKey()) << OP_2 << OP_CHECKMULTISIG;
            targets.push_back({GetScriptForDestination(WitnessV0ScriptHash(ws)), who});
            break;
        }
        case K_WATCH_XPUB: {
            // no private key in the wallet: a descriptor manager without keys next to ones with keys (the private half is still a
            // secret the harness knows; it must not appear anywhere, before or after)
            unsigned char seed32[32];
            CExtKey e = ExtFrom(r, seed32);
            AddExt(e, false, who + " (watch-only, never given to the wallet)");
            sp.ranged = true;
            sp.range_end = 2;
            sp.has_priv = false;
            sp.text = "wpkh(" + EncodeExtPubKey(e.Neuter()) + "/0/*)";
            break;
        }
        }
        imports.push_back(sp);
    }

    /** The standard 8 HD descriptors over a master key derived from a 32-byte seed (m/{44,49,84,86}h/1h/0h/{0,1}/i). */
    void AddHd(uint64_t seed, int per_chain)
    {
        Rng r(mix64(seed, 0x68646d));
        unsigned char seed32[32];
        hd_master = ExtFrom(r, seed32);
        hd = true;
        AddExt(hd_master, true, "HD master");
        AddSeed(seed32, 32, "HD master");
        struct Ch { uint32_t purpose; CScript (*mk)(const CPubKey&); const char* n; };
        static const Ch chains[] = {{44, SpkPkh, "pkh"}, {49, SpkShWpkh, "sh(wpkh)"}, {84, SpkWpkh, "wpkh"}, {86, SpkTr, "tr"}};
        for (auto& c : chains)
            for (uint32_t internal = 0; internal < 2; ++internal) {
                CExtKey base = Derive(hd_master, {c.purpose | H, 1 | H, 0 | H, internal});
                for (int i = 0; i < per_chain; ++i) {
                    CExtKey k = Derive(base, {(uint32_t)i});
                    std::string who = std::string("HD ") + c.n + "/" + std::to_string(internal) + "/" + std::to_string(i);
                    AddKey(k.key, false, who);
                    targets.push_back({c.mk(k.key.GetPubKey()), who});
                }
            }
    }
};

// ---------------------------------------------------------------------------------------------------------------------------

std::string Describe(const Op& op)
{
    char b[256];
    switch (op.kind) {
    case O_NEWADDR: snprintf(b, sizeof b, "getnewaddress(type#%ld)", (long)op.arg(0)); break;
    case O_LABEL: snprintf(b, sizeof b, "setlabel(target#%ld, seed=%ld)", (long)op.arg(0), (long)op.arg(1)); break;
    case O_TOPUP: snprintf(b, sizeof b, "keypoolrefill(+%ld)", (long)op.arg(0)); break;
    case O_ENCRYPT: snprintf(b, sizeof b, "EncryptWallet(passphrase kind=%s seed=%ld)", PassKindName((uint64_t)op.arg(0)), (long)op.arg(1)); break;
    case O_LOCK: snprintf(b, sizeof b, "Lock"); break;
    case O_UNLOCK: snprintf(b, sizeof b, "Unlock(current passphrase) then sign %s", (op.arg(0) & 1) ? "for every known key" : "for one known key"); break;
    case O_UNLOCK_WRONG: snprintf(b, sizeof b, "Lock, Unlock(WRONG passphrase variant#%ld seed=%ld) then try to sign", (long)op.arg(0), (long)op.arg(1)); break;
    case O_CHANGE: snprintf(b, sizeof b, "ChangeWalletPassphrase(current -> kind=%s seed=%ld)", PassKindName((uint64_t)op.arg(0)), (long)op.arg(1)); break;
    case O_CHANGE_WRONG: snprintf(b, sizeof b, "ChangeWalletPassphrase(WRONG old variant#%ld seed=%ld -> kind=%s seed=%ld)", (long)op.arg(2), (long)op.arg(3), PassKindName((uint64_t)op.arg(0)), (long)op.arg(1)); break;
    case O_SIGN: snprintf(b, sizeof b, "SignTransaction(%s, target#%ld, tx seed=%ld)", (op.arg(0) & 1) ? "every known key" : "one known key", (long)op.arg(1), (long)op.arg(2)); break;
    case O_RELOAD: snprintf(b, sizeof b, "unloadwallet + loadwallet"); break;
    case O_SCAN: snprintf(b, sizeof b, "byte-scan the wallet directory for known secrets"); break;
    case O_CRASH: {
        static const char* sel[] = {"uniform", "sync/unlink/trunc boundary", "segment-relative", "burst-edge"};
        static const char* mode[] = {"kill", "powerloss(j=last sync)", "powerloss(j seeded)", "kill"};
        snprintf(b, sizeof b, "FAULT crash inside EncryptWallet at io[%s#%ld] %s torn=%ld", sel[op.mod(0, 4)], (long)op.arg(1), mode[op.mod(2, 4)], (long)(op.arg(4) & 1));
        break;
    }
    default: snprintf(b, sizeof b, "?");
    }
    return b;
}

Plan Gen(uint64_t seed, Tier tier)
{
    Rng rng(seed);
    Plan p;
    auto R64 = [&] { return (int64_t)(rng.next() >> 16); };
    p.knobs["key_seed"] = R64();
    // 0: blank wallet + 1-8 imported descriptors; 1: the standard HD set over a plan-derived master key; 2: HD set + 1-3 imports
    int mode = (int)rng.pick({4, 4, 2});
    p.knobs["mode"] = mode;
    p.knobs["nimports"] = mode == 0 ? rng.range(1, 8) : mode == 2 ? rng.range(1, 3) : 0;
    p.knobs["import_kinds"] = R64();
    p.knobs["keypool"] = rng.range(1, 4);
    p.knobs["activate_imports"] = rng.chance(2, 3);
    // SQLite build flavour: -1 = as linked (Debian: SQLITE_SECURE_DELETE on), 0 = secure_delete off (Bitcoin Core depends/release builds), 1 = on
    p.knobs["sqlite_secure_delete"] = (int64_t)rng.pick({3, 2, 1}) - 1;
    std::vector<uint32_t> pre(O_NOPS, 0), post(O_NOPS, 0);
    pre[O_NEWADDR] = 6; pre[O_LABEL] = 3; pre[O_TOPUP] = 2; pre[O_SIGN] = 4; pre[O_RELOAD] = 2; pre[O_LOCK] = 1; pre[O_UNLOCK] = 1; pre[O_SCAN] = 1;
    post[O_NEWADDR] = 4; post[O_LABEL] = 1; post[O_TOPUP] = 1; post[O_LOCK] = 8; post[O_UNLOCK] = 14; post[O_UNLOCK_WRONG] = 12; post[O_CHANGE] = 7; post[O_CHANGE_WRONG] = 4;
    post[O_SIGN] = 14; post[O_RELOAD] = 5; post[O_SCAN] = 3;
    if (rng.chance(1, 4)) post[O_RELOAD] = 0;
    if (rng.chance(1, 4)) post[O_CHANGE] = 14;
    auto gen = [&](int kind) {
        Op op;
        op.kind = kind;
        switch (kind) {
        case O_NEWADDR: op.a = {(int64_t)rng.below(4)}; break;
        case O_LABEL: op.a = {(int64_t)rng.below(64), R64()}; break;
        case O_TOPUP: op.a = {(int64_t)rng.range(1, 4)}; break;
        case O_ENCRYPT: op.a = {(int64_t)rng.pick({1, 2, 5, 4, 4, 3, 2}), R64()}; break;
        case O_UNLOCK: op.a = {(int64_t)rng.below(4), R64()}; break;
        case O_UNLOCK_WRONG: op.a = {(int64_t)rng.below(8), R64(), (int64_t)rng.below(4)}; break;
        case O_CHANGE: op.a = {(int64_t)rng.pick({1, 2, 5, 3, 4, 3, 2}), R64()}; break;
        case O_CHANGE_WRONG: op.a = {(int64_t)rng.below(P_NKINDS), R64(), (int64_t)rng.below(8), R64()}; break;
        case O_SIGN: op.a = {(int64_t)rng.below(4), (int64_t)rng.below(64), R64()}; break;
        default: break;
        }
        return op;
    };
    int npre = (int)rng.skewed(0, 6);
    for (int i = 0; i < npre; ++i) p.ops.push_back(gen((int)rng.pick(pre)));
    if (!rng.chance(1, 25)) p.ops.push_back(gen(O_ENCRYPT));
    int npost = (int)rng.range(6, tier == Tier::THOROUGH ? 40 : 24);
    for (int i = 0; i < npost; ++i) p.ops.push_back(gen((int)rng.pick(post)));
    // crash points inside the EncryptWallet call
    bool enumerate = tier == Tier::THOROUGH ? rng.chance(1, 3) : rng.chance(1, 12);
    p.knobs["enumerate"] = enumerate;
    if (!enumerate && !rng.chance(1, 10)) {
        int ncrash = (int)rng.range(8, tier == Tier::THOROUGH ? 60 : 30);
        for (int i = 0; i < ncrash; ++i) {
            Op op;
            op.kind = O_CRASH;
            op.a = {(int64_t)rng.pick({3, 4, 4, 2}), R64(), (int64_t)rng.pick({4, 4, 3, 0}), R64(), (int64_t)rng.below(4), R64()};
            p.ops.push_back(op);
        }
    }
    return p;
}

// ---------------------------------------------------------------------------------------------------------------------------

enum class SignRes { VALID, REFUSED, INVALID_SIG, VALID_BUT_REPORTED_INCOMPLETE };

struct EncSim {
    Ctx& ctx;
    std::unique_ptr<SimNode> node;
    std::unique_ptr<WalletNode> wn;
    std::shared_ptr<wallet::CWallet> w; // declared after wn: released first when a violation unwinds
    const std::string wname{"w0"};
    std::string live_root;
    KeyBook kb;
    int keypool{2};

    // model
    bool encrypted{false};
    bool locked{false};
    SecureString pass;                     //!< current passphrase
    SecureString enc_pass;                 //!< the one given to EncryptWallet
    std::vector<SecureString> not_valid;   //!< earlier passphrases and refused new ones (all != pass)
    int pass_gen{0};
    int reloads_since_enc{0};
    std::vector<Target> handed_out;        //!< addresses the wallet handed out (keys unknown to the harness)
    size_t handed_out_before_enc{0};       //!< how many of them before EncryptWallet (those exist in every crash image of the window)
    size_t k0{0}, k1{0};                   //!< I/O log window of the EncryptWallet call
    bool window{false};
    int images{0};
    uint64_t sign_serial{0};

    explicit EncSim(Ctx& c) : ctx(c) {}

    uint64_t Fingerprint() const
    {
        uint64_t h = mix64(encrypted * 2 + locked, (uint64_t)pass_gen * 131 + reloads_since_enc);
        h = mix64(h, handed_out.size() * 7 + kb.targets.size());
        h = mix64(h, pass.size() > 64 ? 64 : pass.size());
        return h;
    }

    // ------------------------------------------------------------ signing ------------------------------------------------
    SignRes TrySign(wallet::CWallet& wal, const CScript& spk, uint64_t txseed)
    {
        Rng r(mix64(txseed, 0x7369676e));
        CMutableTransaction mtx;
        mtx.version = 2;
        uint256 h;
        r.fill(h.begin(), 32);
        COutPoint prev(Txid::FromUint256(h), (uint32_t)r.below(3));
        mtx.vin.emplace_back(prev, CScript(), 0xfffffffdu);
        const CAmount amount = 100000 + (CAmount)r.below(900000);
        mtx.vout.emplace_back(amount - 1500, CScript() << OP_0 << std::vector<unsigned char>(20, (unsigned char)r.below(256)));
        mtx.nLockTime = (uint32_t)r.below(100);
        std::map<COutPoint, Coin> coins;
        coins[prev] = Coin(CTxOut(amount, spk), 1, false);
        std::map<int, bilingual_str> errs;
        bool complete = wal.SignTransaction(mtx, coins, SIGHASH_DEFAULT, errs);
        PrecomputedTransactionData txdata;
        txdata.Init(mtx, std::vector<CTxOut>{CTxOut(amount, spk)}, /*force=*/true);
        ScriptError serr;
        bool verifies = VerifyScript(mtx.vin[0].scriptSig, spk, &mtx.vin[0].scriptWitness, STANDARD_SCRIPT_VERIFY_FLAGS,
                                     MutableTransactionSignatureChecker(&mtx, 0, amount, txdata, MissingDataBehavior::FAIL), &serr);
        if (complete && verifies) return SignRes::VALID;
        if (!complete && !verifies) return SignRes::REFUSED;
        if (complete) return SignRes::INVALID_SIG;
        return SignRes::VALID_BUT_REPORTED_INCOMPLETE;
    }

    /** Sign for the selected targets and compare with what the state demands. `ctx_cls` names the situation for the violation class. */
    void CheckSigning(wallet::CWallet& wal, bool expect_sign, bool all, uint64_t sel, uint64_t seed, const char* cls_cannot, const char* cls_signs, const std::string& where, size_t max_handed_out = (size_t)-1)
    {
        std::vector<const Target*> ts;
        for (auto& t : kb.targets) ts.push_back(&t);
        size_t nknown = ts.size();
        for (size_t i = 0; i < handed_out.size() && i < max_handed_out; ++i) ts.push_back(&handed_out[i]);
        if (ts.empty()) return;
        size_t from = all ? 0 : sel % ts.size(), to = all ? ts.size() : from + 1;
        for (size_t i = from; i < to; ++i) {
            SignRes r = TrySign(wal, ts[i]->spk, mix64(seed, ++sign_serial));
            const char* kind = i < nknown ? "harness-chosen key" : "address handed out by the wallet";
            if (expect_sign) {
                if (r == SignRes::REFUSED || r == SignRes::VALID_BUT_REPORTED_INCOMPLETE)
                    ctx.failf(cls_cannot, "%s: SignTransaction %s for %s [%s]", where.c_str(), r == SignRes::REFUSED ? "produced no valid signature" : "reported an incomplete transaction although the input verifies", kind,
                              i < nknown ? ts[i]->label.c_str() : "-");
                if (r == SignRes::INVALID_SIG)
                    ctx.failf("signature-does-not-verify", "%s: SignTransaction reported success for %s [%s] but the input does not verify against the scriptPubKey derived from the known key", where.c_str(), kind,
                              i < nknown ? ts[i]->label.c_str() : "-");
            } else if (r != SignRes::REFUSED) {
                ctx.failf(cls_signs, "%s: SignTransaction %s for %s [%s]", where.c_str(), r == SignRes::VALID ? "produced a valid signature" : "did not refuse", kind, i < nknown ? ts[i]->label.c_str() : "-");
            }
        }
    }
    void CheckSigningLive(bool all, uint64_t sel, uint64_t seed, const std::string& where)
    {
        const bool expect = !encrypted || !locked;
        const char* cannot = !encrypted ? "sim-unencrypted-wallet-cannot-sign" : pass_gen > 0 ? "key-not-restored-by-unlock-after-passphrase-change" : reloads_since_enc > 0 ? "key-not-restored-by-unlock-after-reload" : "key-not-restored-by-unlock";
        CheckSigning(*w, expect, all, sel, seed, cannot, "signs-while-locked", where);
        if (expect && encrypted) ctx.probe(pass_gen > 0 ? "sign_ok_after_passphrase_change" : "sign_ok_after_unlock");
        else if (expect) ctx.probe("sign_ok_unencrypted");
        else ctx.probe("sign_refused_locked");
    }

    // ------------------------------------------------------------ byte scan ----------------------------------------------
    struct Hit { std::string file; std::string what; size_t off; bool stored; bool beyond_db_end{false}; };
    static std::vector<unsigned char> Slurp(const std::filesystem::path& p)
    {
        std::ifstream f(p, std::ios::binary);
        return std::vector<unsigned char>((std::istreambuf_iterator<char>(f)), std::istreambuf_iterator<char>());
    }
    /** All occurrences (first per pattern and file) of known secrets in the regular files under `dir`. */
    std::vector<Hit> Scan(const std::string& dir, size_t* nfiles = nullptr, size_t* nbytes = nullptr)
    {
        std::vector<Hit> hits;
        std::vector<std::filesystem::path> files;
        std::error_code ec;
        for (auto it = std::filesystem::recursive_directory_iterator(dir, ec); !ec && it != std::filesystem::recursive_directory_iterator(); it.increment(ec))
            if (it->is_regular_file(ec)) files.push_back(it->path());
        std::sort(files.begin(), files.end());
        if (nfiles) *nfiles = files.size();
        for (auto& f : files) {
            std::vector<unsigned char> data = Slurp(f);
            if (nbytes) *nbytes += data.size();
            // logical end of an SQLite database file: page size (header bytes 16-17) x page count (bytes 28-31); bytes of the file
            // beyond it are not part of the database (left behind when a shrinking truncate did not reach the disk)
            size_t logical_end = data.size();
            if (f.filename() == "wallet.dat" && data.size() >= 100 && memcmp(data.data(), "SQLite format 3", 16) == 0) {
                size_t ps = ((size_t)data[16] << 8) | data[17];
                if (ps == 1) ps = 65536;
                size_t pages = ((size_t)data[28] << 24) | ((size_t)data[29] << 16) | ((size_t)data[30] << 8) | data[31];
                if (ps >= 512 && pages > 0 && ps * pages < data.size()) logical_end = ps * pages;
            }
            for (auto& pt : kb.patterns) {
                auto it = std::search(data.begin(), data.end(), pt.bytes.begin(), pt.bytes.end());
                if (it != data.end()) hits.push_back({f.filename().string(), pt.what, (size_t)(it - data.begin()), pt.stored, (size_t)(it - data.begin()) >= logical_end});
            }
        }
        return hits;
    }
    /** The "no plaintext secret after a completed encryption" clause on a directory (live or a materialised image). */
    void DemandClean(const std::string& dir, const std::string& where, bool powerloss_image = false)
    {
        size_t nfiles = 0, nbytes = 0;
        std::vector<Hit> hits = Scan(dir, &nfiles, &nbytes);
        if (nfiles == 0) ctx.failf("sim-scan-found-no-files", "%s: %s", where.c_str(), dir.c_str());
        const Hit* first_other = nullptr;
        const Hit* first_tail = nullptr;
        for (auto& h : hits) {
            if (h.file == "wallet.dat-journal") continue;
            if (h.file == "wallet.dat" && h.beyond_db_end && powerloss_image) { if (!first_tail) first_tail = &h; continue; }
            if (!first_other) first_other = &h;
        }
        ctx.evf("scan %s: files=%zu %s", where.c_str(), nfiles, hits.empty() ? "clean" : first_other ? "SECRET FOUND" : first_tail ? "secret found beyond the logical end of the database file" : "secret found in the journal only");
        if (hits.empty()) { ctx.probe("scan_after_encryption_clean"); return; }
        char detail[600];
        if (first_other) {
            const Hit& h = *first_other;
            snprintf(detail, sizeof detail, "%s: %s found in %s at offset %zu (%zu hit(s) in total; the secret bytes are not printed)", where.c_str(), h.what.c_str(), h.file.c_str(), h.off, hits.size());
            ctx.fail(h.file == "wallet.dat" ? "plaintext-secret-in-database-file-after-encryption" : "plaintext-secret-in-leftover-file-after-encryption", detail);
        }
        const bool sd_off = ctx.knob("sqlite_secure_delete", -1) == 0;
        if (first_tail) {
            // Power loss after EncryptWallet returned: SQLite shrinks the file after the VACUUM commit's last fsync; when that truncate
            // is lost the old pages stay behind the logical end of the database. Own class, deferred like the journal one.
            const Hit& h = *first_tail;
            snprintf(detail, sizeof detail, "%s: %s found in %s at offset %zu, beyond the logical end of the database (the shrinking truncate after VACUUM was not yet durable)", where.c_str(), h.what.c_str(), h.file.c_str(), h.off);
            ctx.probe("plaintext_secret_in_untruncated_tail_after_power_loss");
            if (!deferred || !deferred_is_tail) deferred = Violation{sd_off ? "plaintext-secret-in-untruncated-database-tail-after-power-loss-sqlite-secure-delete-off" : "plaintext-secret-in-untruncated-database-tail-after-power-loss", detail};
            deferred_is_tail = true;
            return;
        }
        // Secrets in the rollback journal only (SQLite keeps the journal file, header zeroed, while the connection holds its
        // exclusive lock: before-images of the rewritten pages stay readable in it). Own class, per SQLite flavour, and deferred to
        // the end of the run so that every other clause is still evaluated.
        const Hit& h = hits[0];
        snprintf(detail, sizeof detail, "%s: %s found in %s at offset %zu (%zu hit(s), all in the journal file; the secret bytes are not printed)", where.c_str(), h.what.c_str(), h.file.c_str(), h.off, hits.size());
        ctx.probe("plaintext_secret_in_journal_after_encryption");
        if (!deferred) deferred = Violation{sd_off ? "plaintext-secret-in-journal-file-after-encryption-sqlite-secure-delete-off" : "plaintext-secret-in-journal-file-after-encryption", detail};
    }
    std::optional<Violation> deferred; //!< reported at the end of the run; the (rarer) untruncated-tail class takes precedence over the journal class
    bool deferred_is_tail{false};

    // ------------------------------------------------------------ life cycle ---------------------------------------------
    WalletNodeOpts WnOpts(const std::string& walletdir) const
    {
        WalletNodeOpts wo;
        wo.walletdir = walletdir;
        wo.keypool = keypool;
        wo.unsafe_sync = false; // production durability
        wo.broadcast = false;
        return wo;
    }

    void Setup()
    {
        live_root = RunDir() + "/live";
        fs::create_directories(fs::PathFromString(live_root));
        NodeOpts o;
        o.dir = RunDir() + "/node"; // outside the recorded root: the node's own files are not the subject
        o.make_runner = &MakeDeferredTaskRunner;
        o.mempool_check_ratio = 0;
        node = std::make_unique<SimNode>(o);
        if (!node->Start()) ctx.failf("sim-node-start-failed", "%s", node->last_error.c_str());
        simfs::Arm(live_root);
        keypool = (int)std::clamp<int64_t>(ctx.knob("keypool", 2), 1, 8);
        wn = std::make_unique<WalletNode>(*node, WnOpts(live_root + "/wallets"));

        const uint64_t key_seed = (uint64_t)ctx.knob("key_seed", 1);
        const int mode = (int)std::clamp<int64_t>(ctx.knob("mode", 0), 0, 2);
        int nimports = (int)std::clamp<int64_t>(ctx.knob("nimports", mode == 1 ? 0 : 2), 0, 8);
        if (mode == 0 && nimports == 0) nimports = 1;
        if (mode != 0) kb.AddHd(key_seed, std::min(keypool, 2));
        uint64_t kinds = (uint64_t)ctx.knob("import_kinds", 0);
        bool any_priv = mode != 0;
        for (int i = 0; i < nimports; ++i) {
            int kind = (int)(mix64(kinds, i) % K_NKINDS);
            if (i == nimports - 1 && !any_priv && kind == K_WATCH_XPUB) kind = K_WPKH_WIF; // at least one private key to protect
            kb.AddImport(kind, key_seed, i);
            if (kb.imports.back().has_priv) any_priv = true;
        }

        WalletCreateOpts co;
        co.blank = true; // never the production random seed: the harness supplies every key
        w = wn->CreateWallet(wname, co);
        if (!w) ctx.failf("sim-wallet-create-failed", "%s", wn->last_error.c_str());
        ApplySqliteKnob();
        if (mode != 0) {
            // what WalletNode::CreateWallet / CWallet::SetupOwnDescriptorScriptPubKeyMans do, with the harness's master key
            LOCK(w->cs_wallet);
            bool ok = wallet::RunWithinTxn(w->GetDatabase(), "setup descriptors", [&](wallet::WalletBatch& batch) EXCLUSIVE_LOCKS_REQUIRED(w->cs_wallet) {
                w->SetupDescriptorScriptPubKeyMans(batch, kb.hd_master);
                return true;
            });
            if (!ok) ctx.failf("sim-wallet-create-failed", "descriptor setup transaction failed");
        }
        const bool activate = ctx.knob("activate_imports", 1) != 0;
        int64_t now = GetTime();
        for (size_t i = 0; i < kb.imports.size(); ++i) {
            const ImportSpec& sp = kb.imports[i];
            bool ok = wn->ImportDescriptor(*w, sp.text, /*active=*/activate && sp.can_be_active && mode == 0, /*internal=*/false, 0, sp.range_end, 0, now, sp.ranged ? "" : "imp" + std::to_string(i));
            if (!ok) ctx.failf("sim-import-failed", "import #%zu: %s", i, wn->last_error.c_str());
        }
        w->TopUpKeyPool();
        ctx.evf("setup mode=%d imports=%zu targets=%zu patterns=%zu keypool=%d blank_flag=%d", mode, kb.imports.size(), kb.targets.size(), kb.patterns.size(), keypool, (int)w->IsWalletFlagSet(wallet::WALLET_FLAG_BLANK_WALLET));
        // harness self-check: the unencrypted wallet signs for every script the harness derived from its own keys
        CheckSigning(*w, true, true, 0, 1, "sim-unencrypted-wallet-cannot-sign", "sim", "after setup");
    }

    void Unload()
    {
        if (!w) return;
        wn->UnloadWallet(w);
    }

    /** The SQLite library's build option SQLITE_SECURE_DELETE (overwrite deleted content with zeros) is part of the environment: the
     *  distribution library linked here has it ON, the library of Bitcoin Core's own depends/release builds has it OFF. The knob
     *  selects the behaviour at run time through the equivalent per-connection pragma. */
    void ApplySqliteKnob()
    {
        int64_t sd = ctx.knob("sqlite_secure_delete", -1);
        if (sd < 0 || !w) return;
        auto* db = dynamic_cast<wallet::SQLiteDatabase*>(&w->GetDatabase());
        if (!db || !db->m_db) ctx.failf("sim-not-an-sqlite-wallet", "cannot apply the secure_delete knob");
        int rc = sqlite3_exec(db->m_db, sd ? "PRAGMA secure_delete = ON" : "PRAGMA secure_delete = OFF", nullptr, nullptr, nullptr);
        if (rc != SQLITE_OK) ctx.failf("sim-pragma-failed", "secure_delete: %d", rc);
        ctx.probe(sd ? "sqlite_secure_delete_on" : "sqlite_secure_delete_off");
    }

    // ------------------------------------------------------------ ops ----------------------------------------------------
    void OpEncrypt(const Op& op)
    {
        if (encrypted) { ctx.ev("encrypt: already encrypted (skipped)"); return; }
        SecureString p = MakePass((uint64_t)op.arg(0), (uint64_t)op.arg(1));
        // the scanner must be able to see what it is looking for: before encryption the raw form of every key given to the wallet is in the file
        {
            std::vector<Hit> hits = Scan(live_root);
            size_t stored_found = 0, stored_total = 0;
            std::set<std::string> found;
            for (auto& h : hits)
                if (h.stored && h.file == "wallet.dat") found.insert(h.what);
            for (auto& pt : kb.patterns)
                if (pt.stored) { ++stored_total; if (found.count(pt.what)) ++stored_found; }
            if (stored_found != stored_total) ctx.failf("sim-scanner-blind", "before encryption only %zu of %zu stored private keys are found in wallet.dat", stored_found, stored_total);
            for (auto& h : hits)
                if (!h.stored) ctx.failf("sim-unexpected-secret-form-on-disk", "before encryption: %s in %s", h.what.c_str(), h.file.c_str());
            ctx.probe("plaintext_keys_found_before_encryption", stored_found);
        }
        const size_t a = simfs::LogSize();
        handed_out_before_enc = handed_out.size();
        bool ok = w->EncryptWallet(p);
        const size_t b = simfs::LogSize();
        switch ((uint64_t)op.arg(0) % P_NKINDS) {
        case P_EMPTY: ctx.probe("pass_empty"); break;
        case P_LONG: ctx.probe("pass_long"); break;
        case P_UTF8: ctx.probe("pass_utf8"); break;
        case P_BYTES_NUL: ctx.probe("pass_bytes_with_nul"); break;
        default: break;
        }
        ctx.evf("encrypt kind=%s len=%zu -> %d crypted=%d locked=%d", PassKindName((uint64_t)op.arg(0)), p.size(), (int)ok, (int)w->HasEncryptionKeys(), (int)w->IsLocked());
        if (!ok) {
            // nothing in the statement obliges EncryptWallet to accept every passphrase, but a refusal must leave the wallet unencrypted
            if (w->HasEncryptionKeys()) ctx.failf("encrypt-reported-failure-but-wallet-is-encrypted", "EncryptWallet returned false and the wallet has a master key");
            ctx.probe("encrypt_refused");
            return;
        }
        encrypted = true;
        locked = true; // EncryptWallet leaves the wallet locked
        pass = enc_pass = p;
        k0 = a;
        k1 = b;
        window = true;
        ctx.nontrivial = true;
        ctx.probe("encrypt_completed");
        ctx.probe("encrypt_io_ops", b - a);
        if (!w->HasEncryptionKeys()) ctx.failf("encrypted-wallet-reports-unencrypted", "after EncryptWallet returned true");
        if (!w->IsLocked()) {
            // not demanded by the statement; follow the wallet and lock it so that the model is exact
            ctx.probe("unlocked_after_encrypt");
            w->Lock();
        }
        DemandClean(live_root, "live directory right after EncryptWallet returned");
        CheckSigningLive(true, 0, (uint64_t)op.arg(1), "right after EncryptWallet (locked)");
    }

    void OpUnlock(const Op& op)
    {
        if (!encrypted) { ctx.ev("unlock: not encrypted"); return; }
        bool ok = w->Unlock(pass);
        ctx.evf("unlock right gen=%d -> %d", pass_gen, (int)ok);
        if (!ok) ctx.failf(pass_gen > 0 ? "new-passphrase-rejected-after-change" : reloads_since_enc > 0 ? "correct-passphrase-rejected-after-reload" : "correct-passphrase-rejected", "Unlock with the current passphrase (generation %d, %zu bytes) returned false", pass_gen, pass.size());
        locked = false;
        ctx.probe("unlock_ok");
        CheckSigningLive((op.arg(0) & 1) != 0, (uint64_t)op.arg(1), (uint64_t)op.arg(1), "after Unlock with the correct passphrase");
    }

    void OpUnlockWrong(const Op& op)
    {
        if (!encrypted) { ctx.ev("unlock-wrong: not encrypted"); return; }
        const char* vname = "";
        SecureString wrong = WrongPass(pass, not_valid, (uint64_t)op.arg(0), (uint64_t)op.arg(1), &vname);
        w->Lock();
        locked = true;
        bool ok = false;
        try {
            ok = w->Unlock(wrong);
        } catch (const std::runtime_error& e) {
            // "some keys decrypt but not all": the wallet's own corruption alarm; with a wrong passphrase nothing may decrypt
            ctx.failf("wrong-passphrase-decrypts-some-keys", "Unlock(%s) threw: %s", vname, e.what());
        }
        ctx.evf("unlock wrong(%s) -> %d", vname, (int)ok);
        if (ok) ctx.failf("wrong-passphrase-unlocks", "Unlock with a wrong passphrase (%s; %zu bytes, the right one has %zu) returned true", vname, wrong.size(), pass.size());
        ctx.probe("wrong_passphrase_rejected");
        if (std::string(vname) == "earlier-or-refused-passphrase") ctx.probe("old_passphrase_rejected_after_change");
        CheckSigning(*w, false, (op.arg(2) & 1) != 0, (uint64_t)op.arg(1), (uint64_t)op.arg(1), "", "signs-after-wrong-passphrase", std::string("after Unlock with a wrong passphrase (") + vname + ")");
    }

    void OpChange(const Op& op, bool wrong_old)
    {
        if (!encrypted) { ctx.ev("change: not encrypted"); return; }
        SecureString newp = MakePass((uint64_t)op.arg(0), (uint64_t)op.arg(1));
        if (!wrong_old) {
            bool ok = w->ChangeWalletPassphrase(pass, newp);
            ctx.evf("change right-old -> kind=%s len=%zu : %d", PassKindName((uint64_t)op.arg(0)), newp.size(), (int)ok);
            if (!ok) ctx.failf("passphrase-change-with-correct-old-passphrase-refused", "ChangeWalletPassphrase(current passphrase, %s) returned false", PassKindName((uint64_t)op.arg(0)));
            if (newp != pass) {
                not_valid.push_back(pass);
                not_valid.erase(std::remove(not_valid.begin(), not_valid.end(), newp), not_valid.end());
                pass = newp;
            }
            ++pass_gen;
            ctx.probe("passphrase_changed");
        } else {
            const char* vname = "";
            SecureString wrong = WrongPass(pass, not_valid, (uint64_t)op.arg(2), (uint64_t)op.arg(3), &vname);
            bool ok = false;
            try {
                ok = w->ChangeWalletPassphrase(wrong, newp);
            } catch (const std::runtime_error& e) {
                ctx.failf("wrong-passphrase-decrypts-some-keys", "ChangeWalletPassphrase(%s) threw: %s", vname, e.what());
            }
            ctx.evf("change wrong-old(%s) -> %d", vname, (int)ok);
            if (ok) ctx.failf("wrong-old-passphrase-accepted-for-change", "ChangeWalletPassphrase with a wrong old passphrase (%s) returned true", vname);
            if (newp != pass) not_valid.push_back(newp);
            ctx.probe("passphrase_change_refused_wrong_old");
        }
        // what state ChangeWalletPassphrase leaves the wallet in (it locks first, relocks only if it was locked) is not the statement's business
        w->Lock();
        locked = true;
    }

    void OpNewAddr(const Op& op)
    {
        OutputType t = OUTPUT_TYPES[op.mod(0, OUTPUT_TYPES.size())];
        auto d = wn->NewAddress(*w, t);
        ctx.evf("newaddr type=%d -> %d", (int)op.mod(0, OUTPUT_TYPES.size()), (int)d.has_value());
        if (!d) return;
        CScript spk = WalletNode::ScriptFor(*d);
        for (auto& tg : kb.targets)
            if (tg.spk == spk) return; // one of the harness's own (imported active descriptor)
        handed_out.push_back({spk, "handed out"});
        if (encrypted) ctx.probe("address_from_post_encryption_descriptor");
    }

    void OpLabel(const Op& op)
    {
        if (kb.targets.empty()) return;
        const Target& t = kb.targets[op.mod(0, kb.targets.size())];
        CTxDestination dest = WalletNode::DestFor(t.spk);
        bool ok = w->SetAddressBook(dest, "label-" + std::to_string(op.arg(1) & 0xffff), wallet::AddressPurpose::RECEIVE);
        ctx.evf("label -> %d", (int)ok);
    }

    void OpReload()
    {
        Unload();
        if (encrypted) DemandClean(live_root, "live directory after unloading the encrypted wallet");
        w = wn->LoadWallet(wname);
        ctx.evf("reload -> %d", (int)(w != nullptr));
        if (!w) ctx.failf(encrypted ? "encrypted-wallet-does-not-reload" : "sim-wallet-does-not-reload", "%s", wn->last_error.c_str());
        ApplySqliteKnob();
        if (w->HasEncryptionKeys() != encrypted) ctx.failf("encryption-state-changed-by-reload", "model encrypted=%d, reloaded wallet crypted=%d", (int)encrypted, (int)w->HasEncryptionKeys());
        if (encrypted) {
            if (!w->IsLocked()) ctx.failf("reloaded-encrypted-wallet-is-unlocked", "a freshly loaded encrypted wallet must be locked");
            locked = true;
            ++reloads_since_enc;
            ctx.probe("reload_encrypted");
            DemandClean(live_root, "live directory after reloading the encrypted wallet");
            CheckSigningLive(false, (uint64_t)reloads_since_enc, (uint64_t)reloads_since_enc, "after reload (locked)");
        }
    }

    // ------------------------------------------------------------ crash images -------------------------------------------
    struct ImgResult { bool enc{false}; bool hot_journal{false}; };
    ImgResult Recover(const simfs::CrashSpec& spec, int n)
    {
        const std::string img = RunDir() + "/img" + std::to_string(n);
        simfs::ImageInfo ii;
        if (!simfs::Materialize(spec, img, &ii)) ctx.failf("sim-materialize-failed", "image %d", n);
        ctx.fault(spec.powerloss ? "crash_powerloss" : "crash_kill");
        if (ii.tore) ctx.fault("torn_write");
        if (ii.dropped) ctx.probe("unsynced_ops_dropped", ii.dropped);
        char where[200];
        snprintf(where, sizeof where, "crash at io %zu of EncryptWallet window [%zu,%zu] %s j=%zu torn=%d", spec.k, k0, k1, spec.powerloss ? "powerloss" : "kill", spec.j, (int)ii.tore);
        const bool completed = spec.k >= k1;
        ImgResult res;
        {
            // reach probe: a journal with a non-zero header is "hot" (SQLite rolls it back when the database is opened)
            std::vector<unsigned char> j = Slurp(std::filesystem::path(img) / "wallets" / wname / "wallet.dat-journal");
            static const unsigned char magic[8] = {0xd9, 0xd5, 0x05, 0xf9, 0x20, 0xa1, 0x63, 0xd7};
            if (j.size() >= 8 && memcmp(j.data(), magic, 8) == 0) { res.hot_journal = true; ctx.probe("crash_image_with_hot_journal"); }
        }
        if (completed) DemandClean(img, std::string("materialised image, ") + where, spec.powerloss);
        {
            WalletNode wn2(*node, WnOpts(img + "/wallets"));
            std::shared_ptr<wallet::CWallet> w2 = wn2.LoadWallet(wname);
            // never unloadable
            if (!w2) ctx.failf("crash-image-does-not-load", "%s: %s", where, wn2.last_error.c_str());
            res.enc = w2->HasEncryptionKeys();
            size_t plain = 0, crypted = 0;
            {
                LOCK(w2->cs_wallet);
                for (wallet::ScriptPubKeyMan* m : w2->GetAllScriptPubKeyMans()) {
                    if (!m->HavePrivateKeys()) continue;
                    if (m->HaveCryptedKeys()) ++crypted; else ++plain;
                }
            }
            // never a mix
            if (plain && (crypted || res.enc)) ctx.failf("crash-image-mixes-encrypted-and-unencrypted-keys", "%s: %zu descriptor(s) with plaintext keys, %zu with encrypted keys, master key record %s", where, plain, crypted, res.enc ? "present" : "absent");
            if (!res.enc) {
                if (crypted) ctx.failf("crash-image-mixes-encrypted-and-unencrypted-keys", "%s: %zu descriptor(s) with encrypted keys but no master key record", where, crypted);
                if (completed) ctx.failf("completed-encryption-lost-by-crash", "%s: EncryptWallet had returned true, the image loads unencrypted", where);
                // fully unencrypted with its original keys
                CheckSigning(*w2, true, true, 0, spec.k, "crash-image-unencrypted-but-original-key-lost", "sim", where, handed_out_before_enc);
                ctx.probe("crash_image_unencrypted");
            } else {
                if (!w2->IsLocked()) ctx.failf("crash-image-encrypted-but-unlocked", "%s", where);
                CheckSigning(*w2, false, true, 0, spec.k, "", "crash-image-signs-while-locked", where, handed_out_before_enc);
                const char* vname = "";
                SecureString wrong = WrongPass(enc_pass, {}, spec.k, spec.k ^ 0x5a5a, &vname);
                bool wok = false;
                try { wok = w2->Unlock(wrong); } catch (const std::runtime_error&) { wok = true; }
                if (wok) ctx.failf("crash-image-wrong-passphrase-unlocks", "%s: variant %s", where, vname);
                bool ok = false;
                std::string err;
                try { ok = w2->Unlock(enc_pass); } catch (const std::runtime_error& e) { err = e.what(); }
                // fully encrypted: unlockable with the NEW passphrase ...
                if (!ok) ctx.failf("crash-image-encrypted-but-not-unlockable", "%s: Unlock with the passphrase given to EncryptWallet failed %s", where, err.c_str());
                // ... to the same keys
                CheckSigning(*w2, true, true, 0, spec.k, "crash-image-encrypted-but-original-key-lost", "sim", where, handed_out_before_enc);
                ctx.probe(completed ? "crash_image_encrypted_complete" : "crash_image_encrypted_before_completion");
            }
            wn2.UnloadWallet(w2);
            wn2.Detach();
        }
        std::error_code ec;
        std::filesystem::remove_all(img, ec);
        ++images;
        return res;
    }

    void CrashPhase(const std::vector<Op>& crashes)
    {
        const auto& log = simfs::Log();
        const size_t end = std::min(k1, log.size());
        // segments of the window: maximal runs of operations up to and including a sync (the commit points of the SQLite
        // transactions sit at such boundaries); addressing a crash point as (segment, position within it) keeps a plan meaningful
        // when page counts shift
        std::vector<std::pair<size_t, size_t>> segs;
        {
            size_t s = k0;
            for (size_t i = k0; i < end; ++i)
                if (log[i].kind == simfs::OpKind::SYNC || log[i].kind == simfs::OpKind::SYNCDIR) { segs.emplace_back(s, i + 1); s = i + 1; }
            if (s < end || segs.empty()) segs.emplace_back(s, end);
        }
        std::vector<size_t> boundaries, burst_edges;
        for (size_t i = k0; i < end; ++i) {
            auto kd = log[i].kind;
            if (kd == simfs::OpKind::SYNC || kd == simfs::OpKind::SYNCDIR || kd == simfs::OpKind::UNLINK || kd == simfs::OpKind::TRUNC || kd == simfs::OpKind::CREATE) { boundaries.push_back(i); boundaries.push_back(i + 1); }
            if (kd == simfs::OpKind::WRITE) {
                bool first = i == k0 || log[i - 1].kind != simfs::OpKind::WRITE || log[i - 1].ino != log[i].ino;
                bool last = i + 1 >= end || log[i + 1].kind != simfs::OpKind::WRITE || log[i + 1].ino != log[i].ino;
                if (first) burst_edges.push_back(i + 1);
                if (last && !first) burst_edges.push_back(i);
            }
        }
        auto last_sync_before = [&](size_t k) {
            for (size_t i = k; i-- > 0;)
                if (log[i].kind == simfs::OpKind::SYNC || log[i].kind == simfs::OpKind::SYNCDIR) return i + 1;
            return (size_t)0;
        };
        size_t nwrites = 0, nsyncs = 0;
        for (size_t i = k0; i < end; ++i) { if (log[i].kind == simfs::OpKind::WRITE) ++nwrites; if (log[i].kind == simfs::OpKind::SYNC) ++nsyncs; }
        ctx.evf("window segs=%zu syncs=%zu", segs.size(), nsyncs);
        if (getenv("VERIF_C42_DUMP")) {
            std::map<uint32_t, std::string> names;
            for (size_t i = 0; i < log.size(); ++i) {
                if (log[i].kind == simfs::OpKind::CREATE) names[log[i].ino] = log[i].path;
                if (i < k0 || i >= end) continue;
                fprintf(stderr, "io[%zu] %-7s %-28s off=%lu len=%lu %s %s\n", i, simfs::KindName(log[i].kind), names[log[i].ino].c_str(), (unsigned long)log[i].off, (unsigned long)log[i].len, log[i].path.c_str(), log[i].path2.c_str());
            }
        }
        ctx.probe("window_io_writes", nwrites);
        int n = 0;
        int n_enc = 0, n_unenc = 0;
        int first_enc_seg = -1, last_unenc_seg = -1;
        auto seg_of = [&](size_t k) {
            for (size_t s = 0; s < segs.size(); ++s)
                if (k < segs[s].second) return (int)s;
            return (int)segs.size();
        };
        auto one = [&](size_t k, int mode, uint64_t jsel, bool torn, uint32_t torn_sel) {
            simfs::CrashSpec spec;
            spec.k = std::clamp(k, k0, end);
            spec.powerloss = mode == 1 || mode == 2;
            if (mode == 1) spec.j = last_sync_before(spec.k);
            else if (mode == 2) { size_t lo = last_sync_before(spec.k); spec.j = (jsel & 1) ? k0 + jsel % (spec.k - k0 + 1) : lo + (spec.k > lo ? jsel % (spec.k - lo + 1) : 0); }
            else spec.j = spec.k;
            spec.j = std::clamp(spec.j, k0, spec.k);
            if (spec.powerloss && torn) {
                // a torn append needs an unsynced multi-sector write right before the cut: move j onto one if the crash window has any
                std::vector<size_t> big;
                for (size_t i = std::max(k0, last_sync_before(spec.k)); i < spec.k; ++i)
                    if (log[i].kind == simfs::OpKind::WRITE && log[i].len > 512) big.push_back(i + 1);
                if (!big.empty()) spec.j = big[torn_sel % big.size()];
            }
            spec.torn = spec.powerloss && torn && spec.j > k0;
            spec.torn_sel = torn_sel;
            ImgResult r = Recover(spec, n++);
            int sg = seg_of(spec.k);
            if (r.enc) { ++n_enc; if (first_enc_seg < 0 || sg < first_enc_seg) first_enc_seg = sg; }
            else { ++n_unenc; last_unenc_seg = std::max(last_unenc_seg, sg); }
            return r;
        };
        if (ctx.knob("enumerate", 0)) {
            for (size_t k = k0; k <= end; ++k) {
                one(k, 0, 0, false, 0);
                one(k, 1, 0, (k & 1), (uint32_t)mix64(k, 3));
                if (k % 4 == 0) one(k, 2, mix64(k, ctx.plan.seed), true, (uint32_t)mix64(k, 5));
            }
            ctx.probe("enumerated_every_io_index");
        } else {
            for (const Op& op : crashes) {
                size_t k;
                int sel = (int)op.mod(0, 4);
                if (sel == 1 && !boundaries.empty()) k = boundaries[op.mod(1, boundaries.size())];
                else if (sel == 2) { auto& sg = segs[op.mod(1, segs.size())]; k = sg.first + (size_t)(((uint64_t)op.arg(3) >> 8) % (sg.second - sg.first + 1)); }
                else if (sel == 3 && !burst_edges.empty()) k = burst_edges[op.mod(1, burst_edges.size())];
                else k = k0 + op.mod(1, end - k0 + 1);
                ImgResult r = one(k, (int)op.mod(2, 4), (uint64_t)op.arg(3), op.arg(4) & 1, (uint32_t)op.arg(5));
                ctx.evf("crash sel=%d seg=%d/%zu mode=%d -> %s", sel, seg_of(std::clamp(k, k0, end)), segs.size(), (int)op.mod(2, 4), r.enc ? "encrypted" : "unencrypted");
            }
        }
        // the image at the end of the window (encryption complete) is always evaluated: "Materialized final image"
        one(end, 0, 0, false, 0);
        one(end, 1, 0, false, 0);
        ctx.evf("crash phase: images=%d encrypted=%d unencrypted=%d first_enc_seg=%d last_unenc_seg=%d", n, n_enc, n_unenc, first_enc_seg, last_unenc_seg);
        ctx.probe("recoveries", images);
        ctx.fingerprint(mix64(mix64(n_enc, n_unenc), mix64(first_enc_seg + 1, segs.size())));
    }

    // ------------------------------------------------------------ run ----------------------------------------------------
    void Run()
    {
        Setup();
        ctx.fingerprint(Fingerprint());
        std::vector<Op> crashes;
        for (const Op& op : ctx.plan.ops) {
            if (op.kind == O_CRASH) { crashes.push_back(op); continue; }
            if (!w && op.kind != O_RELOAD) continue;
            switch (op.kind) {
            case O_NEWADDR: OpNewAddr(op); break;
            case O_LABEL: OpLabel(op); break;
            case O_TOPUP: {
                bool ok = w->TopUpKeyPool((unsigned)(keypool + std::clamp<int64_t>(op.arg(0), 0, 8)));
                ctx.evf("topup -> %d", (int)ok);
                break;
            }
            case O_ENCRYPT: OpEncrypt(op); break;
            case O_LOCK: {
                bool r = w->Lock();
                ctx.evf("lock -> %d", (int)r);
                if (encrypted) { locked = true; if (!w->IsLocked()) ctx.failf("lock-did-not-lock", "IsLocked() is false after Lock()"); }
                break;
            }
            case O_UNLOCK: OpUnlock(op); break;
            case O_UNLOCK_WRONG: OpUnlockWrong(op); break;
            case O_CHANGE: OpChange(op, false); break;
            case O_CHANGE_WRONG: OpChange(op, true); break;
            case O_SIGN: CheckSigningLive((op.arg(0) & 1) != 0, (uint64_t)op.arg(1), (uint64_t)op.arg(2), "sign attempt"); ctx.evf("sign all=%d expect=%d", (int)(op.arg(0) & 1), (int)(!encrypted || !locked)); break;
            case O_RELOAD: OpReload(); break;
            case O_SCAN:
                if (encrypted) DemandClean(live_root, "live directory (scan operation)");
                else ctx.ev("scan: not encrypted");
                break;
            default: break;
            }
            ctx.fingerprint(Fingerprint());
        }
        if (encrypted) DemandClean(live_root, "live directory at the end of the history");
        Unload();
        if (encrypted) DemandClean(live_root, "live directory after the final unload");
        wn->Detach();
        if (simfs::OpsFromOtherThreads()) ctx.probe("io_from_background_thread", simfs::OpsFromOtherThreads());
        ctx.probe("io_ops_recorded", simfs::LogSize());
        simfs::Disarm();
        if (window) CrashPhase(crashes);
        wn.reset();
        node->Stop(false);
        if (deferred) ctx.fail(deferred->cls, deferred->detail);
    }
};

void Run(Ctx& ctx)
{
    EncSim s(ctx);
    try {
        s.Run();
    } catch (...) {
        simfs::Disarm();
        throw;
    }
}

Engine MakeEngine()
{
    Engine e;
    e.prop = "C42";
    e.name = "crashsim/wallet-encryption";
    e.level = "fault_enumeration";
    e.gen = Gen;
    e.run = Run;
    e.describe = Describe;
    e.chunk = 1;
    e.quick_runs = 220;
    e.thorough_runs = 4000;
    e.quick_budget_s = 50;
    e.thorough_budget_s = 900;
    e.run_timeout_s = 600;
    e.rule = "each run = one wallet history on a real descriptor CWallet (production SQLite options: synchronous=FULL, rollback journal, exclusive locking) whose directory is recorded by simfs. The harness chooses every key: "
             "mode 0 = blank wallet + 1-8 imported descriptors (wpkh/pkh/sh(wpkh)/tr over a WIF key, wpkh/pkh/tr over an xprv with plain or hardened path, wsh(multi(2,A,B)), watch-only xpub), mode 1 = the standard 8 HD descriptors over a master "
             "key derived from a plan-chosen 32-byte seed, mode 2 = both; keypool 1-4; SQLite flavour knob (secure_delete as linked / OFF as in Bitcoin Core's depends builds / ON). 0-6 operations before (getnewaddress, labels, keypool "
             "top-up, sign, reload), EncryptWallet(passphrase: empty, 1 char, typical, 200-6000 chars, UTF-8, raw bytes with NUL and 0xff, leading/trailing blanks), then 6-40 operations: Lock, Unlock(current passphrase), Lock+Unlock(wrong passphrase: "
             "one char more/less, one bit flipped, unrelated, an earlier or a refused passphrase, cut at / extended by NUL, empty, reversed), ChangeWalletPassphrase with the right / a wrong old passphrase, SignTransaction for one or all "
             "known scripts (scriptPubKeys derived by the harness from its own secrets: BIP32 children, P2PKH/P2WPKH/P2SH-P2WPKH/P2TR/P2WSH-multisig) and for addresses handed out by the wallet, unload+load, explicit byte scans. Then the "
             "recorded I/O window of the EncryptWallet call (encryption transaction, new-HD-descriptor transaction, VACUUM) is cut at 8-60 seeded indices (uniform / sync,create,trunc boundaries / segment-relative / write-burst edges) or, in 1/12 "
             "(quick) resp. 1/3 (thorough) of the runs, at EVERY index, x {process kill, power loss with cut j = last sync or seeded j, optional torn append}, plus always the kill and power-loss images at the end of the window; each image is "
             "loaded by a second WalletNode. Oracle: (1) after EncryptWallet returned true, after every reload, at the end, after unload and in the images taken at/after completion, none of the known secrets (raw 32-byte key, lower/upper hex, "
             "WIF, xprv string, raw/hex seed, also of derived children and of never-imported private halves) occurs in any file of the wallet directory (database file / journal / other: separate classes; journal-only and beyond-logical-end hits are "
             "deferred to the end of the run); the scanner is proven able to see them (every stored raw key is found in wallet.dat before encryption). (2) SignTransaction yields no verifying input while the wallet is locked and after Unlock "
             "with a wrong passphrase (which must return false); (3) Unlock with the current passphrase returns true (also after ChangeWalletPassphrase and after reload; earlier passphrases then fail) and SignTransaction then completes with inputs that "
             "pass VerifyScript against the harness-derived scriptPubKeys, for every known key; (4) every crash image loads, and is either unencrypted (no master key record, no descriptor with encrypted keys, signs for every original key "
             "without unlocking) or encrypted (locked after load, no descriptor with plaintext keys, does not sign while locked, rejects a wrong passphrase, unlocks with the passphrase given to EncryptWallet and then signs for every original key); images "
             "at/after completion must be encrypted. non-trivial = an encryption completed; distinct = fingerprints of the model state (encrypted, locked, passphrase generation and length class, reloads, addresses) after each operation plus "
             "(images encrypted/unencrypted, first encrypted segment, #segments) of the crash phase. The probe `recoveries` counts crash images evaluated.";
    e.real_components = {"wallet::CWallet (EncryptWallet, Lock, Unlock, ChangeWalletPassphrase, SignTransaction, LoadExisting, SetupDescriptorScriptPubKeyMans, AddWalletDescriptor)", "DescriptorScriptPubKeyMan (Encrypt, CheckDecryptionKey, GetKeys, GetSigningProvider, TopUp)",
                         "CCrypter / EncryptSecret / DecryptKey (crypter.cpp)", "WalletBatch + SQLiteDatabase/SQLiteBatch (TxnBegin/TxnCommit, Rewrite=VACUUM, Verify/integrity_check on load)", "system libsqlite3 (pager, rollback journal, hot-journal recovery)",
                         "script signing (ProduceSignature) and, on the oracle side only, VerifyScript", "interfaces::Chain on a genesis-only SimNode"};
    e.stub_components = {"disk and page cache (simfs: recorded pass-through to tmpfs; crash = log cut + rebuild)", "process crash (never a real kill)", "HD seeds / imported keys (chosen by the harness instead of GetStrongRandBytes)", "clock (SetMockTime: EncryptMasterKey then uses the default 25000 KDF rounds)",
                         "chain (genesis only; no wallet transactions)", "SQLite temporary files of VACUUM (outside the recorded directory, not scanned)"};
    e.assumptions = {"power-loss model: a suffix of not-yet-synced operations is discarded; fsync/fdatasync of an inode makes its earlier writes, truncates and its directory entry durable; torn writes only at 512-byte boundaries of an unsynced append",
                     "EncryptWallet's own key material (master key, salt, new HD seed) comes from GetStrongRandBytes and differs between executions of the same plan: traces, fingerprints and crash-point addressing use structure only, never bytes",
                     "CWallet::EncryptWallet/ChangeWalletPassphrase accept an empty passphrase (the refusal of empty passphrases lives in the RPC layer, which this engine does not drive); an empty passphrase is treated like any other",
                     "after a wrong-passphrase attempt and after every ChangeWalletPassphrase the harness calls Lock(): which lock state those calls leave behind is not part of the statement",
                     "knob sqlite_secure_delete=0 reproduces, through PRAGMA secure_delete=OFF on the wallet's connection, the SQLite library of Bitcoin Core's depends/release builds (no SQLITE_SECURE_DELETE); the distribution library linked here defaults to ON",
                     "only file contents are scanned (blocks freed by truncate/unlink are outside the model)"};
    e.expected_probes = {"encrypt_completed", "plaintext_keys_found_before_encryption", "scan_after_encryption_clean", "sign_ok_unencrypted", "sign_refused_locked", "sign_ok_after_unlock", "sign_ok_after_passphrase_change", "wrong_passphrase_rejected",
                         "old_passphrase_rejected_after_change", "passphrase_changed", "passphrase_change_refused_wrong_old", "reload_encrypted", "address_from_post_encryption_descriptor", "pass_empty", "pass_long", "pass_utf8", "pass_bytes_with_nul",
                         "recoveries", "crash_image_unencrypted", "crash_image_encrypted_before_completion", "crash_image_encrypted_complete", "crash_image_with_hot_journal", "unsynced_ops_dropped", "enumerated_every_io_index", "crash_kill", "crash_powerloss", "torn_write",
                         "sqlite_secure_delete_off", "sqlite_secure_delete_on"};
    return e;
}
Engine g_engine = MakeEngine();
SIM_REGISTER_ENGINE(g_engine);

} // namespace
