// C56 — fee bumping replaces the original safely.
// walletsim = nodesim (real regtest node + RefChain model) + a real descriptor CWallet on SQLite attached through the real
// interfaces::Chain. The workload is a wallet history (funding receives, wallet sends of many shapes, chains of unconfirmed sends,
// external children, blocks that confirm all / some / only the ancestors of the mempool, small reorgs, wallet reloads) in which
// wallet::feebumper is called at arbitrary points on arbitrary wallet transactions: CreateRateBumpTransaction -> SignTransaction ->
// CommitTransaction, exactly as the bumpfee RPC does, with/without explicit feerate (also right at the minimum the rules allow),
// with replaced outputs (re-valued, fewer, more, with the old change script, dust, unaffordable), with original_change_index
// (the change, a recipient, out of range, together with outputs), on unconfirmed / confirmed / already bumped / foreign / unknown
// transactions and on transactions with descendants.
// Oracle (own arithmetic over the harness's record of every transaction ever built; see Engine::rule): inputs of the original are
// all spent by the replacement, non-change outputs kept (or the supplied ones paid), fee >= old fee + incremental relay fee x new
// vsize and >= requested feerate x new vsize, the node's mempool took the replacement and evicted exactly the original (+ its
// descendants) as REPLACED, the wallet recorded replaced_by / replaces; refusals leave the wallet (database records and in-memory
// transaction map, address book, locked coins, balances, spendable coins) unchanged; confirmed and already-replaced transactions
// are always refused.
#include "../core/sim.h"
#include "../nodesim/chainsim.h"
#include "../nodesim/walletsim.h"

#include <chain.h>
#include <consensus/validation.h>
#include <kernel/mempool_entry.h>
#include <policy/policy.h>
#include <script/interpreter.h>
#include <streams.h>
#include <txmempool.h>
#include <util/rbf.h>
#include <util/time.h>
#include <util/translation.h>
#include <validation.h>
#include <validationinterface.h>
#include <wallet/coincontrol.h>
#include <wallet/db.h>
#include <wallet/feebumper.h>

#include <algorithm>
#include <map>
#include <set>

using namespace sim;
using namespace nodesim;

namespace {

enum BOp { B_RECEIVE = 0, B_SEND, B_BUMP, B_MINE, B_CHILD, B_REORG, B_RELOAD, B_CLOCK, B_NOPS };
// B_SEND flag bits
enum { SF_SELF = 1, SF_SUBTRACT = 2, SF_FEERATE = 4, SF_CHAIN_CHANGE = 8, SF_TIGHT = 16, SF_NOSIGNAL = 32, SF_BIG = 64, SF_CHAIN_RECEIVE = 128 };
// B_BUMP target categories
enum { T_RECENT = 0, T_ANY_OWN, T_CONFIRMED, T_REPLACED, T_FOREIGN, T_UNKNOWN, T_WITH_DESCENDANTS, T_NCATS };
// B_BUMP feerate modes
enum { F_NONE = 0, F_RANDOM, F_BOUNDARY, F_LOW, F_HUGE, F_NMODES };
// B_BUMP outputs modes
enum { O_NONE = 0, O_REVALUE, O_SHRINK, O_GROW, O_WITH_CHANGE, O_DUST, O_UNAFFORDABLE, O_NMODES };
// B_BUMP original_change_index modes
enum { C_NONE = 0, C_CHANGE, C_RECIPIENT, C_OUT_OF_RANGE, C_NMODES };
// B_MINE include modes
enum { M_ALL = 0, M_MOST, M_SOME, M_NONE, M_ANCESTORS_ONLY, M_NMODES };

const char* kTargetNames[] = {"recent-unconfirmed-own", "any-own", "confirmed-own", "already-replaced", "foreign", "unknown-txid", "own-with-descendants"};
const char* kFeeNames[] = {"no-feerate", "explicit-feerate", "explicit-feerate-at-the-minimum", "explicit-feerate-too-low", "explicit-feerate-huge"};
const char* kOutNames[] = {"keep-outputs", "outputs-revalued", "outputs-fewer", "outputs-more", "outputs-with-old-change-script", "outputs-with-dust", "outputs-unaffordable"};
const char* kOciNames[] = {"-", "original_change_index=change", "original_change_index=recipient", "original_change_index=out-of-range"};
const char* kMineNames[] = {"all of the mempool", "most of the mempool", "some of the mempool", "nothing", "only transactions that have a mempool child"};

std::string Describe(const Op& op)
{
    char b[320];
    switch (op.kind) {
    case B_RECEIVE: snprintf(b, sizeof b, "receive(outputs=%ld, seed=%ld, flags=%ld)  external transaction paying wallet addresses enters the mempool", (long)op.arg(0), (long)op.arg(1), (long)op.arg(2)); break;
    case B_SEND: {
        std::string f;
        static const char* names[] = {"self-recipient", "subtract-fee", "explicit-feerate", "on-own-unconfirmed-change", "tight(small or no change)", "not-signalling", "big", "on-unconfirmed-receive"};
        for (int i = 0; i < 8; ++i)
            if (op.arg(2) & (1 << i)) f += std::string(f.empty() ? "" : "|") + names[i];
        snprintf(b, sizeof b, "wallet_send(recipients=%ld, seed=%ld, flags=%s, change_type=%ld)", (long)op.arg(0), (long)op.arg(1), f.empty() ? "-" : f.c_str(), (long)op.arg(3));
        break;
    }
    case B_BUMP:
        snprintf(b, sizeof b, "bumpfee(target=%s#%ld, %s(arg=%ld), %s, %s, seed=%ld, replacement %s)", kTargetNames[op.mod(0, T_NCATS)], (long)op.arg(1), kFeeNames[op.mod(2, F_NMODES)], (long)op.arg(3),
                 kOutNames[op.mod(4, O_NMODES)], kOciNames[op.mod(5, C_NMODES)], (long)op.arg(6), (op.arg(7) & 1) ? "not signalling" : "signalling");
        break;
    case B_MINE: snprintf(b, sizeof b, "mine(blocks=%ld, seed=%ld, include %s)", (long)op.arg(0), (long)op.arg(1), kMineNames[op.mod(2, M_NMODES)]); break;
    case B_CHILD: snprintf(b, sizeof b, "external_child(seed=%ld)  a stranger spends a payment of an unconfirmed wallet transaction", (long)op.arg(0)); break;
    case B_REORG: snprintf(b, sizeof b, "reorg(depth=%ld, seed=%ld)  the replacing branch is empty: confirmed transactions return to the mempool", (long)op.arg(0), (long)op.arg(1)); break;
    case B_RELOAD: snprintf(b, sizeof b, "unloadwallet + loadwallet"); break;
    case B_CLOCK: snprintf(b, sizeof b, "clock += %lds", (long)op.arg(0)); break;
    default: snprintf(b, sizeof b, "?");
    }
    return b;
}

Plan Gen(uint64_t seed, Tier tier)
{
    Rng rng(seed);
    Plan p;
    p.knobs["base"] = rng.range(101, 107);
    p.knobs["on_disk"] = 0;
    p.knobs["coins_cache_kb"] = 8192;
    p.knobs["batch_bytes"] = 16 << 20;
    p.knobs["keypool"] = rng.range(3, 9);
    p.knobs["naddr"] = rng.range(3, 6);
    p.knobs["nfund"] = rng.range(2, 4);
    p.knobs["fund_outs"] = rng.range(3, 8);
    p.knobs["poor"] = 0;
    if (rng.chance(1, 4)) { p.knobs["poor"] = 1; p.knobs["nfund"] = 1; p.knobs["fund_outs"] = rng.range(2, 3); } // few confirmed coins: bumps soon run out of confirmed inputs
    p.knobs["wallet_seed"] = (int64_t)(rng.next() >> 8);
    p.knobs["fallbackfee_sel"] = rng.below(3);
    p.knobs["maxtxfee_sel"] = rng.below(3);
    std::vector<uint32_t> w(B_NOPS, 0);
    w[B_RECEIVE] = 5; w[B_SEND] = 22; w[B_BUMP] = 34; w[B_MINE] = 10; w[B_CHILD] = 4; w[B_REORG] = 3; w[B_RELOAD] = 3; w[B_CLOCK] = 2;
    // swarm
    if (rng.chance(1, 3)) w[B_RELOAD] = 0;
    if (rng.chance(1, 3)) w[B_REORG] = 0;
    if (rng.chance(1, 4)) w[B_CHILD] = 0;
    if (rng.chance(1, 4)) w[B_MINE] = 4;
    if (rng.chance(1, 4)) w[B_BUMP] = 50;
    std::vector<uint32_t> wfee = {30, 18, 22, 6, 3};
    std::vector<uint32_t> wout = {40, 8, 8, 10, 6, 2, 2};
    std::vector<uint32_t> woci = {40, 10, 5, 2};
    std::vector<uint32_t> wtgt = {50, 12, 8, 8, 4, 2, 6};
    if (rng.chance(1, 4)) { wout = {20, 14, 14, 16, 10, 2, 2}; }
    if (rng.chance(1, 4)) { wfee = {14, 18, 40, 6, 3}; }
    auto R64 = [&] { return (int64_t)(rng.next() >> 16); };
    auto GenBump = [&](int64_t cat, int64_t idx) {
        Op o;
        o.kind = B_BUMP;
        int64_t outs = (int64_t)rng.pick(wout);
        int64_t oci = (int64_t)rng.pick(woci);
        if (outs != O_NONE && oci != C_NONE && !rng.chance(1, 8)) oci = C_NONE; // both together is always refused: keep it rare
        o.a = {cat, idx, (int64_t)rng.pick(wfee), R64(), outs, oci, R64(), (int64_t)(rng.chance(1, 6) ? 1 : 0)};
        return o;
    };
    auto GenSend = [&](int64_t nrec, int64_t flags) { return Op(B_SEND, {nrec, R64(), flags, (int64_t)rng.below(5)}); };
    int nops = (int)rng.range(12, tier == Tier::THOROUGH ? 70 : 34);
    for (int i = 0; i < nops; ++i) {
        // scenario seeds: short scripted sequences of ordinary operations that set up the situations the property names
        if (rng.chance(1, 5)) {
            std::vector<Op> m;
            switch (rng.below(13)) {
            case 0: m = {GenSend(rng.range(1, 3), rng.below(8)), GenBump(T_RECENT, 0)}; break;
            case 1: m = {GenSend(1, 0), GenBump(T_RECENT, 0), GenBump(T_REPLACED, 0)}; break;
            case 2: m = {GenSend(rng.range(1, 2), rng.below(8)), Op(B_MINE, {1, R64(), M_ALL}), GenBump(T_CONFIRMED, 0)}; break;
            case 3: m = {GenSend(1, SF_FEERATE), GenSend(2, SF_CHAIN_CHANGE), Op(B_MINE, {1, R64(), M_ANCESTORS_ONLY}), GenBump(T_RECENT, 0)}; break;
            case 4: { Op b = GenBump(T_RECENT, 0); b.a[2] = F_RANDOM; b.a[3] = (int64_t)rng.range(40000, 400000); m = {GenSend(1, SF_TIGHT), b}; break; }
            case 5: { Op b = GenBump(T_RECENT, 0); b.a[2] = rng.chance(2, 3) ? F_NONE : F_BOUNDARY; b.a[4] = O_SHRINK; b.a[5] = C_NONE; m = {GenSend(3, 0), b}; break; }
            case 6: { Op b = GenBump(T_RECENT, 0); b.a[2] = F_BOUNDARY; b.a[4] = O_GROW; b.a[5] = C_NONE; m = {GenSend(rng.range(1, 2), rng.below(8)), b}; break; }
            case 7: m = {GenSend(rng.range(1, 2), 0), Op(B_CHILD, {R64()}), GenBump(T_WITH_DESCENDANTS, 0)}; break;
            case 8: m = {GenSend(rng.range(1, 3), rng.below(8)), GenBump(T_RECENT, 0), GenBump(T_RECENT, 0), GenBump(T_RECENT, 0)}; break;
            case 9: m = {GenSend(rng.range(1, 2), rng.below(64)), Op(B_RELOAD, {}), GenBump(T_RECENT, 0), Op(B_RELOAD, {}), GenBump(T_REPLACED, 0)}; break;
            case 10: { Op b = GenBump(T_RECENT, 0); b.a[4] = O_NONE; b.a[5] = rng.chance(2, 3) ? C_CHANGE : C_RECIPIENT; m = {GenSend(rng.range(1, 3), rng.below(4)), b}; break; }
            case 11: m = {GenSend(1, 0), Op(B_MINE, {1, R64(), M_ALL}), Op(B_REORG, {1, R64()}), GenBump(T_RECENT, 0)}; break;
            default: { Op b = GenBump(T_RECENT, 0); b.a[2] = F_BOUNDARY; b.a[4] = O_NONE; m = {GenSend(rng.range(1, 3), rng.below(256)), b}; break; }
            }
            for (auto& o : m) p.ops.push_back(o);
        }
        Op op;
        op.kind = (int)rng.pick(w);
        switch (op.kind) {
        case B_RECEIVE: op.a = {(int64_t)rng.range(1, 3), R64(), (int64_t)rng.below(4)}; break;
        case B_SEND: op = GenSend(rng.range(1, 3), (int64_t)rng.below(256) & ~(rng.chance(3, 4) ? (int64_t)SF_CHAIN_RECEIVE : 0)); break;
        case B_BUMP: op = GenBump((int64_t)rng.pick(wtgt), (int64_t)rng.skewed(0, 8)); break;
        case B_MINE: op.a = {(int64_t)rng.skewed(1, 2), R64(), (int64_t)rng.pick({4, 2, 2, 1, 3})}; break;
        case B_CHILD: op.a = {R64()}; break;
        case B_REORG: op.a = {(int64_t)rng.skewed(1, 2), R64()}; break;
        case B_CLOCK: op.a = {(int64_t)rng.skewed(1, 7200)}; break;
        default: break;
        }
        p.ops.push_back(op);
    }
    return p;
}

// ---------------------------------------------------------------------------------------------------------------------------

/** What the node's mempool told its clients, in order. */
struct Recorder : public CValidationInterface {
    struct Ev { bool added; CTransactionRef tx; MemPoolRemovalReason reason{MemPoolRemovalReason::EXPIRY}; };
    std::vector<Ev> evs;
    void TransactionAddedToMempool(const NewMempoolTransactionInfo& tx, uint64_t) override { evs.push_back({true, tx.info.m_tx}); }
    void TransactionRemovedFromMempool(const CTransactionRef& tx, MemPoolRemovalReason reason, uint64_t) override { evs.push_back({false, tx, reason}); }
};

std::string Hx(const uint256& h) { return h.ToString().substr(0, 10); }
std::string Hx(const Txid& h) { return h.ToString().substr(0, 10); }

/** Own size arithmetic (BIP141): weight = 3 * stripped size + total size, vsize = ceil(weight / 4). */
int64_t VSize(const CTransaction& tx)
{
    int64_t stripped = (int64_t)GetSerializeSize(TX_NO_WITNESS(tx));
    int64_t total = (int64_t)GetSerializeSize(TX_WITH_WITNESS(tx));
    return (stripped * 3 + total + 3) / 4;
}
int64_t Weight(const CTransaction& tx) { return (int64_t)GetSerializeSize(TX_NO_WITNESS(tx)) * 3 + (int64_t)GetSerializeSize(TX_WITH_WITNESS(tx)); }
/** Fee that a feerate (sat per 1000 vbytes) asks of `vsize` vbytes, rounded up. */
CAmount FeeAt(int64_t sat_per_kvb, int64_t vsize) { return (sat_per_kvb * vsize + 999) / 1000; }

struct BumpSim {
    Ctx& ctx;
    ChainSim cs;
    std::shared_ptr<Recorder> rec{std::make_shared<Recorder>()};
    std::unique_ptr<WalletNode> wn;
    std::shared_ptr<wallet::CWallet> w;
    const std::string wname{"w0"};
    bool loaded{false};
    int loads{0};

    // ---- the harness's record (the model) ----
    enum Kind { K_FUND, K_RECEIVE, K_SEND, K_BUMP, K_CHILD };
    struct MTx {
        CTransactionRef tx;
        Kind kind;
        std::optional<Txid> replaced_by, replaces;
        std::set<Txid> parents_unconfirmed_at_creation;
        int load_epoch{0};
    };
    std::map<Txid, CTransactionRef> alltx;   //!< every transaction ever built here (values of spent outputs come from it)
    std::map<Txid, MTx> M;                   //!< transactions the wallet was given or shown
    std::vector<Txid> order;
    std::set<CScript> receive_spks;          //!< addresses handed out by getnewaddress (address book entries)
    std::set<CScript> change_spks;           //!< scripts the wallet reported / used as change
    struct Addr { CTxDestination dest; CScript spk; };
    std::vector<Addr> addrs;
    int64_t start_time{0};

    explicit BumpSim(Ctx& c) : ctx(c), cs(c, ChainSimConfig{}) {}
    RefChain& ref() { return *cs.ref; }
    SimNode& node() { return *cs.node; }

    void Remember(const CTransactionRef& tx) { alltx.emplace(tx->GetHash(), tx); }
    void Know(const CTransactionRef& tx, Kind k)
    {
        Remember(tx);
        if (M.count(tx->GetHash())) return;
        MTx m{tx, k};
        m.load_epoch = loads;
        M.emplace(tx->GetHash(), std::move(m));
        order.push_back(tx->GetHash());
    }
    const CTxOut* SpentOutput(const COutPoint& op) const
    {
        auto it = alltx.find(op.hash);
        if (it == alltx.end() || op.n >= it->second->vout.size()) return nullptr;
        return &it->second->vout[op.n];
    }
    /** inputs - outputs from the harness's own record */
    CAmount ModelFee(const CTransaction& tx)
    {
        CAmount in = 0, out = 0;
        for (auto& i : tx.vin) {
            const CTxOut* o = SpentOutput(i.prevout);
            if (!o) ctx.failf("sim-unknown-input", "transaction %s spends %s:%u which the harness never built", Hx(tx.GetHash()).c_str(), Hx(i.prevout.hash).c_str(), i.prevout.n);
            in += o->nValue;
        }
        for (auto& o : tx.vout) out += o.nValue;
        return in - out;
    }

    // ================================================ chain + mempool view =================================================
    struct View {
        int tip{0};
        int height{0};
        const RefUtxo* utxo{nullptr};
        std::map<Txid, int> conf;
        std::map<Txid, CTransactionRef> pool;
        std::map<COutPoint, Txid> pool_spender;
    };
    View MakeView()
    {
        View v;
        v.tip = cs.TipIdx();
        if (v.tip < 0) ctx.failf("sim-tip-unknown", "the node's tip %s is not a generated block", Hx(node().TipHash()).c_str());
        const RefBlock& T = ref().blocks[v.tip];
        if (T.verdict != Verdict::VALID) ctx.failf("invalid-block-in-active-chain", "tip #%d is not valid per the model: %s", v.tip, T.reason.c_str());
        v.height = T.height;
        v.utxo = T.utxo.get();
        for (int i = v.tip; i > 0; i = ref().blocks[i].parent) {
            const RefBlock& B = ref().blocks[i];
            for (auto& tx : B.block->vtx) v.conf[tx->GetHash()] = B.height;
        }
        for (auto& info : node().pool().infoAll()) {
            v.pool[info.tx->GetHash()] = info.tx;
            for (auto& in : info.tx->vin) v.pool_spender[in.prevout] = info.tx->GetHash();
        }
        return v;
    }
    std::set<Txid> PoolDescendants(const View& v, const Txid& id)
    {
        std::set<Txid> out;
        std::vector<Txid> todo{id};
        while (!todo.empty()) {
            Txid now = todo.back();
            todo.pop_back();
            auto it = v.pool.find(now);
            if (it == v.pool.end()) continue;
            for (uint32_t n = 0; n < it->second->vout.size(); ++n) {
                auto sp = v.pool_spender.find(COutPoint(now, n));
                if (sp != v.pool_spender.end() && out.insert(sp->second).second) todo.push_back(sp->second);
            }
        }
        return out;
    }
    bool HasKnownSpender(const Txid& id)
    {
        for (auto& [t, m] : M)
            for (auto& in : m.tx->vin)
                if (in.prevout.hash == id) return true;
        return false;
    }
    bool IsOwn(const MTx& m) const { return m.kind == K_SEND || m.kind == K_BUMP; }

    // ====================================================== generator ======================================================
    struct GenCoin { COutPoint op; RefCoin coin; };
    std::vector<GenCoin> GenCoins()
    {
        std::vector<GenCoin> out;
        int t = cs.TipIdx();
        if (t < 0) return out;
        const RefBlock& T = ref().blocks[t];
        const Keyring& kr = Keys();
        for (auto& [op, c] : *T.utxo) {
            if (receive_spks.count(c.spk) || change_spks.count(c.spk) || !kr.CanSpend(c.spk)) continue;
            if (c.coinbase && T.height + 1 - c.height < ref().maturity) continue;
            if (node().pool().isSpent(op)) continue;
            if (c.value < 100000) continue;
            out.push_back({op, c});
        }
        return out;
    }
    bool SubmitToNode(const CTransactionRef& tx, const char* what)
    {
        MempoolAcceptResult::ResultType rt;
        std::string reason;
        {
            LOCK(cs_main);
            const MempoolAcceptResult res = node().cm().ProcessTransaction(tx, /*test_accept=*/false);
            rt = res.m_result_type;
            reason = res.m_state.GetRejectReason();
        }
        node().DrainSignals();
        bool ok = rt == MempoolAcceptResult::ResultType::VALID;
        ctx.evf("submit %s %s -> %s %s pool=%lu", what, Hx(tx->GetHash()).c_str(), ok ? "accepted" : "rejected", reason.c_str(), node().pool().size());
        return ok;
    }
    std::string TestAcceptReason(const CTransactionRef& tx)
    {
        LOCK(cs_main);
        const MempoolAcceptResult res = node().cm().ProcessTransaction(tx, /*test_accept=*/true);
        return res.m_result_type == MempoolAcceptResult::ResultType::VALID ? std::string("(test accept now succeeds)") : res.m_state.ToString();
    }
    Addr NewAddr(uint64_t type_sel)
    {
        OutputType t = OUTPUT_TYPES[type_sel % OUTPUT_TYPES.size()];
        auto d = wn->NewAddress(*w, t);
        if (!d) ctx.failf("sim-no-address", "getnewaddress failed: %s", wn->last_error.c_str());
        Addr a{*d, WalletNode::ScriptFor(*d)};
        receive_spks.insert(a.spk);
        addrs.push_back(a);
        return a;
    }
    CScript GenSpk(Rng& r)
    {
        static const SK kinds[] = {SK::P2WPKH, SK::P2WPKH, SK::P2PKH, SK::P2TR, SK::P2SH_P2WPKH, SK::TRUE_WSH};
        return Keys().Spk(kinds[r.below(6)], (int)r.below(N_KEYS));
    }
    CTxDestination ExternalDest(Rng& r) { return WalletNode::DestFor(GenSpk(r)); }

    /** Build one block on `parent` from the candidates that are valid there (model's judgement); deliver it if asked. */
    int BuildBlock(int parent, std::vector<CTransactionRef> cands, Rng& r, int include_pct, bool deliver)
    {
        const RefBlock& P = ref().blocks[parent];
        const int height = P.height + 1;
        const int64_t mtp = ref().MTP(parent);
        cs.now += r.range(20, 400);
        SetMockTime(std::chrono::seconds{cs.now});
        int64_t time = std::max<int64_t>(mtp + 1, cs.now);
        RefUtxo view = *P.utxo;
        std::sort(cands.begin(), cands.end(), [](auto& a, auto& b) { return a->GetHash() < b->GetHash(); });
        std::vector<CTransactionRef> pool;
        std::set<Txid> seen;
        for (auto& tx : cands)
            if (seen.insert(tx->GetHash()).second && (int)r.below(100) < include_pct) pool.push_back(tx);
        std::vector<CTransactionRef> chosen;
        CAmount fees = 0;
        bool progress = true;
        std::vector<char> used(pool.size(), 0);
        while (progress && chosen.size() < 400) {
            progress = false;
            for (size_t i = 0; i < pool.size(); ++i) {
                if (used[i]) continue;
                const CTransaction& tx = *pool[i];
                if (!ref().IsFinal(tx, height, mtp)) continue;
                CAmount fee = 0;
                if (!ref().CheckTxContextual(tx, view, height, parent, fee).empty()) continue;
                RefApplyTx(view, tx, height);
                fees += fee;
                chosen.push_back(pool[i]);
                used[i] = 1;
                progress = true;
            }
        }
        BlockExtras ex;
        ex.cb_extranonce = (uint32_t)(++cs.cb_nonce);
        ex.coinbase_spk = Keys().Spk(SK::P2WPKH, (int)r.below(N_KEYS));
        auto block = nodesim::BuildBlock(P.hash, height, time, chosen, RefSubsidy(height, ref().halving_interval) + fees, ex, node().params->GetConsensus());
        Remember(block->vtx[0]);
        int idx = cs.AddBlock(block, parent, BlockLabel{});
        if (ref().blocks[idx].verdict != Verdict::VALID) ctx.failf("sim-built-invalid-block", "block #%d: %s", idx, ref().blocks[idx].reason.c_str());
        for (auto& tx : chosen)
            if (M.count(tx->GetHash()) && IsOwn(M.at(tx->GetHash()))) ctx.probe("wallet_tx_in_block");
        if (deliver) cs.Deliver(idx, true);
        return idx;
    }
    std::vector<CTransactionRef> PoolTxs()
    {
        std::vector<CTransactionRef> v;
        for (auto& info : node().pool().infoAll()) v.push_back(info.tx);
        std::sort(v.begin(), v.end(), [](auto& a, auto& b) { return a->GetHash() < b->GetHash(); });
        return v;
    }

    // =================================================== wallet fingerprints ================================================
    struct WFp {
        uint64_t db{0};
        size_t db_records{0};
        uint64_t mem{0};
        size_t ntx{0};
    };
    WFp Fingerprint()
    {
        WFp f;
        {
            // every record of the wallet database, order-independent (SQLite returns rows in rowid order, which a rewrite changes)
            std::unique_ptr<wallet::DatabaseBatch> batch = w->GetDatabase().MakeBatch();
            std::unique_ptr<wallet::DatabaseCursor> cur = batch->GetNewCursor();
            if (!cur) ctx.failf("sim-db-cursor", "no cursor");
            while (true) {
                DataStream k, v;
                wallet::DatabaseCursor::Status st = cur->Next(k, v);
                if (st == wallet::DatabaseCursor::Status::DONE) break;
                if (st == wallet::DatabaseCursor::Status::FAIL) ctx.failf("sim-db-cursor", "cursor failed");
                uint64_t hk = strhash(std::string_view((const char*)k.data(), k.size()));
                uint64_t hv = strhash(std::string_view((const char*)v.data(), v.size()));
                f.db += mix64(hk, hv);
                ++f.db_records;
            }
        }
        uint64_t h = 0x56;
        {
            LOCK(w->cs_wallet);
            std::vector<Txid> ids;
            for (auto& [id, wtx] : w->mapWallet) ids.push_back(id);
            std::sort(ids.begin(), ids.end());
            f.ntx = ids.size();
            for (auto& id : ids) {
                const wallet::CWalletTx& wtx = w->mapWallet.at(id);
                h = mix64(h, id.ToUint256().GetUint64(0));
                h = mix64(h, wtx.GetWitnessHash().ToUint256().GetUint64(0));
                h = mix64(h, wtx.m_comment_to ? strhash(*wtx.m_comment_to) : 4);
                h = mix64(h, wtx.m_replaced_by_txid ? wtx.m_replaced_by_txid->ToUint256().GetUint64(0) : 1);
                h = mix64(h, wtx.m_replaces_txid ? wtx.m_replaces_txid->ToUint256().GetUint64(0) : 2);
                h = mix64(h, wtx.m_comment ? strhash(*wtx.m_comment) : 3);
                h = mix64(h, (uint64_t)wtx.nOrderPos);
                h = mix64(h, (uint64_t)wtx.nTimeSmart);
                h = mix64(h, wtx.mempool_conflicts.size());
            }
            w->ForEachAddrBookEntry([&](const CTxDestination& dest, const std::string& label, bool is_change, const std::optional<wallet::AddressPurpose> purpose) {
                CScript s = GetScriptForDestination(dest);
                h = mix64(h, strhash(std::string_view((const char*)s.data(), s.size())));
                h = mix64(h, strhash(label) + (is_change ? 7 : 0) + (purpose ? (uint64_t)*purpose + 11 : 0));
            });
            std::vector<COutPoint> locked;
            w->ListLockedCoins(locked);
            std::sort(locked.begin(), locked.end());
            for (auto& l : locked) h = mix64(h, l.hash.ToUint256().GetUint64(0) + l.n);
        }
        std::vector<Txid> ids = wn->WalletTxids(*w);
        for (auto& id : ids) h = mix64(h, strhash(wn->TxStateString(*w, id)));
        wallet::Balance b = wn->GetBalance(*w, true);
        h = mix64(h, (uint64_t)b.m_mine_trusted);
        h = mix64(h, (uint64_t)b.m_mine_untrusted_pending);
        h = mix64(h, (uint64_t)b.m_mine_immature);
        for (auto& c : wn->AvailableCoins(*w, /*include_unsafe=*/true)) h = mix64(h, c.outpoint.hash.ToUint256().GetUint64(0) + c.outpoint.n + (uint64_t)c.txout.nValue * 31 + (c.safe ? 5 : 0));
        f.mem = h;
        return f;
    }

    // ========================================================= ops =========================================================
    void Setup()
    {
        cs.tweak_opts = [&](NodeOpts& o) {
            o.listeners.push_back(rec);
            o.make_runner = &MakeDeferredTaskRunner; // callbacks after the emitting validation call, as on a real node (see walletsim.h)
            o.mempool_check_ratio = 0;
            o.require_standard = true;
        };
        cs.StartNode();
        WalletNodeOpts wo;
        wo.keypool = (int)std::clamp<int64_t>(ctx.knob("keypool", 5), 1, 50);
        wo.unsafe_sync = true; // durability is not under test here
        static const char* fb[] = {"0.0002", "0.00005", "0.001"};
        wo.fallbackfee = fb[std::clamp<int64_t>(ctx.knob("fallbackfee_sel", 0), 0, 2)];
        static const char* mf[] = {"0.1", "0.01", "0.5"};
        wo.extra_args.emplace_back("-maxtxfee", mf[std::clamp<int64_t>(ctx.knob("maxtxfee_sel", 0), 0, 2)]);
        wn = std::make_unique<WalletNode>(node(), wo);
        WalletCreateOpts co;
        co.seed = (uint64_t)ctx.knob("wallet_seed", 1);
        w = wn->CreateWallet(wname, co);
        if (!w) ctx.failf("wallet-create-failed", "%s", wn->last_error.c_str());
        loaded = true;
        int naddr = (int)std::clamp<int64_t>(ctx.knob("naddr", 4), 1, 12);
        for (int i = 0; i < naddr; ++i) NewAddr(i + ctx.knob("wallet_seed", 1));
        Rng r(mix64(ctx.plan.seed, 0xba5e56));
        int base = (int)std::clamp<int64_t>(ctx.knob("base", 103), 101, 300);
        for (int i = 0; i < base; ++i) BuildBlock(cs.TipIdx(), {}, r, 0, true);
        if (node().Height() != base) ctx.failf("base-chain-not-connected", "height %d after %d base blocks", node().Height(), base);
        // funding: confirmed coins of many sizes and all address types
        int nfund = (int)std::clamp<int64_t>(ctx.knob("nfund", 3), 1, 8);
        int nouts = (int)std::clamp<int64_t>(ctx.knob("fund_outs", 5), 1, 12);
        std::vector<GenCoin> funds = GenCoins();
        for (int j = 0; j < nfund && j < (int)funds.size(); ++j) {
            const GenCoin& c = funds[j];
            std::vector<CTxOut> outs;
            CAmount left = c.coin.value - 20000;
            for (int k = 0; k < nouts; ++k) {
                CAmount v;
                switch (ctx.knob("poor", 0) ? 1 : r.below(3)) {
                case 0: v = r.range(3000, 40000); break;
                case 1: v = r.range(40000, 2000000); break;
                default: v = r.range(2000000, 200000000); break;
                }
                if (v + 100000 > left) break;
                outs.emplace_back(v, addrs[r.below(addrs.size())].spk);
                left -= v;
            }
            outs.emplace_back(left, Keys().Spk(SK::P2WPKH, (int)r.below(N_KEYS)));
            bool ok = true;
            CTransactionRef tx = BuildTx({{c.op, c.coin, 0xfffffffdu}}, outs, 0, 2, SigDefect::NONE, 0, ok);
            if (SubmitToNode(tx, "fund")) Know(tx, K_FUND);
        }
        BuildBlock(cs.TipIdx(), PoolTxs(), r, 100, true);
        node().DrainSignals();
        rec->evs.clear();
        start_time = cs.now;
        ctx.evf("setup base=%d addrs=%zu funded=%ld", base, addrs.size(), (long)wn->GetBalance(*w).m_mine_trusted);
    }

    void OpReceive(const Op& op)
    {
        if (!loaded) return;
        Rng r(mix64((uint64_t)op.arg(1), 0x72637631));
        std::vector<GenCoin> funds = GenCoins();
        if (funds.empty()) { ctx.ev("receive: generator has no funds"); return; }
        GenCoin c = funds[r.below(funds.size())];
        int nouts = (int)std::clamp<int64_t>(op.arg(0), 1, 3);
        CAmount left = c.coin.value - 3000;
        std::vector<CTxOut> outs;
        for (int i = 0; i < nouts; ++i) {
            CAmount v = r.chance(1, 2) ? r.range(5000, 300000) : r.range(300000, 30000000);
            if (v + 20000 > left) break;
            CScript spk = (op.arg(2) & 1) ? NewAddr(r.below(4)).spk : addrs[r.below(addrs.size())].spk;
            outs.emplace_back(v, spk);
            left -= v;
        }
        if (outs.empty()) { ctx.ev("receive: coin too small"); return; }
        if (left > 5000) outs.emplace_back(left, Keys().Spk(SK::P2WPKH, (int)r.below(N_KEYS)));
        if (op.arg(2) & 2) std::reverse(outs.begin(), outs.end());
        bool ok = true;
        CTransactionRef tx = BuildTx({{c.op, c.coin, 0xfffffffdu}}, outs, 0, 2, SigDefect::NONE, 0, ok);
        Remember(tx);
        if (SubmitToNode(tx, "receive")) { Know(tx, K_RECEIVE); ctx.probe("receive_unconfirmed"); }
    }

    void OpSend(const Op& op)
    {
        if (!loaded) return;
        Rng r(mix64((uint64_t)op.arg(1), 0x73656e64));
        View v = MakeView();
        int nrec = (int)std::clamp<int64_t>(op.arg(0), 1, 3);
        int64_t flags = op.arg(2);
        SendSpec spec;
        CAmount budget = std::max<CAmount>(wn->GetBalance(*w).m_mine_trusted, 200000);
        if (flags & SF_TIGHT) {
            // spend one confirmed coin almost entirely: small or no change, and little room for a higher fee
            std::vector<WalletCoin> coins = wn->AvailableCoins(*w);
            std::vector<WalletCoin> conf;
            for (auto& c : coins)
                if (c.depth >= 1 && c.txout.nValue >= 8000 && c.txout.nValue <= 50000000) conf.push_back(c);
            if (!conf.empty()) {
                const WalletCoin& c = conf[r.below(conf.size())];
                spec.preset_inputs.push_back(c.outpoint);
                CAmount margin = r.chance(1, 2) ? r.range(150, 1500) : r.range(1500, 6000);
                spec.recipients.push_back(WalletNode::Recipient(ExternalDest(r), std::max<CAmount>(3000, c.txout.nValue - margin)));
                nrec = 0;
                ctx.probe("send_tight");
            }
        }
        for (int i = 0; i < nrec; ++i) {
            CAmount amt = (flags & SF_BIG) ? (CAmount)((double)budget * (double)r.range(40, 90) / 100.0 / nrec) : std::max<CAmount>(4000, (CAmount)((double)budget * (double)r.range(1, 150) / 1000.0 / nrec));
            bool self = (flags & SF_SELF) && i == 0;
            CTxDestination d = self ? addrs[r.below(addrs.size())].dest : ExternalDest(r);
            spec.recipients.push_back(WalletNode::Recipient(d, amt, (flags & SF_SUBTRACT) && i == 0));
        }
        if (flags & SF_FEERATE) spec.feerate = CFeeRate(r.chance(1, 2) ? r.range(1000, 8000) : r.range(8000, 80000));
        if (flags & SF_NOSIGNAL) spec.signal_rbf = false;
        if (flags & SF_CHAIN_CHANGE) {
            // chain on an own unconfirmed, unspent output (plus whatever else the wallet picks)
            for (size_t k = order.size(); k-- > 0 && spec.preset_inputs.size() < ((flags & SF_TIGHT) ? 2u : 1u);) {
                const MTx& m = M.at(order[k]);
                if (!IsOwn(m) || !v.pool.count(order[k])) continue;
                for (uint32_t n = 0; n < m.tx->vout.size(); ++n)
                    if (change_spks.count(m.tx->vout[n].scriptPubKey) && !v.pool_spender.count(COutPoint(order[k], n))) { spec.preset_inputs.emplace_back(order[k], n); ctx.probe("send_chained_on_own_change"); break; }
            }
        }
        if (flags & SF_CHAIN_RECEIVE) {
            for (size_t k = order.size(); k-- > 0 && spec.preset_inputs.empty();) {
                const MTx& m = M.at(order[k]);
                if (m.kind != K_RECEIVE || !v.pool.count(order[k])) continue;
                for (uint32_t n = 0; n < m.tx->vout.size(); ++n)
                    if (receive_spks.count(m.tx->vout[n].scriptPubKey) && !v.pool_spender.count(COutPoint(order[k], n))) { spec.preset_inputs.emplace_back(order[k], n); spec.include_unsafe = true; ctx.probe("send_chained_on_unconfirmed_receive"); break; }
            }
        }
        static const std::optional<OutputType> ct[] = {std::nullopt, OutputType::LEGACY, OutputType::P2SH_SEGWIT, OutputType::BECH32, OutputType::BECH32M};
        spec.change_type = ct[op.mod(3, 5)];
        SendResult res = wn->CreateTx(*w, spec);
        if (!res.ok) { ctx.evf("send failed: %s", res.error.c_str()); ctx.probe("send_failed"); return; }
        if (res.change_pos) change_spks.insert(res.tx->vout[*res.change_pos].scriptPubKey);
        wn->Commit(*w, res.tx);
        Know(res.tx, K_SEND);
        MTx& m = M.at(res.tx->GetHash());
        for (auto& in : res.tx->vin)
            if (v.pool.count(in.prevout.hash)) m.parents_unconfirmed_at_creation.insert(in.prevout.hash);
        bool inpool = node().pool().exists(res.tx->GetHash());
        ctx.evf("send %s nin=%zu nout=%zu fee=%ld vsize=%ld change=%d inpool=%d", Hx(res.tx->GetHash()).c_str(), res.tx->vin.size(), res.tx->vout.size(), (long)res.fee, (long)VSize(*res.tx), res.change_pos ? (int)*res.change_pos : -1, inpool);
        ctx.probe(inpool ? "wallet_send_in_mempool" : "wallet_send_not_accepted");
        if (!res.change_pos) ctx.probe("wallet_send_without_change");
        if (res.tx->vin.size() > 1) ctx.probe("wallet_send_multi_input");
    }

    void OpChild(const Op& op)
    {
        Rng r(mix64((uint64_t)op.arg(0), 0x6368696c));
        View v = MakeView();
        for (size_t k = order.size(); k-- > 0;) {
            const MTx& m = M.at(order[k]);
            if (!IsOwn(m) || !v.pool.count(order[k])) continue;
            for (uint32_t n = 0; n < m.tx->vout.size(); ++n) {
                const CTxOut& o = m.tx->vout[n];
                COutPoint p(order[k], n);
                if (!Keys().CanSpend(o.scriptPubKey) || v.pool_spender.count(p) || o.nValue < 6000) continue;
                bool ok = true;
                RefCoin coin{o.nValue, o.scriptPubKey, 0, false};
                CTransactionRef tx = BuildTx({{p, coin, 0xfffffffdu}}, {CTxOut(o.nValue - 2500, Keys().Spk(SK::P2WPKH, (int)r.below(N_KEYS)))}, 0, 2, SigDefect::NONE, 0, ok);
                Remember(tx);
                if (SubmitToNode(tx, "external-child")) { Know(tx, K_CHILD); ctx.probe("external_child_in_mempool"); }
                return;
            }
        }
        ctx.ev("child: no unconfirmed wallet payment a stranger could spend");
    }

    void OpMine(const Op& op)
    {
        Rng r(mix64((uint64_t)op.arg(1), 0x6d696e65));
        int n = (int)std::clamp<int64_t>(op.arg(0), 1, 3);
        int mode = (int)op.mod(2, M_NMODES);
        static const int inc[] = {100, 75, 40, 0, 100};
        for (int i = 0; i < n; ++i) {
            std::vector<CTransactionRef> cands = PoolTxs();
            if (mode == M_ANCESTORS_ONLY) {
                std::set<Txid> parents;
                for (auto& t : cands)
                    for (auto& in : t->vin) parents.insert(in.prevout.hash);
                std::vector<CTransactionRef> keep;
                for (auto& t : cands)
                    if (parents.count(t->GetHash())) keep.push_back(t);
                if (!keep.empty() && keep.size() < cands.size()) ctx.probe("block_confirms_ancestors_only");
                cands = keep;
            }
            BuildBlock(cs.TipIdx(), cands, r, inc[mode], true);
        }
        node().DrainSignals();
    }

    void OpReorg(const Op& op)
    {
        int t = cs.TipIdx();
        if (t < 0) return;
        Rng r(mix64((uint64_t)op.arg(1), 0x72656f72));
        int depth = (int)std::clamp<int64_t>(op.arg(0), 1, 3);
        int H = ref().blocks[t].height;
        int base = (int)std::clamp<int64_t>(ctx.knob("base", 103), 101, 300);
        if (H - depth < base + 1) { ctx.ev("reorg: would disconnect the funding block"); return; }
        int fork = ref().Ancestor(t, H - depth);
        bool had_tx = false;
        for (int b : ref().PathFrom(fork, t))
            if (ref().blocks[b].block->vtx.size() > 1) had_tx = true;
        int parent = fork;
        std::vector<int> branch;
        for (int i = 0; i < depth + 1; ++i) { parent = BuildBlock(parent, {}, r, 0, false); branch.push_back(parent); }
        for (int b : branch) cs.Deliver(b, true);
        node().DrainSignals();
        int nt = cs.TipIdx();
        if (nt >= 0 && !ref().IsAncestor(t, nt)) { ctx.probe("reorg"); if (had_tx) ctx.probe("reorg_unconfirms_transactions"); }
    }

    void OpReload()
    {
        if (!loaded) return;
        node().DrainSignals();
        wn->UnloadWallet(w);
        loaded = false;
        w = wn->LoadWallet(wname);
        if (!w) ctx.failf("wallet-load-failed", "%s", wn->last_error.c_str());
        loaded = true;
        ++loads;
        node().DrainSignals();
        ctx.probe("wallet_reloaded");
        ctx.evf("reload txs=%zu", wn->WalletTxids(*w).size());
    }

    // ------------------------------------------------------- the bump -------------------------------------------------------
    struct Viol { std::string cls, detail; bool low_priority; };
    /** First violation of one of the classes that describe a suspected defect of the code under test (see Engine::assumptions): the run goes
     *  on so that such a case cannot hide a violation of another clause later in the same history, and fails with it at the end. */
    std::optional<Viol> deferred;

    /** Multiset inclusion of `need` in `have`; returns the first missing output or nullptr; `leftover` = indices of `have` not matched. */
    static const CTxOut* MissingOutput(const std::vector<CTxOut>& need, const std::vector<CTxOut>& have, std::vector<size_t>& leftover)
    {
        std::vector<char> used(have.size(), 0);
        const CTxOut* missing = nullptr;
        for (auto& n : need) {
            bool found = false;
            for (size_t i = 0; i < have.size(); ++i)
                if (!used[i] && have[i] == n) { used[i] = 1; found = true; break; }
            if (!found && !missing) missing = &n;
        }
        leftover.clear();
        for (size_t i = 0; i < have.size(); ++i)
            if (!used[i]) leftover.push_back(i);
        return missing;
    }

    void OpBump(const Op& op)
    {
        if (!loaded) return;
        node().DrainSignals();
        Rng r(mix64((uint64_t)op.arg(6), 0x62756d70));
        View v = MakeView();

        // ---- target ----
        int cat = (int)op.mod(0, T_NCATS);
        std::vector<Txid> cand;
        auto collect = [&](int c) {
            cand.clear();
            for (size_t k = order.size(); k-- > 0;) {
                const Txid& id = order[k];
                const MTx& m = M.at(id);
                bool conf = v.conf.count(id) > 0;
                switch (c) {
                case T_RECENT: if (IsOwn(m) && !conf && !m.replaced_by && cand.size() < 6) cand.push_back(id); break;
                case T_ANY_OWN: if (IsOwn(m)) cand.push_back(id); break;
                case T_CONFIRMED: if (IsOwn(m) && conf) cand.push_back(id); break;
                case T_REPLACED: if (m.replaced_by) cand.push_back(id); break;
                case T_FOREIGN: if (!IsOwn(m)) cand.push_back(id); break;
                case T_WITH_DESCENDANTS: if (IsOwn(m) && !conf && (!PoolDescendants(v, id).empty() || HasKnownSpender(id))) cand.push_back(id); break;
                default: break;
                }
            }
        };
        Txid id;
        const MTx* mt = nullptr;
        if (cat == T_UNKNOWN) {
            uint256 h;
            Rng hr((uint64_t)op.arg(1) + 77);
            hr.fill(h.begin(), 32);
            id = Txid::FromUint256(h);
        } else {
            collect(cat);
            if (cand.empty()) { cat = T_ANY_OWN; collect(cat); }
            if (cand.empty()) { ctx.ev("bump: the wallet has sent nothing yet"); return; }
            id = cand[op.mod(1, cand.size())];
            mt = &M.at(id);
        }
        const bool in_chain = v.conf.count(id) > 0;
        const bool in_pool = v.pool.count(id) > 0;
        const bool already_replaced = mt && mt->replaced_by.has_value();
        const bool must_refuse = in_chain || already_replaced; // the statement's list; signalling is required nowhere in this code base
        const std::set<Txid> pool_desc = mt ? PoolDescendants(v, id) : std::set<Txid>{};
        const CAmount old_fee_model = (mt && !mt->tx->IsCoinBase()) ? ModelFee(*mt->tx) : 0;
        const int64_t old_vsize = mt ? VSize(*mt->tx) : 0;
        const int64_t inc_rate = node().pool().m_opts.incremental_relay_feerate.GetFeePerK(); // node configuration

        // ---- the caller's idea of change: scripts the wallet itself reported as change, or the designated index ----
        std::vector<size_t> change_idx, recipient_idx;
        if (mt)
            for (size_t i = 0; i < mt->tx->vout.size(); ++i) (change_spks.count(mt->tx->vout[i].scriptPubKey) ? change_idx : recipient_idx).push_back(i);

        // ---- arguments ----
        wallet::CCoinControl cc;
        cc.m_signal_bip125_rbf = !(op.arg(7) & 1);
        std::vector<CTxOut> outputs;
        std::optional<uint32_t> oci;
        int omode = mt ? (int)op.mod(4, O_NMODES) : O_NONE;
        int cmode = mt ? (int)op.mod(5, C_NMODES) : C_NONE;
        if (omode != O_NONE) {
            std::vector<CTxOut> recips;
            for (size_t i : recipient_idx) recips.push_back(mt->tx->vout[i]);
            auto fresh = [&](CAmount lo, CAmount hi) { return CTxOut(r.range(lo, hi), r.chance(1, 4) ? addrs[r.below(addrs.size())].spk : GenSpk(r)); };
            switch (omode) {
            case O_REVALUE:
                for (auto& o : recips) outputs.emplace_back(std::max<CAmount>(700, (CAmount)((double)o.nValue * (double)r.range(40, 125) / 100.0)), o.scriptPubKey);
                break;
            case O_SHRINK:
                if (!recips.empty()) outputs.push_back(recips[r.below(recips.size())]);
                break;
            case O_GROW: {
                outputs = recips;
                int extra = (int)r.range(1, 3);
                for (int i = 0; i < extra; ++i) outputs.push_back(fresh(1000, r.chance(1, 3) ? 2000000 : 60000));
                break;
            }
            case O_WITH_CHANGE:
                outputs = recips;
                if (r.chance(1, 2)) outputs.push_back(fresh(1000, 60000));
                if (!change_idx.empty()) {
                    const CTxOut& c = mt->tx->vout[change_idx[0]];
                    outputs.insert(outputs.begin() + r.below(outputs.size() + 1), CTxOut(r.range(700, std::max<CAmount>(701, c.nValue)), c.scriptPubKey));
                }
                break;
            case O_DUST:
                outputs = recips;
                outputs.push_back(CTxOut(r.range(1, 250), GenSpk(r)));
                break;
            default: // O_UNAFFORDABLE
                outputs = recips;
                outputs.push_back(CTxOut(wn->GetBalance(*w, true).m_mine_trusted + old_fee_model + r.range(1, 1000000), GenSpk(r)));
                break;
            }
            if (outputs.empty()) outputs.push_back(fresh(1000, 60000));
        }
        if (cmode == C_CHANGE && !change_idx.empty()) oci = (uint32_t)change_idx[r.below(change_idx.size())];
        else if (cmode == C_RECIPIENT && !recipient_idx.empty()) oci = (uint32_t)recipient_idx[r.below(recipient_idx.size())];
        else if (cmode == C_OUT_OF_RANGE) oci = (uint32_t)(mt->tx->vout.size() + r.below(3));
        // estimated size of the replacement if nothing but the outputs changes (for feerates aimed at the minimum)
        int64_t est_vsize = old_vsize;
        if (mt && !outputs.empty()) {
            for (auto& o : mt->tx->vout) est_vsize -= (int64_t)GetSerializeSize(o);
            for (auto& o : outputs) est_vsize += (int64_t)GetSerializeSize(o);
            bool has_change_script = false;
            for (auto& o : outputs) has_change_script |= change_spks.count(o.scriptPubKey) > 0;
            if (!has_change_script && !change_idx.empty() && r.coin()) est_vsize += (int64_t)GetSerializeSize(mt->tx->vout[change_idx[0]]);
            est_vsize = std::max<int64_t>(est_vsize, 60);
        }
        int fmode = (int)op.mod(2, F_NMODES);
        std::optional<int64_t> requested; // sat per kvB
        switch (fmode) {
        case F_RANDOM: {
            Rng fr((uint64_t)op.arg(3) + 1);
            int64_t lo = mt && old_vsize ? old_fee_model * 1000 / old_vsize : 1000;
            requested = op.arg(3) >= 1000 && op.arg(3) <= 5000000 && (op.arg(3) % 7) == 0 ? op.arg(3) : (fr.chance(2, 3) ? lo + fr.range(100, 6000) : fr.range(1000, 250000));
            break;
        }
        case F_BOUNDARY: {
            // the smallest total the rules allow (old fee + incremental fee for the new size), a few satoshis either side
            Rng fr((uint64_t)op.arg(3) + 2);
            // anywhere between the minimum for the smaller of (old size, expected new size) and the minimum for the larger, +-8 sat
            int64_t lo_total = old_fee_model + FeeAt(inc_rate, std::min(old_vsize, est_vsize)) - 8;
            int64_t hi_total = old_fee_model + FeeAt(inc_rate, std::max(old_vsize, est_vsize)) + 8;
            int64_t total = fr.range(lo_total, hi_total);
            requested = std::max<int64_t>(1, fr.coin() ? (total * 1000 + est_vsize - 1) / std::max<int64_t>(est_vsize, 1) : total * 1000 / std::max<int64_t>(est_vsize, 1));
            break;
        }
        case F_LOW: {
            Rng fr((uint64_t)op.arg(3) + 3);
            int64_t lo = mt && old_vsize ? old_fee_model * 1000 / old_vsize : 1000;
            requested = std::max<int64_t>(1, fr.chance(1, 2) ? lo - fr.range(0, 900) : fr.range(1, 1100));
            break;
        }
        case F_HUGE: {
            Rng fr((uint64_t)op.arg(3) + 4);
            requested = fr.range(2000000, 60000000);
            break;
        }
        default: break;
        }
        if (requested) cc.m_feerate = CFeeRate(*requested);

        // ---- the calls, as the bumpfee RPC makes them ----
        const WFp before = Fingerprint();
        const bool can = wallet::feebumper::TransactionCanBeBumped(*w, id);
        std::vector<bilingual_str> errors;
        CAmount old_fee = 0, new_fee = 0;
        CMutableTransaction mtx;
        wallet::feebumper::Result res = wallet::feebumper::CreateRateBumpTransaction(*w, id, cc, errors, old_fee, new_fee, mtx, /*require_mine=*/true, outputs, oci);
        const std::string err0 = errors.empty() ? std::string() : errors[0].original;
        ctx.evf("bump %s cat=%s chain=%d pool=%d replaced=%d desc=%zu | %s rate=%ld %s(n=%zu) %s(%d) -> can=%d res=%d %s", Hx(id).c_str(), kTargetNames[cat], in_chain, in_pool, already_replaced, pool_desc.size(), kFeeNames[fmode],
                (long)requested.value_or(-1), kOutNames[omode], outputs.size(), kOciNames[cmode], oci ? (int)*oci : -1, can, (int)res, err0.substr(0, 100).c_str());
        if (mt && (in_chain || already_replaced)) ctx.nontrivial = true;

        if (must_refuse && can)
            ctx.failf(in_chain ? "confirmed-tx-reported-bumpable" : "already-replaced-tx-reported-bumpable", "TransactionCanBeBumped(%s) is true although the transaction %s", Hx(id).c_str(),
                      in_chain ? "is confirmed in the active chain" : ("was already replaced by " + Hx(*mt->replaced_by)).c_str());

        if (res != wallet::feebumper::Result::OK) {
            // ---- refused: nothing may have changed ----
            const WFp after = Fingerprint();
            const char* why = "refused_other";
            if (err0.find("has been mined") != std::string::npos) why = "refused_confirmed_or_conflicted";
            else if (err0.find("already bumped") != std::string::npos) why = "refused_already_replaced";
            else if (err0.find("is already spent") != std::string::npos) why = "refused_inputs_already_spent";
            else if (err0.find("descendants in the wallet") != std::string::npos) why = "refused_wallet_descendants";
            else if (err0.find("descendants in the mempool") != std::string::npos) why = "refused_mempool_descendants";
            else if (err0.find("don't belong to this wallet") != std::string::npos) why = "refused_not_mine";
            else if (err0.find("Invalid or non-wallet") != std::string::npos) why = "refused_unknown_txid";
            else if (err0.find("incompatible") != std::string::npos) why = "refused_outputs_with_change_index";
            else if (err0.find("out of range") != std::string::npos) why = "refused_change_index_out_of_range";
            else if (err0.find("Insufficient total fee") != std::string::npos) why = "refused_insufficient_total_fee";
            else if (err0.find("lower than the minimum fee rate") != std::string::npos) why = "refused_feerate_below_minimum";
            else if (err0.find("too high") != std::string::npos || err0.find("exceeds") != std::string::npos || err0.find("maxtxfee") != std::string::npos) why = "refused_above_maxtxfee";
            else if (err0.find("amount too small") != std::string::npos) why = "refused_dust_output";
            else if (err0.find("Insufficient funds") != std::string::npos || err0.find("exceeds your balance") != std::string::npos) why = "refused_insufficient_funds";
            else if (err0.find("Unable to create transaction") != std::string::npos) why = "refused_create_transaction_other";
            ctx.probe(why);
            if (in_chain) ctx.probe("bump_of_confirmed_refused");
            if (already_replaced) ctx.probe("bump_of_already_replaced_refused");
            if (after.mem != before.mem || after.ntx != before.ntx)
                ctx.failf("refused-bump-changed-wallet-state", "bump of %s was refused (%s) but the wallet's transactions / address book / locked coins / balances / spendable coins changed (txs %zu -> %zu)", Hx(id).c_str(), err0.c_str(),
                          before.ntx, after.ntx);
            if (after.db != before.db || after.db_records != before.db_records) {
                // only the keypool may move while a refused bump tried to build a transaction (the reserved change address is returned);
                // a bump refused by the preconditions (the statement's cases) does not get that far
                bool precondition = must_refuse || err0.find("is already spent") != std::string::npos || err0.find("descendants") != std::string::npos || err0.find("don't belong") != std::string::npos || err0.find("Invalid or non-wallet") != std::string::npos ||
                                    err0.find("incompatible") != std::string::npos || err0.find("out of range") != std::string::npos;
                if (precondition)
                    ctx.failf("refused-bump-changed-wallet-database", "bump of %s was refused (%s) but the wallet database changed (records %zu -> %zu)", Hx(id).c_str(), err0.c_str(), before.db_records, after.db_records);
                ctx.probe("refused_bump_moved_keypool_records");
            }
            return;
        }

        // ---- created ----
        if (!mt) ctx.failf("bump-of-unknown-txid-created", "CreateRateBumpTransaction succeeded for %s which no one ever built", Hx(id).c_str());
        if (in_chain) ctx.failf("confirmed-tx-bumped", "CreateRateBumpTransaction succeeded for %s which is confirmed at height %d", Hx(id).c_str(), v.conf.at(id));
        if (already_replaced) ctx.failf("already-replaced-tx-bumped", "CreateRateBumpTransaction succeeded for %s which was already replaced by %s", Hx(id).c_str(), Hx(*mt->replaced_by).c_str());
        std::vector<Viol> viols;
        auto viol = [&](const char* cls, bool low, const char* fmt, auto... args) {
            char buf[1500];
            snprintf(buf, sizeof buf, fmt, args...);
            viols.push_back({cls, buf, low});
        };
        const CTransaction& O = *mt->tx;
        // (1) every input of the original is spent
        {
            std::set<COutPoint> spent;
            for (auto& in : mtx.vin) spent.insert(in.prevout);
            for (auto& in : O.vin)
                if (!spent.count(in.prevout)) { viol("replacement-drops-input-of-original", false, "replacement of %s does not spend its input %s:%u (original %zu inputs, replacement %zu)", Hx(id).c_str(), Hx(in.prevout.hash).c_str(), in.prevout.n, O.vin.size(), mtx.vin.size()); break; }
        }
        // (2) non-change outputs kept / supplied outputs paid
        std::vector<CTxOut> must_keep;
        if (outputs.empty()) {
            for (size_t i = 0; i < O.vout.size(); ++i) {
                bool is_change = oci ? (*oci == i) : change_spks.count(O.vout[i].scriptPubKey) > 0;
                if (!is_change) must_keep.push_back(O.vout[i]);
            }
        } else {
            for (auto& o : outputs)
                if (!change_spks.count(o.scriptPubKey)) must_keep.push_back(o);
        }
        std::vector<size_t> leftover;
        if (const CTxOut* miss = MissingOutput(must_keep, mtx.vout, leftover))
            viol(outputs.empty() ? "replacement-changes-non-change-output" : "replacement-lacks-supplied-output", false, "replacement of %s has no output paying %ld to %s (%s; original %zu outputs, replacement %zu)", Hx(id).c_str(), (long)miss->nValue,
                 HexStr(miss->scriptPubKey).substr(0, 24).c_str(), outputs.empty() ? "a non-change output of the original" : "an output the caller supplied", O.vout.size(), mtx.vout.size());

        // ---- sign and commit ----
        if (!wallet::feebumper::SignTransaction(*w, mtx)) {
            ctx.probe("bump_sign_failed");
            ctx.evf("bump %s: signing failed", Hx(id).c_str());
            if (!viols.empty()) ctx.fail(viols[0].cls, viols[0].detail);
            return;
        }
        CTransactionRef N = MakeTransactionRef(mtx);
        Remember(N);
        // A second replacement of the same transaction, prepared (created and signed) before the first one is committed - two
        // confirmation dialogs, or two RPC threads. Committing it after the first must be refused.
        std::optional<CMutableTransaction> second;
        if (N->GetHash().ToUint256().GetUint64(0) % 3 == 0) {
            CMutableTransaction m2;
            std::vector<bilingual_str> e2;
            CAmount of2 = 0, nf2 = 0;
            if (wallet::feebumper::CreateRateBumpTransaction(*w, id, cc, e2, of2, nf2, m2, /*require_mine=*/true, outputs, oci) == wallet::feebumper::Result::OK && wallet::feebumper::SignTransaction(*w, m2)) {
                second = m2;
                Remember(MakeTransactionRef(m2));
            }
        }
        rec->evs.clear();
        Txid new_id;
        wallet::feebumper::Result cres = wallet::feebumper::CommitTransaction(*w, id, std::move(mtx), errors, new_id);
        node().DrainSignals();
        if (second && cres == wallet::feebumper::Result::OK) {
            const Txid id2 = second->GetHash();
            const size_t ntx = WITH_LOCK(w->cs_wallet, return w->mapWallet.size());
            std::vector<bilingual_str> e3;
            Txid nid2;
            wallet::feebumper::Result c2 = wallet::feebumper::CommitTransaction(*w, id, std::move(*second), e3, nid2);
            node().DrainSignals();
            ctx.probe("stale_second_replacement_commit_attempted");
            const size_t ntx2 = WITH_LOCK(w->cs_wallet, return w->mapWallet.size());
            if (id2 != N->GetHash() && (c2 == wallet::feebumper::Result::OK || ntx2 != ntx))
                ctx.failf("already-replaced-tx-bumped", "a second replacement %s of %s, prepared before the first (%s) was committed, was committed afterwards (result %d, wallet transactions %zu -> %zu)", Hx(id2).c_str(), Hx(id).c_str(), Hx(N->GetHash()).c_str(), (int)c2, ntx, ntx2);
        }
        if (cres != wallet::feebumper::Result::OK)
            ctx.failf("bump-commit-refused-after-create", "CommitTransaction refused the replacement of %s right after CreateRateBumpTransaction accepted it: %s", Hx(id).c_str(), errors.empty() ? "" : errors[0].original.c_str());
        // the harness's record follows the wallet's acknowledgement
        Know(N, K_BUMP);
        M.at(id).replaced_by = N->GetHash();
        M.at(N->GetHash()).replaces = id;
        for (auto& in : N->vin)
            if (v.pool.count(in.prevout.hash)) M.at(N->GetHash()).parents_unconfirmed_at_creation.insert(in.prevout.hash);
        std::set<CScript> wallet_scripts = wn->AllScripts(*w);
        int new_change_outputs = 0;
        for (size_t i : leftover)
            if (wallet_scripts.count(N->vout[i].scriptPubKey) && !receive_spks.count(N->vout[i].scriptPubKey)) { change_spks.insert(N->vout[i].scriptPubKey); ++new_change_outputs; }
        if (new_id != N->GetHash()) viol("bumped-txid-wrong", false, "CommitTransaction reports %s, the signed replacement is %s", Hx(new_id).c_str(), Hx(N->GetHash()).c_str());

        // (3) fee >= old fee + incremental relay fee for the new size; (4) fee >= requested feerate
        const int64_t new_vsize = VSize(*N);
        const CAmount new_fee_model = ModelFee(*N);
        const CAmount need_incremental = old_fee_model + FeeAt(inc_rate, new_vsize);
        const bool shrunk = new_vsize < old_vsize;
        const int64_t old_weight = Weight(O), new_weight = Weight(*N);
        // the replacement's feerate is not above the original's (exact, per weight unit)
        const bool rate_not_above = new_fee_model * old_weight <= old_fee_model * new_weight;
        if (new_fee_model < need_incremental) {
            // a replacement smaller than the original built from a feerate alone: see Engine::assumptions
            const bool by_rate_only = !requested && !outputs.empty() && shrunk;
            // explicit feerate, and one of the supplied outputs pays to a change script of the wallet: CheckFeeRate judges the total fee
            // on a transaction with all supplied outputs, CreateTransaction then turns that output into the change destination and may
            // drop it, so the transaction that is built is smaller than the one that was checked
            const bool fewer_than_supplied = requested && outputs.size() > N->vout.size();
            viol(by_rate_only ? "smaller-replacement-at-estimated-feerate-pays-less-than-original-plus-incremental" :
                 fewer_than_supplied ? "fewer-outputs-than-supplied-at-requested-feerate-pays-less-than-original-plus-incremental" : "replacement-fee-below-original-plus-incremental", by_rate_only || fewer_than_supplied,
                 "replacement %s of %s pays %ld for %ld vB; the original paid %ld for %ld vB, so at least %ld + %ld = %ld is due (requested feerate: %ld sat/kvB, outputs supplied: %zu)", Hx(N->GetHash()).c_str(), Hx(id).c_str(),
                 (long)new_fee_model, (long)new_vsize, (long)old_fee_model, (long)old_vsize, (long)old_fee_model, (long)FeeAt(inc_rate, new_vsize), (long)need_incremental, (long)requested.value_or(-1), outputs.size());
        }
        if (requested && new_fee_model * 1000 < *requested * new_vsize)
            viol("replacement-fee-below-requested-feerate", false, "replacement %s pays %ld for %ld vB = %ld sat/kvB, requested %ld sat/kvB", Hx(N->GetHash()).c_str(), (long)new_fee_model, (long)new_vsize,
                 (long)(new_fee_model * 1000 / std::max<int64_t>(new_vsize, 1)), (long)*requested);
        if (old_fee != old_fee_model || new_fee != new_fee_model)
            viol("bump-reports-wrong-fees", false, "CreateRateBumpTransaction reports old fee %ld / new fee %ld, the transactions pay %ld / %ld", (long)old_fee, (long)new_fee, (long)old_fee_model, (long)new_fee_model);

        // (5) the mempool took it as a replacement of exactly the original (and its descendants)
        std::set<Txid> replaced, added;
        for (auto& e : rec->evs) {
            if (e.added) added.insert(e.tx->GetHash());
            else if (e.reason == MemPoolRemovalReason::REPLACED) replaced.insert(e.tx->GetHash());
        }
        rec->evs.clear();
        const bool new_in_pool = node().pool().exists(N->GetHash());
        if (in_pool) {
            if (!new_in_pool) {
                std::string reason = TestAcceptReason(N);
                const bool fee_short = new_fee_model < need_incremental;
                const char* cls = "replacement-rejected-by-mempool";
                bool low = false;
                if (fee_short && !requested && !outputs.empty() && shrunk) { cls = "smaller-replacement-at-estimated-feerate-rejected-by-mempool"; low = true; }
                else if (fee_short && requested && outputs.size() > N->vout.size()) { cls = "fewer-outputs-than-supplied-at-requested-feerate-rejected-by-mempool"; low = true; }
                else if (!fee_short && requested && rate_not_above && new_weight > old_weight) { cls = "larger-replacement-at-requested-feerate-not-above-original-feerate-rejected-by-mempool"; low = true; }
                else if (!fee_short && !requested && rate_not_above && new_weight > old_weight) { cls = "larger-replacement-at-estimated-feerate-not-above-original-feerate-per-weight-rejected-by-mempool"; low = true; }
                viol(cls, low, "replacement %s (fee %ld, %ld vB) of %s (fee %ld, %ld vB, in the mempool) was committed by the wallet but the node's mempool does not hold it: %s (weights %ld -> %ld, requested %ld sat/kvB, outputs supplied: %zu)", Hx(N->GetHash()).c_str(),
                     (long)new_fee_model, (long)new_vsize, Hx(id).c_str(), (long)old_fee_model, (long)old_vsize, reason.c_str(), (long)old_weight, (long)new_weight, (long)requested.value_or(-1), outputs.size());
            } else {
                std::set<Txid> expect = pool_desc;
                expect.insert(id);
                if (replaced != expect) {
                    std::string got;
                    for (auto& t : replaced) got += " " + Hx(t);
                    viol("mempool-replaced-set-differs", false, "replacement %s of %s: the mempool reports%s as replaced (%zu), expected the original and its %zu descendants", Hx(N->GetHash()).c_str(), Hx(id).c_str(), got.c_str(),
                         replaced.size(), pool_desc.size());
                }
                if (node().pool().exists(id)) viol("original-still-in-mempool", false, "original %s is still in the mempool next to its replacement %s", Hx(id).c_str(), Hx(N->GetHash()).c_str());
                if (!added.count(N->GetHash())) viol("replacement-not-announced", false, "replacement %s is in the mempool but was not announced", Hx(N->GetHash()).c_str());
            }
        } else {
            ctx.probe(new_in_pool ? "bump_of_tx_outside_mempool_accepted" : "bump_of_tx_outside_mempool_not_accepted");
        }
        // (6) the wallet remembers
        {
            LOCK(w->cs_wallet);
            const wallet::CWalletTx* o = w->GetWalletTx(id);
            const wallet::CWalletTx* n = w->GetWalletTx(N->GetHash());
            if (!o || !o->m_replaced_by_txid || *o->m_replaced_by_txid != N->GetHash())
                viol("original-not-marked-replaced", false, "after the bump the wallet's record of %s has replaced_by_txid = %s, expected %s", Hx(id).c_str(), (o && o->m_replaced_by_txid) ? Hx(*o->m_replaced_by_txid).c_str() : "none", Hx(N->GetHash()).c_str());
            if (!n || !n->m_replaces_txid || *n->m_replaces_txid != id)
                viol("replacement-not-recorded", false, "after the bump the wallet %s the replacement %s / replaces_txid is %s", n ? "has" : "lacks", Hx(N->GetHash()).c_str(), (n && n->m_replaces_txid) ? Hx(*n->m_replaces_txid).c_str() : "none");
        }
        ctx.evf("bumped %s -> %s nin=%zu->%zu nout=%zu->%zu fee=%ld->%ld vsize=%ld->%ld inpool=%d replaced=%zu viol=%zu", Hx(id).c_str(), Hx(N->GetHash()).c_str(), O.vin.size(), N->vin.size(), O.vout.size(), N->vout.size(), (long)old_fee_model,
                (long)new_fee_model, (long)old_vsize, (long)new_vsize, new_in_pool, replaced.size(), viols.size());
        if (!viols.empty()) {
            for (auto& x : viols)
                if (!x.low_priority) ctx.fail(x.cls, x.detail);
            if (!deferred) deferred = viols[0];
            ctx.probe("suspected_defect_case_deferred");
            return;
        }

        // ---- reach ----
        ctx.nontrivial = true;
        ctx.probe("bump_ok");
        if (requested) ctx.probe("bump_ok_explicit_feerate"); else ctx.probe("bump_ok_estimated_feerate");
        if (requested && new_fee_model - need_incremental <= 30) ctx.probe("bump_ok_within_30_sat_of_minimum");
        if (!outputs.empty()) ctx.probe("bump_ok_outputs_replaced");
        if (omode == O_SHRINK && shrunk) ctx.probe("bump_ok_smaller_than_original");
        if (omode == O_GROW) ctx.probe("bump_ok_outputs_added");
        if (omode == O_WITH_CHANGE) ctx.probe("bump_ok_outputs_with_old_change_script");
        if (oci) ctx.probe(cmode == C_CHANGE ? "bump_ok_change_index_is_change" : "bump_ok_change_index_is_recipient");
        if (N->vin.size() > O.vin.size()) ctx.probe("bump_ok_inputs_added");
        CAmount old_change = 0, new_change = 0;
        for (size_t i : change_idx) old_change += O.vout[i].nValue;
        for (size_t i : leftover)
            if (change_spks.count(N->vout[i].scriptPubKey)) new_change += N->vout[i].nValue;
        if (!change_idx.empty() && new_change_outputs == 0 && outputs.empty()) ctx.probe("bump_ok_change_removed");
        if (!change_idx.empty() && new_change_outputs > 0 && new_change < old_change) ctx.probe("bump_ok_change_reduced");
        if (change_idx.empty() && outputs.empty()) ctx.probe("bump_ok_original_without_change");
        if (mt->kind == K_BUMP) ctx.probe("bump_of_bump_ok");
        if (mt->load_epoch != loads) ctx.probe("bump_ok_after_reload");
        bool nosignal = true;
        for (auto& in : O.vin) nosignal &= in.nSequence > MAX_BIP125_RBF_SEQUENCE;
        if (nosignal) ctx.probe("bump_ok_original_not_signalling");
        bool parent_now_conf = false, parent_unconf = false;
        for (auto& p : M.at(id).parents_unconfirmed_at_creation) (v.conf.count(p) ? parent_now_conf : parent_unconf) = true;
        if (parent_now_conf) ctx.probe("bump_ok_after_ancestor_confirmed");
        if (parent_unconf) ctx.probe("bump_ok_with_unconfirmed_ancestor");
        if (!in_pool) ctx.probe("bump_ok_original_outside_mempool");
    }

    void FingerprintModel()
    {
        View v = MakeView();
        uint64_t fp = mix64(ref().blocks[v.tip].hash.GetUint64(0), v.pool.size());
        for (auto& id : order) {
            const MTx& m = M.at(id);
            fp = mix64(fp, (uint64_t)m.kind * 8 + (v.conf.count(id) ? 1 : v.pool.count(id) ? 2 : 3) + (m.replaced_by ? 4 : 0));
        }
        ctx.fingerprint(fp);
    }

    void Exec(const Op& op)
    {
        switch (op.kind) {
        case B_RECEIVE: OpReceive(op); break;
        case B_SEND: OpSend(op); break;
        case B_BUMP: OpBump(op); break;
        case B_MINE: OpMine(op); break;
        case B_CHILD: OpChild(op); break;
        case B_REORG: OpReorg(op); break;
        case B_RELOAD: OpReload(); break;
        case B_CLOCK:
            cs.now += std::clamp<int64_t>(op.arg(0), 1, 100000);
            SetMockTime(std::chrono::seconds{cs.now});
            ctx.evf("clock+%ld", (long)op.arg(0));
            break;
        default: break;
        }
        node().DrainSignals();
        if (node().Fatal()) ctx.failf("node-fatal-error", "%s", Describe(op).c_str());
        FingerprintModel();
    }

    void Run()
    {
        Setup();
        for (const Op& op : ctx.plan.ops) Exec(op);
        ctx.sim_ms = (uint64_t)(cs.now - start_time) * 1000;
#ifndef C56_SUPPRESS_DEFERRED // private sensitivity builds only: lets mutant runs show classes other than the deferred ones
        if (deferred) ctx.fail(deferred->cls, deferred->detail);
#endif
        w.reset();
        wn->Detach();
        node().Stop(true);
    }
};

void Run(Ctx& ctx)
{
    BumpSim s(ctx);
    s.Run();
}

Engine MakeEngine()
{
    Engine e;
    e.prop = "C56";
    e.name = "walletsim/feebump";
    e.level = "exploration";
    e.gen = Gen;
    e.run = Run;
    e.describe = Describe;
    e.chunk = 1;
    e.quick_runs = 1600;
    e.thorough_runs = 40000;
    e.quick_budget_s = 50;
    e.thorough_budget_s = 900;
    e.run_timeout_s = 300;
    e.rule = "each run = one history on a real regtest node with a real descriptor wallet (SQLite, HD seed from the plan) attached through interfaces::Chain: 101-107 base blocks, 2-4 confirmed funding transactions paying 3-8 wallet "
             "addresses of all types each (3 k sat - 2 BTC; 1 run in 4 has a poor wallet: one funding transaction with 2-3 coins, so that bumps run out of confirmed inputs), then 12-70 operations (knobs: keypool, fallback fee, -maxtxfee; per-run operation and argument mix) with, at 1 in 5 positions, a short scripted scenario made of the same "
             "operations: wallet sends (1-3 recipients, self-sends, subtract-fee, explicit feerate, not signalling, chained on own unconfirmed change or on an unconfirmed receive, 'tight' = one coin spent almost entirely so that change "
             "is small or absent), unconfirmed receives, a stranger's child of a wallet payment, blocks confirming all / 75% / 40% / none / only-the-ancestors of the mempool, reorgs to an empty branch, wallet unload+load, and "
             "bumpfee = TransactionCanBeBumped + CreateRateBumpTransaction + SignTransaction + CommitTransaction on a transaction chosen by category (recent unconfirmed own, any own, confirmed, already replaced, foreign, unknown txid, "
             "with descendants) x feerate mode (none, explicit, explicit, aimed between (old fee + incremental fee for the old size) and (old fee + incremental fee for the expected new size) +-8 sat, too low, huge) x outputs mode (kept, re-valued, fewer, more, with the old change "
             "script, with dust, unaffordable) x original_change_index mode (none, the change, a recipient, out of range). non-trivial = a bump was created and committed, or a confirmed / already replaced transaction was refused; "
             "distinct = (tip, mempool size, per known transaction: kind, confirmed / mempool / neither, replaced) fingerprints.";
    e.real_components = {"wallet::feebumper (PreconditionChecks, CheckFeeRate, EstimateFeeRate, CreateRateBumpTransaction, SignTransaction, CommitTransaction, TransactionCanBeBumped)",
                         "wallet::CreateTransaction / coin selection / CalculateMaximumSignedTxSize / signing, CWallet::CommitTransaction, MarkReplaced, HasWalletSpend, GetTxDepthInMainChain, OutputIsChange, AllInputsMine",
                         "DescriptorScriptPubKeyMan, wallet SQLite database", "interfaces::Chain (findCoins, hasDescendantsInMempool, calculateCombinedBumpFee, relayIncrementalFee, mempoolMinFee, broadcastTransaction)",
                         "ChainstateManager, CTxMemPool + MemPoolAccept (replacement rules), ValidationSignals"};
    e.stub_components = {"peers (PeerManager stub: relay is a no-op)", "clock (SetMockTime)", "scheduler (none: notifications are delivered right after the emitting call)", "fee estimator (none: fallback fee or explicit feerate)",
                         "HD seed (derived from the plan instead of GetStrongRandBytes)"};
    e.assumptions = {"fees and sizes are recomputed by the harness from its own record of every transaction it or the wallet ever built (inputs - outputs; BIP141 vsize of the signed replacement); the incremental relay feerate is read from "
                     "the node's mempool options (configuration, default 100 sat/kvB) and applied with round-up",
                     "'change' of an original = outputs paying a script the wallet itself reported as change when it built that transaction (CreatedTransactionResult::change_pos, or the one new wallet-owned output of an earlier "
                     "bump), or the output the caller designates with original_change_index; every other output must reappear with the same script and value. With supplied outputs, every supplied output that does not pay such a "
                     "change script must be paid exactly (documented contract of the `outputs` argument)",
                     "'cannot be bumped' = confirmed in the model's active chain, or already replaced by a bump the wallet acknowledged; this code base requires BIP125 signalling nowhere (full RBF), so non-signalling originals are "
                     "ordinary bump targets. Other refusals (descendants, foreign inputs, bad arguments, fee checks, CreateTransaction errors) are legal; every refusal must leave the in-memory wallet unchanged, and the database "
                     "records unchanged too unless the refusal came from building the transaction (the reserved change address is handed back to the keypool, which may rewrite descriptor records)",
                     "mempool acceptance and the replaced set are demanded only when the original was in the node's mempool at the time of the bump",
                     "the default bumpfee RPC path is mirrored: require_mine = true, m_signal_bip125_rbf = true (sometimes false), no confirmation target"};
    e.expected_probes = {"bump_ok", "bump_ok_explicit_feerate", "bump_ok_estimated_feerate", "bump_ok_within_30_sat_of_minimum", "bump_ok_outputs_replaced", "bump_ok_outputs_added", "bump_ok_outputs_with_old_change_script",
                         "bump_ok_change_index_is_change", "bump_ok_change_index_is_recipient", "bump_ok_inputs_added", "bump_ok_change_removed", "bump_ok_change_reduced", "bump_ok_original_without_change", "bump_of_bump_ok",
                         "bump_ok_after_reload", "bump_ok_original_not_signalling", "bump_ok_after_ancestor_confirmed", "bump_ok_with_unconfirmed_ancestor", "bump_of_confirmed_refused", "bump_of_already_replaced_refused",
                         "refused_wallet_descendants", "refused_mempool_descendants", "refused_not_mine", "refused_unknown_txid", "refused_outputs_with_change_index", "refused_change_index_out_of_range",
                         "refused_insufficient_total_fee", "refused_above_maxtxfee", "refused_dust_output", "refused_insufficient_funds", "send_tight", "wallet_send_without_change", "block_confirms_ancestors_only",
                         "reorg_unconfirms_transactions", "wallet_reloaded", "external_child_in_mempool"};
    return e;
}
Engine g_engine = MakeEngine();
SIM_REGISTER_ENGINE(g_engine);

} // namespace
