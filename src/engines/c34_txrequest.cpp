// C34 — transaction download scheduling follows its specification.
// compsim: the real TxRequestTracker (deterministic salt), a simulated microsecond clock (forward
// jumps exactly onto reqtime/expiry instants, and backward steps), 2-6 simulated peers that announce,
// answer, stay silent (timeout fault) or disconnect (fault), against an announcement-level reference
// model stepped in lock-step.
#include "../core/sim.h"

#include <txrequest.h>
#include <uint256.h>

#include <algorithm>
#include <chrono>
#include <map>
#include <set>

using namespace sim;
using namespace std::chrono_literals;

namespace {

enum OpKind { INV, GETREQ, REQUESTED, RESPONSE, FORGET, DISCONNECT, ADVANCE, ADVANCE_TO_EVENT, BACKWARD, CHECK_ALL, N_OPS };

enum class St { CANDIDATE, REQUESTED, COMPLETED };

struct Ann {
    int peer;
    int tx;
    bool is_wtxid;
    bool preferred;
    int64_t reqtime;
    int64_t expiry{0};
    uint64_t seq;
    St st{St::CANDIDATE};
    uint64_t generation; //!< increases each time (peer,tx) is re-announced after being forgotten
};

struct Model {
    std::map<std::pair<int, int>, Ann> anns; // (peer,tx)
    uint64_t next_seq{0};
    uint64_t next_gen{0};

    void Cleanup(int tx)
    {
        bool live = false;
        for (auto& [k, a] : anns)
            if (a.tx == tx && a.st != St::COMPLETED) live = true;
        if (!live)
            for (auto it = anns.begin(); it != anns.end();) it = it->second.tx == tx ? anns.erase(it) : std::next(it);
    }
};

uint256 TxHash(int tx)
{
    uint256 h;
    // a fixed, recognisable pattern; independent of the run seed so that plans are self-contained
    for (int i = 0; i < 32; ++i) *(h.begin() + i) = (unsigned char)(0x11 * (tx + 1) + i * 7);
    return h;
}
GenTxid MakeGtxid(int tx, bool is_wtxid)
{
    if (is_wtxid) return GenTxid{Wtxid::FromUint256(TxHash(tx))};
    return GenTxid{Txid::FromUint256(TxHash(tx))};
}

Plan Gen(uint64_t seed, Tier tier)
{
    Rng rng(seed);
    Plan p;
    int npeers = (int)rng.range(2, 6);
    int ntx = (int)rng.range(1, 8);
    p.knobs["peers"] = npeers;
    p.knobs["txs"] = ntx;
    // swarm: per-run op weights
    std::vector<uint32_t> w(N_OPS);
    w[INV] = 10 + rng.below(30);
    w[GETREQ] = 10 + rng.below(30);
    w[REQUESTED] = rng.chance(1, 2) ? rng.below(6) : 0; // "unexpected" requests not advised by GetRequestable
    w[RESPONSE] = rng.below(15);
    w[FORGET] = rng.below(6);
    w[DISCONNECT] = rng.chance(2, 3) ? rng.below(5) : 0;
    w[ADVANCE] = 5 + rng.below(15);
    w[ADVANCE_TO_EVENT] = 3 + rng.below(15);
    w[BACKWARD] = rng.chance(1, 3) ? 1 + rng.below(4) : 0;
    w[CHECK_ALL] = 2 + rng.below(6);
    int nops = (int)rng.range(20, tier == Tier::THOROUGH ? 200 : 120);
    for (int i = 0; i < nops; ++i) {
        int k = (int)rng.pick(w);
        Op op;
        op.kind = k;
        switch (k) {
        case INV:
            // peer, tx, is_wtxid, preferred, reqtime delta (us; 0, small, 2s, negative)
            op.a = {(int64_t)rng.below(npeers), (int64_t)rng.below(ntx), (int64_t)rng.below(2), (int64_t)rng.below(2),
                    (int64_t)(rng.chance(1, 3) ? 0 : rng.chance(1, 5) ? -(int64_t)rng.below(3'000'000) : (int64_t)rng.skewed(0, 6'000'000))};
            break;
        case GETREQ:
            // peer, request mask (which returned entries get RequestedTx), expiry delta
            op.a = {(int64_t)rng.below(npeers), (int64_t)rng.next() & 0xffff, (int64_t)(rng.chance(1, 6) ? 0 : rng.skewed(1, 60'000'000))};
            break;
        case REQUESTED:
            op.a = {(int64_t)rng.below(npeers), (int64_t)rng.below(ntx), (int64_t)rng.skewed(0, 60'000'000)};
            break;
        case RESPONSE:
            op.a = {(int64_t)rng.below(npeers), (int64_t)rng.below(ntx)};
            break;
        case FORGET:
            op.a = {(int64_t)rng.below(ntx)};
            break;
        case DISCONNECT:
            op.a = {(int64_t)rng.below(npeers)};
            break;
        case ADVANCE:
            op.a = {(int64_t)rng.skewed(1, 120'000'000)};
            break;
        case ADVANCE_TO_EVENT:
            op.a = {(int64_t)rng.below(8), (int64_t)rng.range(-1, 1)}; // which pending instant, offset -1/0/+1 us
            break;
        case BACKWARD:
            op.a = {(int64_t)rng.skewed(1, 10'000'000)};
            break;
        case CHECK_ALL:
            break;
        }
        p.ops.push_back(op);
    }
    return p;
}

std::string Describe(const Op& op)
{
    char b[160];
    switch (op.kind) {
    case INV: snprintf(b, sizeof b, "ReceivedInv(peer=%ld,tx=%ld,wtxid=%ld,preferred=%ld,reqtime=now%+ldus)", (long)op.arg(0), (long)op.arg(1), (long)op.arg(2), (long)op.arg(3), (long)op.arg(4)); break;
    case GETREQ: snprintf(b, sizeof b, "GetRequestable(peer=%ld) then RequestedTx(mask=%lx,expiry=now+%ldus)", (long)op.arg(0), (long)op.arg(1), (long)op.arg(2)); break;
    case REQUESTED: snprintf(b, sizeof b, "RequestedTx(peer=%ld,tx=%ld,expiry=now+%ldus) [unadvised]", (long)op.arg(0), (long)op.arg(1), (long)op.arg(2)); break;
    case RESPONSE: snprintf(b, sizeof b, "ReceivedResponse(peer=%ld,tx=%ld)", (long)op.arg(0), (long)op.arg(1)); break;
    case FORGET: snprintf(b, sizeof b, "ForgetTxHash(tx=%ld)", (long)op.arg(0)); break;
    case DISCONNECT: snprintf(b, sizeof b, "FAULT DisconnectedPeer(peer=%ld)", (long)op.arg(0)); break;
    case ADVANCE: snprintf(b, sizeof b, "clock += %ldus", (long)op.arg(0)); break;
    case ADVANCE_TO_EVENT: snprintf(b, sizeof b, "clock -> pending instant #%ld %+ldus", (long)op.arg(0), (long)op.arg(1)); break;
    case BACKWARD: snprintf(b, sizeof b, "FAULT clock -= %ldus", (long)op.arg(0)); break;
    case CHECK_ALL: snprintf(b, sizeof b, "GetRequestable(all peers) cross-check"); break;
    default: snprintf(b, sizeof b, "?");
    }
    return b;
}

struct Sim {
    Ctx& ctx;
    TxRequestTracker tr{/*deterministic=*/true};
    Model m;
    int npeers, ntx;
    int64_t now{1'000'000'000};
    int64_t start{now};
    // statement-level history: (peer,tx,generation) that were already requested
    std::set<std::tuple<int, int, uint64_t>> requested_once;
    std::map<std::pair<int, int>, uint64_t> gen_of;

    explicit Sim(Ctx& c) : ctx(c), npeers((int)std::clamp<int64_t>(c.knob("peers", 3), 1, 16)), ntx((int)std::clamp<int64_t>(c.knob("txs", 3), 1, 32)) {}

    /** expire in the model, returning expired set */
    std::vector<std::pair<int, int>> ModelSetTime()
    {
        std::vector<std::pair<int, int>> expired;
        std::set<int> touched;
        for (auto& [k, a] : m.anns)
            if (a.st == St::REQUESTED && a.expiry <= now) {
                a.st = St::COMPLETED;
                expired.push_back(k);
                touched.insert(a.tx);
            }
        for (int tx : touched) m.Cleanup(tx);
        return expired;
    }

    /** model's selection for (tx): which peer is to be asked now, or -1 */
    int ModelSelected(int tx)
    {
        const Ann* best = nullptr;
        uint64_t best_prio = 0;
        for (auto& [k, a] : m.anns) {
            if (a.tx != tx) continue;
            if (a.st == St::REQUESTED) return -1;
        }
        for (auto& [k, a] : m.anns) {
            if (a.tx != tx || a.st != St::CANDIDATE || a.reqtime > now) continue;
            uint64_t prio = tr.ComputePriority(TxHash(tx), a.peer, a.preferred);
            if (!best || (a.preferred && !best->preferred) || (a.preferred == best->preferred && prio > best_prio)) {
                best = &a;
                best_prio = prio;
            }
        }
        return best ? best->peer : -1;
    }

    std::vector<int> DoGetRequestable(int peer)
    {
        std::vector<std::pair<NodeId, GenTxid>> expired;
        auto res = tr.GetRequestable(peer, std::chrono::microseconds{now}, &expired);
        tr.PostGetRequestableSanityCheck(std::chrono::microseconds{now});
        auto mexp = ModelSetTime();
        // expired list must be exact (as a set)
        std::set<std::pair<int, uint256>> got, want;
        for (auto& [p, g] : expired) got.insert({(int)p, g.ToUint256()});
        for (auto& [p, t] : mexp) want.insert({p, TxHash(t)});
        if (got != want) ctx.failf("expired-mismatch", "GetRequestable(peer=%d, now=%ld): expired list has %zu entries, model %zu", peer, (long)(now - start), got.size(), want.size());
        if (!mexp.empty()) { ctx.probe("request_expired", mexp.size()); ctx.fault("request_timeout", mexp.size()); }
        // model's expected result, in announcement order
        std::vector<const Ann*> exp;
        for (auto& [k, a] : m.anns) {
            if (a.peer != peer || a.st != St::CANDIDATE || a.reqtime > now) continue;
            if (ModelSelected(a.tx) == peer) exp.push_back(&a);
        }
        std::sort(exp.begin(), exp.end(), [](const Ann* a, const Ann* b) { return a->seq < b->seq; });
        std::vector<int> out;
        std::string got_s, want_s;
        for (auto& g : res) {
            int tx = -1;
            for (int t = 0; t < ntx; ++t)
                if (TxHash(t) == g.ToUint256()) tx = t;
            out.push_back(tx);
            got_s += std::to_string(tx) + (g.IsWtxid() ? "w " : "t ");
        }
        for (auto* a : exp) want_s += std::to_string(a->tx) + (a->is_wtxid ? "w " : "t ");
        if (got_s != want_s) ctx.failf("requestable-mismatch", "GetRequestable(peer=%d, t=%ld): got [%s] model [%s]", peer, (long)(now - start), got_s.c_str(), want_s.c_str());
        // statement-level checks, independent of the priority function
        for (size_t i = 0; i < res.size(); ++i) {
            int tx = out[i];
            auto it = m.anns.find({peer, tx});
            if (it == m.anns.end()) ctx.failf("request-without-announcement", "peer=%d tx=%d", peer, tx);
            const Ann& a = it->second;
            if (a.reqtime > now) ctx.failf("request-before-reqtime", "peer=%d tx=%d reqtime-now=%ld", peer, tx, (long)(a.reqtime - now));
            if (requested_once.count({peer, tx, a.generation})) ctx.failf("request-twice-same-peer", "peer=%d tx=%d", peer, tx);
            for (auto& [k, o] : m.anns) {
                if (o.tx != tx) continue;
                if (o.st == St::REQUESTED) ctx.failf("two-outstanding-requests", "tx=%d already requested from peer=%d, now advised for peer=%d", tx, o.peer, peer);
                if (!a.preferred && o.preferred && o.st == St::CANDIDATE && o.reqtime <= now) ctx.failf("nonpreferred-chosen", "tx=%d: non-preferred peer=%d advised while preferred peer=%d is ready", tx, peer, o.peer);
                if (!a.preferred && o.preferred && o.st == St::CANDIDATE && o.reqtime <= now) ctx.probe("pref_vs_nonpref");
            }
            bool had_pref_competitor = false, had_nonpref_competitor = false;
            for (auto& [k, o] : m.anns)
                if (o.tx == tx && o.peer != peer && o.st == St::CANDIDATE && o.reqtime <= now) (o.preferred ? had_pref_competitor : had_nonpref_competitor) = true;
            if (a.preferred && had_nonpref_competitor) ctx.probe("preferred_beats_nonpreferred");
            if (had_pref_competitor || had_nonpref_competitor) ctx.probe("selection_among_several");
        }
        return out;
    }

    void CompareCounts(const char* where)
    {
        tr.SanityCheck();
        size_t total = 0;
        for (int p = 0; p < npeers; ++p) {
            size_t c = 0, r = 0, d = 0;
            for (auto& [k, a] : m.anns)
                if (a.peer == p) (a.st == St::CANDIDATE ? c : a.st == St::REQUESTED ? r : d)++;
            total += c + r + d;
            if (tr.CountCandidates(p) != c || tr.CountInFlight(p) != r || tr.Count(p) != c + r + d)
                ctx.failf("count-mismatch", "%s: peer=%d tracker cand/inflight/total=%zu/%zu/%zu model=%zu/%zu/%zu", where, p, tr.CountCandidates(p), tr.CountInFlight(p), tr.Count(p), c, r, c + r + d);
        }
        if (tr.Size() != total) ctx.failf("size-mismatch", "%s: tracker Size=%zu model=%zu", where, tr.Size(), total);
        for (int t = 0; t < ntx; ++t) {
            std::vector<NodeId> peers;
            tr.GetCandidatePeers(TxHash(t), peers);
            std::set<NodeId> got(peers.begin(), peers.end()), want;
            int nreq = 0;
            for (auto& [k, a] : m.anns)
                if (a.tx == t && a.st != St::COMPLETED) { want.insert(a.peer); if (a.st == St::REQUESTED) ++nreq; }
            if (got != want) ctx.failf("candidate-peers-mismatch", "%s: tx=%d tracker has %zu live announcers, model %zu", where, t, got.size(), want.size());
            if (nreq > 1) ctx.failf("two-outstanding-requests", "%s: tx=%d has %d REQUESTED announcements", where, t, nreq);
        }
    }

    uint64_t Fingerprint()
    {
        uint64_t h = 7;
        for (auto& [k, a] : m.anns) h = mix64(h, (uint64_t)k.first * 1000003 + k.second * 101 + (int)a.st * 7 + a.preferred * 3 + (a.reqtime <= now));
        return h;
    }

    void ModelRequested(int peer, int tx, int64_t expiry)
    {
        auto it = m.anns.find({peer, tx});
        if (it == m.anns.end() || it->second.st != St::CANDIDATE) return;
        for (auto& [k, o] : m.anns)
            if (o.tx == tx && o.st == St::REQUESTED) { o.st = St::COMPLETED; ctx.probe("unadvised_request_displaces"); }
        it->second.st = St::REQUESTED;
        it->second.expiry = expiry;
        requested_once.insert({peer, tx, it->second.generation});
    }

    void Run()
    {
        size_t opi = 0;
        for (const Op& op : ctx.plan.ops) {
            ++opi;
            switch (op.kind) {
            case INV: {
                int peer = (int)op.mod(0, npeers), tx = (int)op.mod(1, ntx);
                bool w = op.arg(2) & 1, pref = op.arg(3) & 1;
                int64_t reqtime = now + op.arg(4);
                tr.ReceivedInv(peer, MakeGtxid(tx, w), pref, std::chrono::microseconds{reqtime});
                if (!m.anns.count({peer, tx})) {
                    m.anns[{peer, tx}] = Ann{peer, tx, w, pref, reqtime, 0, m.next_seq++, St::CANDIDATE, ++m.next_gen};
                } else {
                    ctx.probe("duplicate_inv_ignored");
                }
                ctx.evf("inv p%d t%d w%d pref%d rt%+ld", peer, tx, w, pref, (long)op.arg(4));
                break;
            }
            case GETREQ: {
                int peer = (int)op.mod(0, npeers);
                auto res = DoGetRequestable(peer);
                std::string s;
                for (size_t i = 0; i < res.size(); ++i) {
                    s += std::to_string(res[i]) + ",";
                    if ((op.arg(1) >> (i % 16)) & 1) {
                        int64_t expiry = now + op.arg(2);
                        tr.RequestedTx(peer, TxHash(res[i]), std::chrono::microseconds{expiry});
                        ModelRequested(peer, res[i], expiry);
                        ctx.probe("requested");
                        ctx.nontrivial = true;
                    }
                }
                ctx.evf("getreq p%d -> [%s]", peer, s.c_str());
                break;
            }
            case REQUESTED: {
                int peer = (int)op.mod(0, npeers), tx = (int)op.mod(1, ntx);
                int64_t expiry = now + op.arg(2);
                tr.RequestedTx(peer, TxHash(tx), std::chrono::microseconds{expiry});
                ModelRequested(peer, tx, expiry);
                ctx.evf("unadvised-request p%d t%d", peer, tx);
                break;
            }
            case RESPONSE: {
                int peer = (int)op.mod(0, npeers), tx = (int)op.mod(1, ntx);
                tr.ReceivedResponse(peer, TxHash(tx));
                auto it = m.anns.find({peer, tx});
                if (it != m.anns.end() && it->second.st != St::COMPLETED) {
                    it->second.st = St::COMPLETED;
                    size_t before = m.anns.size();
                    m.Cleanup(tx);
                    if (m.anns.size() < before) ctx.probe("forgotten_only_failed_remain");
                }
                ctx.evf("response p%d t%d", peer, tx);
                break;
            }
            case FORGET: {
                int tx = (int)op.mod(0, ntx);
                tr.ForgetTxHash(TxHash(tx));
                for (auto it = m.anns.begin(); it != m.anns.end();) it = it->second.tx == tx ? m.anns.erase(it) : std::next(it);
                ctx.evf("forget t%d", tx);
                break;
            }
            case DISCONNECT: {
                int peer = (int)op.mod(0, npeers);
                tr.DisconnectedPeer(peer);
                std::set<int> touched;
                for (auto it = m.anns.begin(); it != m.anns.end();) {
                    if (it->second.peer == peer) { touched.insert(it->second.tx); it = m.anns.erase(it); } else ++it;
                }
                for (int t : touched) m.Cleanup(t);
                if (!touched.empty()) ctx.fault("peer_disconnect");
                ctx.evf("disconnect p%d", peer);
                break;
            }
            case ADVANCE:
                now += std::max<int64_t>(1, op.arg(0));
                ctx.evf("t+=%ld", (long)op.arg(0));
                break;
            case ADVANCE_TO_EVENT: {
                std::vector<int64_t> instants;
                for (auto& [k, a] : m.anns) {
                    if (a.st == St::CANDIDATE && a.reqtime > now) instants.push_back(a.reqtime);
                    if (a.st == St::REQUESTED && a.expiry > now) instants.push_back(a.expiry);
                }
                std::sort(instants.begin(), instants.end());
                if (!instants.empty()) {
                    int64_t t = instants[op.mod(0, std::min<size_t>(instants.size(), 8))] + std::clamp<int64_t>(op.arg(1), -1, 1);
                    if (t > now) { now = t; ctx.probe("clock_exactly_at_event"); }
                }
                ctx.evf("t->event %ld", (long)(now - start));
                break;
            }
            case BACKWARD:
                now -= std::max<int64_t>(1, op.arg(0));
                ctx.fault("clock_backward");
                ctx.evf("t-=%ld", (long)op.arg(0));
                break;
            case CHECK_ALL: {
                // all peers at the same instant: every tx with a ready candidate and no outstanding request is
                // advised to exactly one peer; a second round gives the same answer (stable tie-break).
                std::map<int, int> advised;
                for (int p = 0; p < npeers; ++p)
                    for (int tx : DoGetRequestable(p)) {
                        if (advised.count(tx)) ctx.failf("advised-to-two-peers", "tx=%d advised to peers %d and %d at one instant", tx, advised[tx], p);
                        advised[tx] = p;
                    }
                for (int t = 0; t < ntx; ++t) {
                    int sel = ModelSelected(t);
                    if ((sel >= 0) != (advised.count(t) > 0)) ctx.failf("requestable-mismatch", "tx=%d: model selects peer %d, tracker advises %s", t, sel, advised.count(t) ? "someone" : "nobody");
                }
                ctx.evf("check-all %zu", advised.size());
                break;
            }
            }
            CompareCounts(Describe(op).c_str());
            ctx.fingerprint(Fingerprint());
            (void)opi;
        }
        ctx.sim_ms = (uint64_t)std::max<int64_t>(0, (now - start) / 1000);
    }
};

void Run(Ctx& ctx)
{
    Sim s(ctx);
    s.Run();
}

Engine MakeEngine()
{
    Engine e;
    e.prop = "C34";
    e.name = "compsim/txrequest";
    e.level = "exploration";
    e.gen = Gen;
    e.run = Run;
    e.describe = Describe;
    e.chunk = 500;
    e.quick_runs = 400000;
    e.thorough_runs = 3000000;
    e.quick_budget_s = 45;
    e.thorough_budget_s = 900;
    e.rule = "seeded histories of 20-200 tracker operations (ReceivedInv/GetRequestable+RequestedTx/unadvised RequestedTx/ReceivedResponse/ForgetTxHash/"
             "DisconnectedPeer/clock forward, exactly onto reqtime|expiry +-1us, backward) over 2-6 peers x 1-8 txhashes with per-run op weights; "
             "non-trivial = at least one request was made; distinct = distinct fingerprints of the announcement-level model state "
             "(peer,tx,state,preferred,ready) reached after an operation (first 64 per run)";
    e.real_components = {"TxRequestTracker (txrequest.cpp)"};
    e.stub_components = {"clock (simulated us counter passed as argument)", "peers (scripted announce/answer/timeout/disconnect)"};
    e.assumptions = {"tie-break among equally preferred ready candidates is compared using the tracker's own ComputePriority() (spec: 'uniformly random')",
                     "statement-level checks (never two outstanding, never twice per announcement, never before reqtime, preferred first) are evaluated independently of ComputePriority"};
    e.expected_probes = {"requested", "request_expired", "preferred_beats_nonpreferred", "forgotten_only_failed_remain", "clock_exactly_at_event", "peer_disconnect", "clock_backward"};
    return e;
}
Engine g_engine = MakeEngine();
SIM_REGISTER_ENGINE(g_engine);

} // namespace
