// C55 — saving and reloading the mempool preserves it.
// nodesim: a real source node S (ChainstateManager + CTxMemPool) whose mempool is built by normal submission of
// generator transactions (chains of unconfirmed txs, prioritisation of present and absent txids, unbroadcast marks,
// blocks, reorgs, clock steps past -mempoolexpiry), node::DumpMempool through the recorded file layer (simfs:
// ENOSPC / short write / failing fsync, crash images of the write-.new-then-rename sequence), and node::LoadMempool
// through the FopenFn seam (fopencookie stream over the saved bytes: intact, re-keyed, version 1, short reads,
// truncated, EIO, flipped bytes, damaged version / key, missing file) into a real target node L on the same chain
// (fresh or non-empty), next to a TWIN node T that is kept in L's state and receives the same transactions by plain
// AcceptToMemoryPool: T's verdict is "what normal submission accepts at load time".
#include "../core/sim.h"
#include "../nodesim/chaingen.h"
#include "../nodesim/refchain.h"
#include "../nodesim/simnode.h"
#include "../simfs/simfs.h"

#include <consensus/amount.h>
#include <kernel/mempool_entry.h>
#include <kernel/mempool_removal_reason.h>
#include <node/mempool_persist.h>
#include <primitives/transaction.h>
#include <serialize.h>
#include <streams.h>
#include <txmempool.h>
#include <util/fs.h>
#include <util/time.h>
#include <validation.h>
#include <validationinterface.h>

#include <algorithm>
#include <array>
#include <cerrno>
#include <fcntl.h>
#include <filesystem>
#include <fstream>
#include <map>
#include <set>
#include <unistd.h>

using namespace sim;
using namespace nodesim;

namespace {

enum OpKind { SUBMIT = 0, PRIO, UNBROADCAST, CLOCK, BLOCK, REORG, DUMP, PRE, LOAD, N_OPS };
enum Variant { V_INTACT = 0, V_REKEY, V_V1, V_SHORT_READS, V_TRUNC, V_TRUNC_SWEEP, V_EIO, V_FLIP, V_VERSION, V_KEY, V_MISSING, N_VARIANTS };
const char* kVariantNames[N_VARIANTS] = {"intact", "re-keyed", "version-1", "short-reads", "truncated", "truncation-sweep", "EIO", "byte-flips", "version-damage", "key-damage", "missing-file"};
enum DumpFault { DF_NONE = 0, DF_ENOSPC, DF_SHORT_WRITE, DF_EIO_SYNC, DF_CRASH_ENUM, DF_DISK_FULL, N_DUMP_FAULTS };
const char* kDumpFaultNames[N_DUMP_FAULTS] = {"none", "ENOSPC", "short-write", "fsync-EIO", "crash-images", "disk-full"};

constexpr CAmount kCoinbaseOut = 400'000'000; // 5 outputs of 4 BTC per generated coinbase (<= 25 BTC subsidy below height 300)
constexpr int kCoinbaseOuts = 5;
const SK kStdKinds[] = {SK::P2WPKH, SK::P2TR, SK::TRUE_WSH, SK::P2PKH, SK::P2SH_P2WPKH};
constexpr int kNStdKinds = 5;

std::string Hx(const uint256& h) { return h.ToString().substr(0, 10); }
std::string Hx(const Txid& h) { return h.ToString().substr(0, 10); }

// ---------------------------------------------------------------------------------------------
// observation of a node's mempool through its public members (not through infoAll(), which the dump uses)

struct EntryView {
    CTransactionRef tx;
    int64_t time{0};
    CAmount fee{0};
    CAmount delta{0};
};
struct PoolView {
    std::map<Txid, EntryView> txs;
    std::map<Txid, CAmount> deltas; //!< every prioritised txid (present or absent)
    std::set<Txid> unb;
    CAmount Delta(const Txid& t) const { auto it = deltas.find(t); return it == deltas.end() ? 0 : it->second; }
};

PoolView Observe(SimNode& n)
{
    PoolView v;
    CTxMemPool& p = n.pool();
    {
        LOCK(p.cs);
        for (auto it = p.mapTx.begin(); it != p.mapTx.end(); ++it)
            v.txs[it->GetTx().GetHash()] = EntryView{it->GetSharedTx(), count_seconds(it->GetTime()), it->GetFee(), it->GetModifiedFee() - it->GetFee()};
    }
    for (const auto& d : p.GetPrioritisedTransactions()) v.deltas[d.txid] = d.delta;
    v.unb = p.GetUnbroadcastTxs();
    return v;
}

/** txids in dependency order (parents first); ties by txid */
std::vector<Txid> TopoOrder(const PoolView& v)
{
    std::vector<Txid> out;
    std::set<Txid> done;
    bool progress = true;
    while (out.size() < v.txs.size() && progress) {
        progress = false;
        for (auto& [id, e] : v.txs) {
            if (done.count(id)) continue;
            bool ready = true;
            for (auto& in : e.tx->vin)
                if (v.txs.count(in.prevout.hash) && !done.count(in.prevout.hash)) ready = false;
            if (ready) { out.push_back(id); done.insert(id); progress = true; }
        }
    }
    return out;
}

struct Rec : public CValidationInterface {
    bool on{false};
    std::vector<CTransactionRef> added;
    std::vector<std::pair<Txid, MemPoolRemovalReason>> removed;
    void TransactionAddedToMempool(const NewMempoolTransactionInfo& tx, uint64_t) override { if (on) added.push_back(tx.info.m_tx); }
    void TransactionRemovedFromMempool(const CTransactionRef& tx, MemPoolRemovalReason r, uint64_t) override { if (on) removed.emplace_back(tx->GetHash(), r); }
    void Begin() { added.clear(); removed.clear(); on = true; }
    void End() { on = false; }
};

// ---------------------------------------------------------------------------------------------
// the harness's own reader/writer of the mempool.dat format (from the format description: version u64 LE; version 2:
// compact-size 8 + 8 key bytes; everything after that XORed with key[absolute file offset % 8]; u64 count; count x
// (tx with witness, i64 time, i64 fee delta); map txid->i64; set txid)

struct SavedRec {
    CTransactionRef tx;
    int64_t time{0};
    CAmount delta{0};
};
struct Layout {
    size_t body_off{0}, count_end{0}, map_off{0}, unb_off{0}, end{0};
    std::vector<size_t> tx_begin, tx_end, time_end, delta_end;
};
struct Parsed {
    bool ok{false};
    std::string err;
    uint64_t version{0};
    std::array<uint8_t, 8> key{};
    std::vector<SavedRec> recs;
    std::map<Txid, CAmount> deltas;
    std::set<Txid> unb;
    Layout lay;
};

Parsed ParseFile(const std::vector<uint8_t>& f)
{
    Parsed p;
    if (f.size() < 8) { p.err = "shorter than the version field"; return p; }
    for (int i = 0; i < 8; ++i) p.version |= (uint64_t)f[i] << (8 * i);
    size_t off = 8;
    if (p.version == 2) {
        if (f.size() < 17) { p.err = "shorter than the key"; return p; }
        if (f[8] != 8) { p.err = "key length is not 8"; return p; }
        for (int i = 0; i < 8; ++i) p.key[i] = f[9 + i];
        off = 17;
    } else if (p.version != 1) {
        p.err = "unknown version";
        return p;
    }
    p.lay.body_off = off;
    std::vector<uint8_t> plain(f.begin() + off, f.end());
    for (size_t i = 0; i < plain.size(); ++i) plain[i] ^= p.key[(off + i) % 8];
    SpanReader s{std::span<const unsigned char>(plain)};
    auto pos = [&] { return off + (plain.size() - s.size()); };
    try {
        uint64_t n;
        s >> n;
        p.lay.count_end = pos();
        if (n > 1'000'000) { p.err = "absurd count"; return p; }
        for (uint64_t i = 0; i < n; ++i) {
            SavedRec r;
            p.lay.tx_begin.push_back(pos());
            s >> TX_WITH_WITNESS(r.tx);
            p.lay.tx_end.push_back(pos());
            s >> r.time;
            p.lay.time_end.push_back(pos());
            int64_t d;
            s >> d;
            r.delta = d;
            p.lay.delta_end.push_back(pos());
            p.recs.push_back(std::move(r));
        }
        p.lay.map_off = pos();
        s >> p.deltas;
        p.lay.unb_off = pos();
        s >> p.unb;
        p.lay.end = pos();
    } catch (const std::exception& e) {
        p.err = std::string("deserialisation: ") + e.what();
        return p;
    }
    p.ok = true;
    return p;
}

/** the same content under another version / key */
std::vector<uint8_t> Reencode(const std::vector<uint8_t>& f, const Parsed& p, int new_version, const std::array<uint8_t, 8>& new_key)
{
    std::vector<uint8_t> out;
    for (int i = 0; i < 8; ++i) out.push_back(i == 0 ? (uint8_t)new_version : 0);
    std::array<uint8_t, 8> k{};
    if (new_version == 2) {
        out.push_back(8);
        for (auto b : new_key) out.push_back(b);
        k = new_key;
    }
    for (size_t i = p.lay.body_off; i < f.size(); ++i) {
        uint8_t plain = f[i] ^ p.key[i % 8];
        out.push_back(plain ^ k[out.size() % 8]);
    }
    return out;
}

// ---------------------------------------------------------------------------------------------
// stream faults on the read side: a FILE* over an in-memory image

struct ReadCookie {
    const std::vector<uint8_t>* data{nullptr};
    size_t pos{0};
    int64_t eio_at{-1};       //!< reads reaching this offset fail with EIO
    bool short_reads{false};
    Rng rng{1};
    bool eio_fired{false};
    bool short_fired{false};
    size_t delivered_end{0};
};
ssize_t RcRead(void* c, char* buf, size_t n)
{
    auto* rc = (ReadCookie*)c;
    size_t lim = rc->data->size();
    if (rc->eio_at >= 0 && (size_t)rc->eio_at < lim) lim = (size_t)rc->eio_at;
    if (rc->pos >= lim) {
        if (rc->eio_at >= 0 && (size_t)rc->eio_at < rc->data->size()) { rc->eio_fired = true; errno = EIO; return -1; }
        return 0;
    }
    size_t take = std::min(n, lim - rc->pos);
    if (rc->short_reads && take > 1) {
        size_t t = 1 + (size_t)rc->rng.below(23);
        if (t < take) { take = t; rc->short_fired = true; }
    }
    memcpy(buf, rc->data->data() + rc->pos, take);
    rc->pos += take;
    rc->delivered_end = std::max(rc->delivered_end, rc->pos);
    return (ssize_t)take;
}
int RcSeek(void* c, off64_t* off, int whence)
{
    auto* rc = (ReadCookie*)c;
    int64_t base = whence == SEEK_SET ? 0 : whence == SEEK_CUR ? (int64_t)rc->pos : (int64_t)rc->data->size();
    int64_t np = base + *off;
    if (np < 0) return -1;
    rc->pos = (size_t)np;
    *off = np;
    return 0;
}
int RcClose(void*) { return 0; }

// write side: a stream whose device is full after `budget` more bytes (and stays full)
struct WriteCookie {
    int fd{-1};
    size_t budget{0};
    bool fired{false};
};
ssize_t WcWrite(void* c, const char* buf, size_t n)
{
    auto* wc = (WriteCookie*)c;
    size_t take = std::min(n, wc->budget);
    size_t done = 0;
    while (done < take) {
        ssize_t w = ::write(wc->fd, buf + done, take - done);
        if (w <= 0) break;
        done += (size_t)w;
    }
    wc->budget -= done;
    if (done < n) { wc->fired = true; errno = ENOSPC; }
    return (ssize_t)done;
}
int WcSeek(void* c, off64_t* off, int whence)
{
    off64_t r = lseek64(((WriteCookie*)c)->fd, *off, whence);
    if (r < 0) return -1;
    *off = r;
    return 0;
}
int WcClose(void* c)
{
    auto* wc = (WriteCookie*)c;
    int r = ::close(wc->fd);
    wc->fd = -1;
    return r;
}

bool ReadWholeFile(const std::string& path, std::vector<uint8_t>& out)
{
    std::ifstream f(path, std::ios::binary);
    if (!f) return false;
    out.assign(std::istreambuf_iterator<char>(f), std::istreambuf_iterator<char>());
    return true;
}

// ---------------------------------------------------------------------------------------------
// plan generation

Plan Gen(uint64_t seed, Tier tier)
{
    Rng rng(seed);
    Plan p;
    const bool thorough = tier == Tier::THOROUGH;
    p.knobs["base"] = rng.range(102, 107);
    p.knobs["expiry_s"] = (int64_t)std::vector<int64_t>{3600, 86400, 336 * 3600}[rng.below(3)];
    const bool faults = rng.chance(3, 5);
    p.knobs["faults"] = faults;
    p.knobs["conflicts"] = !faults && rng.chance(2, 3);
    p.knobs["check_ratio"] = rng.chance(1, 3);
    p.knobs["max_pairs"] = rng.range(1, thorough ? 4 : 3);
    const int64_t expiry = p.knobs["expiry_s"];

    auto submit = [&] {
        Op op;
        op.kind = SUBMIT;
        // coin selector, prefer unconfirmed (chains), inputs, outputs, fee mode, seed
        op.a = {(int64_t)rng.below(1000), (int64_t)rng.chance(3, 5), (int64_t)rng.pick({6, 3, 1}) + 1, (int64_t)rng.range(1, 3), (int64_t)rng.pick({20, 1, 2}), (int64_t)(rng.next() >> 16)};
        return op;
    };
    auto prio = [&] {
        Op op;
        op.kind = PRIO;
        // target kind (0 pool tx, 1 formerly seen tx, 2 random txid, 3 saved-but-absent), index, mode (0 small, 1 big+, 2 below-zero modified fee, 3 cancel), value
        op.a = {(int64_t)rng.pick({6, 2, 2, 1}), (int64_t)rng.below(1000), (int64_t)rng.pick({6, 2, 3, 2}), (int64_t)rng.range(-5000, 5000), (int64_t)(rng.next() >> 16)};
        return op;
    };
    auto unb = [&] {
        Op op;
        op.kind = UNBROADCAST;
        op.a = {(int64_t)rng.below(1000), (int64_t)rng.chance(5, 6)};
        return op;
    };
    auto clock = [&](bool big) {
        Op op;
        op.kind = CLOCK;
        if (rng.chance(1, 3)) op.a = {1, (int64_t)rng.skewed(0, 999), (int64_t)rng.range(-2, 1)}; // exactly onto an expiry boundary of a saved/pool entry
        else op.a = {0, big ? (int64_t)rng.range(expiry / 4, expiry + expiry / 2) : (int64_t)rng.skewed(1, expiry / 3), 0};
        return op;
    };
    auto block = [&] {
        Op op;
        op.kind = BLOCK;
        // how many pool txs (closure), selector seed, add a tx conflicting with a pool tx
        op.a = {(int64_t)rng.range(0, 6), (int64_t)(rng.next() >> 16), (int64_t)rng.chance(1, 3)};
        return op;
    };
    auto reorg = [&] {
        Op op;
        op.kind = REORG;
        op.a = {(int64_t)rng.range(1, 3), (int64_t)rng.range(1, 2)};
        return op;
    };
    auto dump = [&](bool allow_fault) {
        Op op;
        op.kind = DUMP;
        int f = DF_NONE;
        if (allow_fault && faults && rng.chance(2, 3)) f = (int)rng.pick({0, 2, 2, 2, 4, 5});
        op.a = {f, (int64_t)rng.below(3), (int64_t)(rng.next() >> 16)};
        return op;
    };
    auto pre = [&](bool fresh) {
        Op op;
        op.kind = PRE;
        // kind (0 copy of saved txs, 1 own tx, 2 conflicting with a saved tx), index/count, seed, unbroadcast mark, delta
        op.a = {(int64_t)rng.pick({4, 4, 4}), (int64_t)rng.below(1000), (int64_t)(rng.next() >> 16), (int64_t)rng.chance(1, 3), rng.chance(1, 4) ? (int64_t)rng.range(-300, 3000) : 0, fresh};
        return op;
    };
    auto load = [&](bool fresh) {
        Op op;
        op.kind = LOAD;
        int v;
        if (!faults) v = (int)rng.pick({6, 2, 2});
        else v = (int)rng.pick({4, 1, 1, 2, 8, (uint32_t)(thorough ? 2 : 1), 3, 8, 2, 2, 1});
        // fresh pair?, variant, a, b, c
        op.a = {fresh, v, (int64_t)rng.below(100000), (int64_t)rng.below(100000), (int64_t)(rng.next() >> 16)};
        if (v == V_TRUNC_SWEEP) op.a[2] = thorough && rng.chance(1, 3) ? 1 : (int64_t)rng.range(5, 17);
        return op;
    };

    int rounds = (int)rng.range(1, thorough ? 3 : 2);
    for (int r = 0; r < rounds; ++r) {
        int n = (int)rng.range(5, thorough ? 30 : 20);
        for (int i = 0; i < n; ++i) {
            switch (rng.pick({50, 22, 14, 8, 4, 2})) {
            case 0: p.ops.push_back(submit()); break;
            case 1: p.ops.push_back(prio()); break;
            case 2: p.ops.push_back(unb()); break;
            case 3: p.ops.push_back(clock(false)); break;
            case 4: p.ops.push_back(block()); break;
            default: p.ops.push_back(reorg()); break;
            }
        }
        p.ops.push_back(dump(r > 0));
        if (faults && rng.chance(1, 2)) {
            // a second dump (possibly faulted) over the first one, after a few more changes
            int m = (int)rng.range(0, 4);
            for (int i = 0; i < m; ++i) p.ops.push_back(rng.chance(2, 3) ? submit() : prio());
            p.ops.push_back(dump(true));
        }
        int mid = (int)rng.range(0, 4);
        for (int i = 0; i < mid; ++i) {
            switch (rng.pick({6, 5, 3, 3, 2})) {
            case 0: p.ops.push_back(clock(rng.chance(1, 3))); break;
            case 1: p.ops.push_back(block()); break;
            case 2: p.ops.push_back(reorg()); break;
            case 3: p.ops.push_back(submit()); break;
            default: p.ops.push_back(prio()); break;
            }
        }
        int nloads = (int)rng.range(2, thorough ? 10 : 6);
        bool nonempty = rng.chance(1, 2);
        for (int i = 0; i < nloads; ++i) {
            bool fresh = i == 0 || rng.chance(1, 4);
            if (fresh && nonempty) {
                // a fresh pair that gets its pre-existing entries before the first load
                int np = (int)rng.range(1, 4);
                for (int k = 0; k < np; ++k) p.ops.push_back(pre(k == 0));
                if (rng.chance(1, 3)) p.ops.push_back(clock(false));
                p.ops.push_back(load(false));
            } else {
                p.ops.push_back(load(fresh));
            }
        }
    }
    return p;
}

std::string Describe(const Op& op)
{
    char b[240];
    switch (op.kind) {
    case SUBMIT: snprintf(b, sizeof b, "submit to source node: tx(coin#%ld, prefer_unconfirmed=%ld, nin=%ld, nout=%ld, fee_mode=%ld, seed=%ld)", (long)op.arg(0), (long)op.arg(1), (long)op.arg(2), (long)op.arg(3), (long)op.arg(4), (long)op.arg(5)); break;
    case PRIO: snprintf(b, sizeof b, "prioritisetransaction on source node (target_kind=%ld #%ld, mode=%ld, value=%ld)", (long)op.arg(0), (long)op.arg(1), (long)op.arg(2), (long)op.arg(3)); break;
    case UNBROADCAST: snprintf(b, sizeof b, "%s unbroadcast mark on source pool tx #%ld", op.arg(1) ? "set" : "clear", (long)op.arg(0)); break;
    case CLOCK:
        if (op.arg(0)) snprintf(b, sizeof b, "clock -> expiry boundary of entry #%ld %+lds", (long)op.arg(1), (long)op.arg(2));
        else snprintf(b, sizeof b, "clock += %lds", (long)op.arg(1));
        break;
    case BLOCK: snprintf(b, sizeof b, "mine block on all nodes (pool txs=%ld, seed=%ld, conflicting_tx=%ld)", (long)op.arg(0), (long)op.arg(1), (long)op.arg(2)); break;
    case REORG: snprintf(b, sizeof b, "reorg all nodes (depth=%ld, extra=%ld)", (long)op.arg(0), (long)op.arg(1)); break;
    case DUMP: snprintf(b, sizeof b, "%sDumpMempool(source) fault=%s@%ld", op.mod(0, N_DUMP_FAULTS) ? "FAULT " : "", kDumpFaultNames[op.mod(0, N_DUMP_FAULTS)], (long)op.arg(1)); break;
    case PRE: snprintf(b, sizeof b, "pre-existing entry in %starget+twin (kind=%ld #%ld, seed=%ld, unbroadcast=%ld, delta=%ld)", op.arg(5) ? "fresh " : "", (long)op.arg(0), (long)op.arg(1), (long)op.arg(2), (long)op.arg(3), (long)op.arg(4)); break;
    case LOAD: snprintf(b, sizeof b, "%sLoadMempool(%s target) file=%s a=%ld b=%ld c=%ld", op.mod(1, N_VARIANTS) >= V_SHORT_READS ? "FAULT " : "", op.arg(0) ? "fresh" : "current", kVariantNames[op.mod(1, N_VARIANTS)], (long)op.arg(2), (long)op.arg(3), (long)op.arg(4)); break;
    default: snprintf(b, sizeof b, "?");
    }
    return b;
}

// ---------------------------------------------------------------------------------------------
// the simulation

struct NodeH {
    std::unique_ptr<SimNode> n;
    std::shared_ptr<Rec> rec;
};
struct Pair {
    NodeH L, T;
    int id{0};
    int loads{0};
    std::vector<CTransactionRef> own; //!< txs submitted only to this pair
};
struct Snapshot {
    bool have{false};
    std::vector<uint8_t> bytes;
    Parsed parsed;
};
struct CoinRef {
    COutPoint op;
    RefCoin coin;
};

struct SimFsGuard {
    explicit SimFsGuard(const std::string& root) { simfs::Arm(root); }
    ~SimFsGuard() { simfs::ClearFault(); simfs::Disarm(); }
};

struct Sim {
    Ctx& ctx;
    const int64_t expiry;
    const bool faults, conflicts;
    int64_t now{0}, start{0};
    int base{0};
    uint32_t cb_nonce{0};
    int node_serial{0};
    std::vector<std::shared_ptr<const CBlock>> chain; //!< active chain, [0] = genesis
    std::map<COutPoint, RefCoin> conf;                //!< confirmed outputs the generator can spend (standard kinds)
    NodeH S;
    std::unique_ptr<Pair> pair;
    int pairs_made{0};
    std::vector<CTransactionRef> seen;                //!< every tx the source node ever accepted
    Snapshot snap;
    std::string persist_dir, dump_path;
    std::unique_ptr<SimFsGuard> fsguard;
    uint64_t fp{0};

    explicit Sim(Ctx& c) : ctx(c), expiry(std::clamp<int64_t>(c.knob("expiry_s", 336 * 3600), 60, 100 * 86400)), faults(c.knob("faults", 0) != 0), conflicts(c.knob("conflicts", 0) != 0 && !faults) {}

    // ---- nodes and chain -------------------------------------------------------------------
    NodeH MakeNode(const char* role)
    {
        NodeH h;
        h.rec = std::make_shared<Rec>();
        NodeOpts o;
        char name[64];
        snprintf(name, sizeof name, "/node%02d_%s", node_serial++, role);
        o.dir = RunDir() + name;
        o.with_mempool = true;
        o.mempool_check_ratio = ctx.knob("check_ratio", 0) ? 1 : 0;
        o.mempool_expiry_s = expiry;
        o.check_blocks = 1;
        o.check_level = 0;
        o.total_cache_bytes = 4 << 20;
        o.listeners.push_back(h.rec);
        h.n = std::make_unique<SimNode>(o);
        if (!h.n->Start()) ctx.failf("engine-node-start-failed", "%s: %s", role, h.n->last_error.c_str());
        for (size_t i = 1; i < chain.size(); ++i) h.n->ProcessBlock(chain[i], true);
        if (!chain.empty() && h.n->TipHash() != chain.back()->GetHash()) ctx.failf("engine-node-not-on-chain", "%s: tip %s after feeding %zu blocks", role, Hx(h.n->TipHash()).c_str(), chain.size() - 1);
        return h;
    }
    template <class F>
    void ForAllNodes(F f)
    {
        f(S);
        if (pair) { f(pair->L); f(pair->T); }
    }
    void SetNow(int64_t t)
    {
        now = t;
        SetMockTime(std::chrono::seconds{now});
    }
    std::shared_ptr<const CBlock> Build(const uint256& prev, int height, int64_t time, const std::vector<CTransactionRef>& txs)
    {
        BlockExtras ex;
        ex.cb_extranonce = ++cb_nonce;
        Rng r(mix64(height, cb_nonce));
        ex.coinbase_spk = Keys().Spk(kStdKinds[r.below(kNStdKinds)], (int)r.below(N_KEYS));
        for (int i = 1; i < kCoinbaseOuts; ++i) ex.extra_coinbase_outputs.emplace_back(kCoinbaseOut, Keys().Spk(kStdKinds[r.below(kNStdKinds)], (int)r.below(N_KEYS)));
        return BuildBlock(prev, height, time, txs, kCoinbaseOut, ex, S.n->params->GetConsensus());
    }
    void DeliverToAll(const std::shared_ptr<const CBlock>& b)
    {
        ForAllNodes([&](NodeH& h) { h.n->ProcessBlock(b, true); });
    }
    void RebuildConf()
    {
        conf.clear();
        for (size_t h = 1; h < chain.size(); ++h)
            for (auto& tx : chain[h]->vtx) {
                if (!tx->IsCoinBase())
                    for (auto& in : tx->vin) conf.erase(in.prevout);
                for (size_t o = 0; o < tx->vout.size(); ++o) {
                    SpendInfo si = Keys().Classify(tx->vout[o].scriptPubKey);
                    if (si.kind == SK::UNKNOWN || si.kind == SK::OPRETURN || si.kind == SK::TRUE_BARE) continue;
                    conf[COutPoint(tx->GetHash(), (uint32_t)o)] = RefCoin{tx->vout[o].nValue, tx->vout[o].scriptPubKey, (int)h, tx->IsCoinBase()};
                }
            }
    }
    void ExpectTipEverywhere(const char* where)
    {
        ForAllNodes([&](NodeH& h) {
            if (h.n->TipHash() != chain.back()->GetHash()) ctx.failf("engine-node-not-on-chain", "%s: a node's tip is %s, the generated chain's %s", where, Hx(h.n->TipHash()).c_str(), Hx(chain.back()->GetHash()).c_str());
        });
    }
    void Setup()
    {
        persist_dir = RunDir() + "/persist";
        fs::create_directories(fs::PathFromString(persist_dir));
        fsguard = std::make_unique<SimFsGuard>(persist_dir);
        dump_path = persist_dir + "/mempool.dat";
        base = (int)std::clamp<int64_t>(ctx.knob("base", 103), 101, 140);
        S = MakeNode("src");
        chain.push_back(std::make_shared<const CBlock>(S.n->params->GenesisBlock()));
        SetNow(chain[0]->nTime + 1000);
        start = now;
        for (int h = 1; h <= base; ++h) {
            auto b = Build(chain.back()->GetHash(), h, chain.back()->nTime + 1, {});
            chain.push_back(b);
            S.n->ProcessBlock(b, true);
        }
        ExpectTipEverywhere("base chain");
        RebuildConf();
    }

    // ---- coins -----------------------------------------------------------------------------
    static bool OwnedByTarget(const COutPoint& op, const RefCoin& c) { return c.coinbase && op.n >= 3; }
    /** coins a new source-node transaction may spend: confirmed (mature) ones and outputs of pool txs, minus what pool txs spend */
    std::vector<CoinRef> Available(const PoolView& v, bool for_target, std::vector<CoinRef>* unconfirmed = nullptr)
    {
        std::set<COutPoint> spent;
        for (auto& [id, e] : v.txs)
            for (auto& in : e.tx->vin) spent.insert(in.prevout);
        std::vector<CoinRef> out;
        const int spend_height = (int)chain.size();
        for (auto& [op, c] : conf) {
            if (spent.count(op)) continue;
            if (c.coinbase && spend_height - c.height < 100) continue;
            if (OwnedByTarget(op, c) != for_target) continue;
            out.push_back({op, c});
        }
        for (auto& [id, e] : v.txs)
            for (size_t o = 0; o < e.tx->vout.size(); ++o) {
                COutPoint op(id, (uint32_t)o);
                if (spent.count(op)) continue;
                SpendInfo si = Keys().Classify(e.tx->vout[o].scriptPubKey);
                if (si.kind == SK::UNKNOWN || si.kind == SK::OPRETURN || si.kind == SK::TRUE_BARE) continue;
                CoinRef cr{op, RefCoin{e.tx->vout[o].nValue, e.tx->vout[o].scriptPubKey, -1, false}};
                if (unconfirmed) unconfirmed->push_back(cr);
                else out.push_back(cr);
            }
        return out;
    }
    CTransactionRef MakeTx(const std::vector<CoinRef>& ins, int nout, CAmount fee, uint64_t seed)
    {
        Rng r(mix64(seed, 0x7478));
        CAmount total = 0;
        std::vector<TxIn> tin;
        for (auto& c : ins) { total += c.coin.value; tin.push_back({c.op, c.coin, 0xfffffffd}); }
        if (total - fee < 3000 * nout) { nout = 1; fee = std::min<CAmount>(fee, total / 2); }
        std::vector<CTxOut> outs;
        CAmount left = total - fee;
        for (int i = 0; i < nout; ++i) {
            CAmount v = i + 1 == nout ? left : left / (nout - i) - (CAmount)r.below(1000);
            left -= v;
            SK kind = kStdKinds[r.below(kNStdKinds)];
            // sibling outputs never share a scriptPubKey of the signature-less kind
            int key = kind == SK::TRUE_WSH ? i % N_KEYS : (int)r.below(N_KEYS);
            outs.emplace_back(v, Keys().Spk(kind, key));
        }
        bool ok = true;
        return BuildTx(tin, outs, 0, r.coin() ? 2 : 1, SigDefect::NONE, 0, ok);
    }
    static MempoolAcceptResult Atmp(SimNode& n, const CTransactionRef& tx, int64_t t)
    {
        LOCK(cs_main);
        return AcceptToMemoryPool(n.cs(), tx, t, /*bypass_limits=*/false, /*test_accept=*/false);
    }

    // ---- source-node operations --------------------------------------------------------------
    void DoSubmit(const Op& op)
    {
        PoolView v = Observe(*S.n);
        if (v.txs.size() >= 40) { ctx.ev("submit: pool large enough"); return; }
        std::vector<CoinRef> unconf;
        std::vector<CoinRef> av = Available(v, false, &unconf);
        if (unconf.empty() && av.empty()) { ctx.ev("submit: no coins"); return; }
        std::vector<CoinRef> ins;
        std::vector<CoinRef>& src = ((op.arg(1) && !unconf.empty()) || av.empty()) ? unconf : av;
        ins.push_back(src[op.mod(0, src.size())]);
        int nin = (int)std::clamp<int64_t>(op.arg(2), 1, 3);
        std::vector<CoinRef> all = av;
        all.insert(all.end(), unconf.begin(), unconf.end());
        Rng r(mix64((uint64_t)op.arg(5), 0x696e));
        for (int i = 1; i < nin && !all.empty(); ++i) {
            const CoinRef& c = all[r.below(all.size())];
            bool dup = false;
            for (auto& x : ins) dup |= x.op == c.op;
            if (!dup) ins.push_back(c);
        }
        int mode = (int)op.mod(4, 3);
        CAmount fee = mode == 0 ? (CAmount)r.range(300, 5000) : mode == 1 ? (CAmount)r.range(0, 12) : (CAmount)r.range(20000, 80000);
        CTransactionRef tx = MakeTx(ins, (int)std::clamp<int64_t>(op.arg(3), 1, 3), fee, (uint64_t)op.arg(5));
        MempoolAcceptResult res = WITH_LOCK(cs_main, return S.n->cm().ProcessTransaction(tx));
        bool ok = res.m_result_type == MempoolAcceptResult::ResultType::VALID;
        if (ok) {
            seen.push_back(tx);
            bool chained = false;
            for (auto& in : tx->vin) chained |= v.txs.count(in.prevout.hash) > 0;
            if (chained) ctx.probe("unconfirmed_chain_tx");
        } else {
            ctx.probe("source_submission_rejected");
        }
        ctx.evf("submit %s fee=%ld -> %s", Hx(tx->GetHash()).c_str(), (long)fee, ok ? "accepted" : res.m_state.GetRejectReason().c_str());
    }
    void DoPrio(const Op& op)
    {
        PoolView v = Observe(*S.n);
        int kind = (int)op.mod(0, 4);
        Txid target;
        bool present = false;
        CAmount fee = 1000;
        if (kind == 0 && !v.txs.empty()) {
            auto it = v.txs.begin();
            std::advance(it, op.mod(1, v.txs.size()));
            target = it->first;
            fee = it->second.fee;
            present = true;
        } else if (kind == 1 && !seen.empty()) {
            target = seen[op.mod(1, seen.size())]->GetHash();
            present = v.txs.count(target) > 0;
        } else if (kind == 3 && snap.have && !snap.parsed.deltas.empty()) {
            auto it = snap.parsed.deltas.begin();
            std::advance(it, op.mod(1, snap.parsed.deltas.size()));
            target = it->first;
            present = v.txs.count(target) > 0;
        } else {
            uint256 h;
            Rng r(mix64((uint64_t)op.arg(4), 0x7072));
            r.fill(h.begin(), 32);
            target = Txid::FromUint256(h);
        }
        CAmount d;
        switch (op.mod(2, 4)) {
        case 0: d = op.arg(3) == 0 ? 1 : std::clamp<int64_t>(op.arg(3), -100000, 100000); break;
        case 1: d = 1'000'000 + std::abs(op.arg(3)); break;
        case 2: d = -(fee + v.Delta(target) + 1 + std::abs(op.arg(3)) % 500); break; // modified fee below zero
        default: d = -v.Delta(target); break;                                          // cancel: the entry disappears from the delta map
        }
        if (d == 0) d = 7;
        S.n->pool().PrioritiseTransaction(target, d);
        ctx.probe(present ? "prioritise_present" : "prioritise_absent");
        ctx.evf("prio %s %s delta%+ld", Hx(target).c_str(), present ? "present" : "absent", (long)d);
    }
    void DoUnbroadcast(const Op& op)
    {
        PoolView v = Observe(*S.n);
        if (v.txs.empty()) { ctx.ev("unbroadcast: empty pool"); return; }
        auto it = v.txs.begin();
        std::advance(it, op.mod(0, v.txs.size()));
        if (op.arg(1)) S.n->pool().AddUnbroadcastTx(it->first);
        else S.n->pool().RemoveUnbroadcastTx(it->first);
        ctx.evf("unbroadcast %s %s", op.arg(1) ? "set" : "clear", Hx(it->first).c_str());
    }
    void DoClock(const Op& op)
    {
        if (op.arg(0)) {
            // onto the expiry boundary of a saved record (or, without a dump, of a source pool entry)
            std::vector<int64_t> times;
            if (snap.have)
                for (auto& r : snap.parsed.recs) times.push_back(r.time);
            if (times.empty())
                for (auto& [id, e] : Observe(*S.n).txs) times.push_back(e.time);
            if (!times.empty()) {
                std::sort(times.begin(), times.end());
                int64_t t = times[op.mod(1, times.size())] + expiry + std::clamp<int64_t>(op.arg(2), -1, 1);
                if (t > now) { SetNow(t); ctx.probe("clock_on_expiry_boundary"); }
            }
        } else {
            SetNow(now + std::clamp<int64_t>(op.arg(1), 1, 200 * 86400));
        }
        ctx.evf("clock t=%ld", (long)(now - start));
    }
    void DoBlock(const Op& op)
    {
        if ((int)chain.size() > base + 60) { ctx.ev("block: chain long enough"); return; }
        PoolView v = Observe(*S.n);
        std::vector<Txid> order = TopoOrder(v);
        std::vector<CTransactionRef> txs;
        std::set<Txid> in_block;
        Rng r(mix64((uint64_t)op.arg(1), 0x626c));
        int want = (int)std::clamp<int64_t>(op.arg(0), 0, 12);
        // an ancestor-closed selection: walk the topological order, take a tx if all its pool parents were taken
        for (auto& id : order) {
            if ((int)txs.size() >= want) break;
            const CTransactionRef& tx = v.txs.at(id).tx;
            bool parents_in = true;
            for (auto& in : tx->vin)
                if (v.txs.count(in.prevout.hash) && !in_block.count(in.prevout.hash)) parents_in = false;
            if (!parents_in || r.chance(1, 3)) continue;
            txs.push_back(tx);
            in_block.insert(id);
        }
        bool conflicted = false;
        if (op.arg(2)) {
            // a transaction in the block that double-spends a confirmed input of a pool tx that is not in the block
            for (auto& id : order) {
                if (in_block.count(id)) continue;
                const CTransactionRef& tx = v.txs.at(id).tx;
                auto it = conf.find(tx->vin[0].prevout);
                if (it == conf.end()) continue;
                bool spent_in_block = false;
                for (auto& b : txs)
                    for (auto& in : b->vin) spent_in_block |= in.prevout == tx->vin[0].prevout;
                if (spent_in_block) continue;
                txs.push_back(MakeTx({{it->first, it->second}}, 1, 1500, mix64((uint64_t)op.arg(1), 0x6366)));
                conflicted = true;
                ctx.probe("block_conflicts_with_pool_tx");
                break;
            }
        }
        auto b = Build(chain.back()->GetHash(), (int)chain.size(), chain.back()->nTime + 1, txs);
        chain.push_back(b);
        DeliverToAll(b);
        ExpectTipEverywhere("after mined block");
        RebuildConf();
        if (!txs.empty()) ctx.probe("block_confirms_pool_txs");
        ctx.evf("block h=%zu txs=%zu conflict=%d pool=%zu", chain.size() - 1, txs.size(), conflicted, Observe(*S.n).txs.size());
    }
    void DoReorg(const Op& op)
    {
        int tip = (int)chain.size() - 1;
        int depth = (int)std::min<int64_t>(std::clamp<int64_t>(op.arg(0), 1, 4), tip - base);
        if (depth <= 0 || (int)chain.size() > base + 60) { ctx.ev("reorg: nothing above the base chain"); return; }
        int len = depth + (int)std::clamp<int64_t>(op.arg(1), 1, 2);
        int fork = tip - depth;
        std::vector<std::shared_ptr<const CBlock>> branch;
        uint256 prev = chain[fork]->GetHash();
        int64_t t = chain[fork]->nTime;
        for (int i = 0; i < len; ++i) {
            auto b = Build(prev, fork + 1 + i, ++t, {});
            branch.push_back(b);
            prev = b->GetHash();
        }
        size_t before = Observe(*S.n).txs.size();
        for (auto& b : branch) DeliverToAll(b);
        chain.resize(fork + 1);
        for (auto& b : branch) chain.push_back(b);
        ExpectTipEverywhere("after reorg");
        RebuildConf();
        size_t after = Observe(*S.n).txs.size();
        ctx.probe("reorg");
        if (after > before) ctx.probe("reorg_returned_txs_to_pool");
        ctx.evf("reorg depth=%d new_len=%d pool %zu->%zu", depth, len, before, after);
    }

    // ---- dump ----------------------------------------------------------------------------------
    /** the file must hold exactly the mempool as observed right before the dump */
    Parsed CheckDumpContent(const PoolView& v, const std::vector<uint8_t>& bytes, const char* where)
    {
        Parsed p = ParseFile(bytes);
        if (!p.ok) ctx.failf("dump-file-unreadable", "%s: the harness's reader cannot parse the %zu-byte file DumpMempool reported as written: %s", where, bytes.size(), p.err.c_str());
        if (p.lay.end != bytes.size()) ctx.failf("dump-content-mismatch", "%s: %zu trailing bytes after the unbroadcast set", where, bytes.size() - p.lay.end);
        if (p.recs.size() != v.txs.size()) ctx.failf("dump-content-mismatch", "%s: file holds %zu transactions, the mempool %zu", where, p.recs.size(), v.txs.size());
        std::set<Txid> before;
        for (auto& r : p.recs) {
            const Txid id = r.tx->GetHash();
            auto it = v.txs.find(id);
            if (it == v.txs.end() || before.count(id)) ctx.failf("dump-content-mismatch", "%s: file record %s is %s", where, Hx(id).c_str(), before.count(id) ? "a duplicate" : "not in the mempool");
            if (it->second.tx->GetWitnessHash() != r.tx->GetWitnessHash()) ctx.failf("dump-content-mismatch", "%s: %s saved with a different witness", where, Hx(id).c_str());
            if (it->second.time != r.time) ctx.failf("dump-entry-time-mismatch", "%s: %s saved with time %ld, entry time is %ld", where, Hx(id).c_str(), (long)(r.time - start), (long)(it->second.time - start));
            if (it->second.delta != r.delta) ctx.failf("dump-fee-delta-mismatch", "%s: %s saved with fee delta %ld, the entry's is %ld", where, Hx(id).c_str(), (long)r.delta, (long)it->second.delta);
            for (auto& in : r.tx->vin)
                if (v.txs.count(in.prevout.hash) && !before.count(in.prevout.hash)) ctx.failf("dump-order-child-before-parent", "%s: %s is saved before its mempool parent %s", where, Hx(id).c_str(), Hx(in.prevout.hash).c_str());
            before.insert(id);
        }
        std::map<Txid, CAmount> absent;
        for (auto& [id, d] : v.deltas)
            if (!v.txs.count(id)) absent[id] = d;
        if (absent != p.deltas) ctx.failf("dump-absent-deltas-mismatch", "%s: file holds %zu prioritisation deltas of absent transactions, the mempool %zu (or values differ)", where, p.deltas.size(), absent.size());
        if (v.unb != p.unb) ctx.failf("dump-unbroadcast-mismatch", "%s: file holds %zu unbroadcast txids, the mempool %zu (or members differ)", where, p.unb.size(), v.unb.size());
        return p;
    }
    void DoDump(const Op& op)
    {
        int fault = faults ? (int)op.mod(0, N_DUMP_FAULTS) : DF_NONE;
        PoolView v = Observe(*S.n);
        const size_t log0 = simfs::LogSize();
        if (fault == DF_ENOSPC) simfs::SetFault(simfs::FaultKind::ENOSPC_WRITE, op.mod(1, 2));
        if (fault == DF_SHORT_WRITE) simfs::SetFault(simfs::FaultKind::SHORT_WRITE, op.mod(1, 2));
        if (fault == DF_EIO_SYNC) simfs::SetFault(simfs::FaultKind::EIO_SYNC, 0);
        bool ok;
        WriteCookie wc;
        if (fault == DF_DISK_FULL) {
            // the device fills up after a seeded number of bytes and stays full (the stream has no descriptor to fsync: commit skipped)
            size_t guess = snap.have ? snap.bytes.size() : 400;
            switch (op.arg(1) % 4) {
            case 0: wc.budget = 0; break;
            case 1: wc.budget = (size_t)op.arg(2) % 25; break;
            case 2: wc.budget = (size_t)op.arg(2) % (guess + 200); break;
            default: wc.budget = (size_t)op.arg(2) % 9000; break;
            }
            auto fopen_full = [&](const fs::path& p, const char* mode) -> FILE* {
                wc.fd = ::open(fs::PathToString(p).c_str(), O_WRONLY | O_CREAT | O_TRUNC, 0600);
                if (wc.fd < 0) return nullptr;
                cookie_io_functions_t io{nullptr, WcWrite, WcSeek, WcClose};
                return fopencookie(&wc, mode, io);
            };
            ok = node::DumpMempool(S.n->pool(), fs::PathFromString(dump_path), fopen_full, /*skip_file_commit=*/true);
        } else {
            ok = node::DumpMempool(S.n->pool(), fs::PathFromString(dump_path), fsbridge::fopen, /*skip_file_commit=*/false);
        }
        bool fired = simfs::FaultFired() || wc.fired;
        simfs::ClearFault();
        const size_t log1 = simfs::LogSize();
        if (simfs::OpsFromOtherThreads()) ctx.failf("engine-simfs-thread", "file operations from another thread");
        std::vector<uint8_t> bytes;
        bool exists = ReadWholeFile(dump_path, bytes);
        char where[120];
        snprintf(where, sizeof where, "dump of %zu txs (fault %s%s)", v.txs.size(), kDumpFaultNames[fault], fired ? ", fired" : "");
        if (fired) ctx.fault(fault == DF_ENOSPC ? "dump_enospc" : fault == DF_SHORT_WRITE ? "dump_short_write" : fault == DF_DISK_FULL ? "dump_disk_full" : "dump_fsync_eio");
        const Snapshot old = snap;
        if (!ok) {
            if (!fired) ctx.failf("dump-failed-without-fault", "%s: DumpMempool returned false", where);
            // the previous complete file must have survived
            if (old.have ? (!exists || bytes != old.bytes) : exists) ctx.failf("failed-dump-damaged-previous-file", "%s: DumpMempool returned false and mempool.dat is %s", where, !exists ? "gone" : old.have ? "no longer the previous dump" : "present although no dump ever succeeded");
            ctx.probe("failed_dump_left_old_file");
            ctx.evf("dump failed (%s) old file kept", kDumpFaultNames[fault]);
            return;
        }
        if (!exists) ctx.failf("dump-content-mismatch", "%s: DumpMempool returned true but there is no mempool.dat", where);
        Parsed p = CheckDumpContent(v, bytes, where);
        snap.have = true;
        snap.bytes = bytes;
        snap.parsed = p;
        ctx.probe("dump_ok");
        if (!p.deltas.empty()) ctx.probe("dump_with_absent_deltas");
        if (!p.unb.empty()) ctx.probe("dump_with_unbroadcast");
        bool any_delta = false;
        for (auto& r : p.recs) any_delta |= r.delta != 0;
        if (any_delta) ctx.probe("dump_with_entry_deltas");
        ctx.evf("dump ok %zuB txs=%zu absent_deltas=%zu unb=%zu", bytes.size(), p.recs.size(), p.deltas.size(), p.unb.size());
        if (fault == DF_CRASH_ENUM && log1 > log0) {
            // every crash point of this dump's file operations, process-kill and power-loss semantics
            Rng r(mix64((uint64_t)op.arg(2), 0x6372));
            std::string img = RunDir() + "/img";
            size_t n_old = 0, n_new = 0;
            for (size_t k = log0; k <= log1; ++k)
                for (size_t j = log0; j <= k + 1; ++j) {
                    simfs::CrashSpec c;
                    c.k = k;
                    c.powerloss = j <= k;
                    c.j = std::min(j, k);
                    c.torn = c.powerloss && r.coin();
                    c.torn_sel = (uint32_t)r.next();
                    std::error_code ec;
                    std::filesystem::remove_all(img, ec);
                    simfs::ImageInfo ii;
                    if (!simfs::Materialize(c, img, &ii)) ctx.failf("engine-simfs-materialize", "k=%zu", k - log0);
                    std::vector<uint8_t> ib;
                    bool have = ReadWholeFile(img + "/mempool.dat", ib);
                    ctx.fault(c.powerloss ? "crash_powerloss_during_dump" : "crash_kill_during_dump");
                    if (ii.tore) ctx.fault("torn_write");
                    bool is_new = have && ib == bytes;
                    bool is_old = old.have ? (have && ib == old.bytes) : !have;
                    if (!is_new && !is_old)
                        ctx.failf("crash-during-dump-damaged-file", "%s: %s image at file-op %zu of %zu (durable prefix %zu): mempool.dat is %s, neither the previous nor the new complete dump", where, c.powerloss ? "power-loss" : "process-kill", k - log0, log1 - log0, c.j - log0, have ? "present" : "absent");
                    (is_new ? n_new : n_old)++;
                }
            std::error_code ec;
            std::filesystem::remove_all(img, ec);
            if (n_old) ctx.probe("crash_image_old_file", n_old);
            if (n_new) ctx.probe("crash_image_new_file", n_new);
            ctx.evf("dump crash images old=%zu new=%zu", n_old, n_new);
        }
    }

    // ---- target / twin ----------------------------------------------------------------------------
    void NewPair()
    {
        pair.reset();
        pair = std::make_unique<Pair>();
        pair->id = ++pairs_made;
        pair->L = MakeNode("tgt");
        pair->T = MakeNode("twin");
        ctx.probe("fresh_target_pair");
    }
    void SubmitBoth(const CTransactionRef& tx, const char* what)
    {
        auto rl = Atmp(*pair->L.n, tx, now);
        auto rt = Atmp(*pair->T.n, tx, now);
        bool a = rl.m_result_type == MempoolAcceptResult::ResultType::VALID, b = rt.m_result_type == MempoolAcceptResult::ResultType::VALID;
        if (a != b) ctx.failf("engine-twin-desync", "%s %s: target %d twin %d", what, Hx(tx->GetHash()).c_str(), a, b);
        ctx.evf("pre %s %s -> %s", what, Hx(tx->GetHash()).c_str(), a ? "accepted" : rl.m_state.GetRejectReason().c_str());
    }
    void DoPre(const Op& op)
    {
        if (!snap.have) { ctx.ev("pre: nothing saved yet"); return; }
        if (!pair || (op.arg(5) && pair->loads > 0 && pairs_made < ctx.knob("max_pairs", 2))) NewPair();
        const auto& recs = snap.parsed.recs;
        int kind = (int)op.mod(0, 3);
        if (kind == 2 && !conflicts) kind = 1;
        CTransactionRef marked;
        if (kind == 0 && !recs.empty()) {
            size_t k = 1 + op.mod(1, std::min<size_t>(recs.size(), 6));
            for (size_t i = 0; i < k; ++i) SubmitBoth(recs[i].tx, "copy-of-saved");
            marked = recs[op.mod(2, k)].tx;
            ctx.probe("target_holds_saved_txs");
        } else if (kind == 2 && !recs.empty()) {
            for (size_t n = 0; n < recs.size(); ++n) {
                const SavedRec& r = recs[(op.mod(1, recs.size()) + n) % recs.size()];
                auto it = conf.find(r.tx->vin[0].prevout);
                if (it == conf.end()) continue;
                Rng rr(mix64((uint64_t)op.arg(2), 0x636f));
                CAmount fee = rr.coin() ? (CAmount)rr.range(200, 600) : (CAmount)rr.range(30000, 200000);
                marked = MakeTx({{it->first, it->second}}, 1, fee, (uint64_t)op.arg(2));
                SubmitBoth(marked, "conflicting-with-saved");
                ctx.probe("target_holds_conflicting_tx");
                break;
            }
        } else {
            PoolView lv = Observe(*pair->L.n);
            std::set<COutPoint> spent;
            for (auto& [id, e] : lv.txs)
                for (auto& in : e.tx->vin) spent.insert(in.prevout);
            std::vector<CoinRef> coins;
            for (auto& [o, c] : conf)
                if (OwnedByTarget(o, c) && !spent.count(o) && (int)chain.size() - c.height >= 100) coins.push_back({o, c});
            for (auto& tx : pair->own)
                if (lv.txs.count(tx->GetHash()))
                    for (size_t o = 0; o < tx->vout.size(); ++o) {
                        COutPoint outp(tx->GetHash(), (uint32_t)o);
                        if (!spent.count(outp)) coins.push_back({outp, RefCoin{tx->vout[o].nValue, tx->vout[o].scriptPubKey, -1, false}});
                    }
            if (coins.empty()) { ctx.ev("pre: no target coins"); return; }
            Rng rr(mix64((uint64_t)op.arg(2), 0x6f77));
            marked = MakeTx({coins[op.mod(1, coins.size())]}, (int)rr.range(1, 2), (CAmount)rr.range(400, 4000), (uint64_t)op.arg(2));
            SubmitBoth(marked, "own");
            pair->own.push_back(marked);
            ctx.probe("target_holds_own_txs");
        }
        if (marked && pair->L.n->pool().exists(marked->GetHash())) {
            if (op.arg(3)) {
                pair->L.n->pool().AddUnbroadcastTx(marked->GetHash());
                pair->T.n->pool().AddUnbroadcastTx(marked->GetHash());
            }
            if (op.arg(4)) {
                pair->L.n->pool().PrioritiseTransaction(marked->GetHash(), op.arg(4));
                pair->T.n->pool().PrioritiseTransaction(marked->GetHash(), op.arg(4));
            }
        }
    }

    /** make the twin's prioritisation map and unbroadcast set equal to the target's */
    void SyncTwinMeta(bool unbroadcast_too)
    {
        PoolView l = Observe(*pair->L.n), t = Observe(*pair->T.n);
        std::set<Txid> ids;
        for (auto& [id, d] : l.deltas) ids.insert(id);
        for (auto& [id, d] : t.deltas) ids.insert(id);
        for (auto& id : ids) {
            CAmount diff = l.Delta(id) - t.Delta(id);
            if (diff) pair->T.n->pool().PrioritiseTransaction(id, diff);
        }
        if (!unbroadcast_too) return;
        for (auto& id : l.unb)
            if (!t.unb.count(id)) pair->T.n->pool().AddUnbroadcastTx(id);
        for (auto& id : t.unb)
            if (!l.unb.count(id)) pair->T.n->pool().RemoveUnbroadcastTx(id);
    }
    void CompareWithTwin(const char* where)
    {
        PoolView l = Observe(*pair->L.n), t = Observe(*pair->T.n);
        if (l.txs.size() != t.txs.size()) ctx.failf("engine-twin-desync", "%s: target holds %zu txs, twin %zu", where, l.txs.size(), t.txs.size());
        for (auto& [id, e] : l.txs) {
            auto it = t.txs.find(id);
            if (it == t.txs.end()) ctx.failf("engine-twin-desync", "%s: %s only in the target", where, Hx(id).c_str());
            if (it->second.time != e.time || it->second.delta != e.delta) ctx.failf("engine-twin-desync", "%s: %s time %ld/%ld delta %ld/%ld", where, Hx(id).c_str(), (long)e.time, (long)it->second.time, (long)e.delta, (long)it->second.delta);
        }
        if (l.deltas != t.deltas || l.unb != t.unb) ctx.failf("engine-twin-desync", "%s: prioritisation map or unbroadcast set differ after synchronisation", where);
    }

    struct FileSpec {
        std::vector<uint8_t> bytes;
        bool missing{false};
        int64_t eio_at{-1};
        bool short_reads{false};
        uint64_t seed{1};
        bool intact_content{true};  //!< same records as the saved dump (possibly re-encoded)
        bool strict_prefix{false};  //!< a proper prefix of the intact dump
        std::vector<size_t> flips;
        std::string what;
    };

    void OneLoad(FileSpec& fs_)
    {
        Pair& P = *pair;
        const Parsed& D = snap.parsed;
        const PoolView pre = Observe(*P.L.n);
        ReadCookie rc;
        rc.data = &fs_.bytes;
        rc.eio_at = fs_.eio_at;
        rc.short_reads = fs_.short_reads;
        rc.rng.reseed(fs_.seed);
        node::ImportMempoolOptions opts;
        opts.mockable_fopen_function = [&](const fs::path&, const char* mode) -> FILE* {
            if (fs_.missing) { errno = ENOENT; return nullptr; }
            cookie_io_functions_t io{RcRead, nullptr, RcSeek, RcClose};
            return fopencookie(&rc, mode, io);
        };
        P.L.rec->Begin();
        const bool ok = node::LoadMempool(P.L.n->pool(), fs::PathFromString(persist_dir + "/stream/mempool.dat"), P.L.n->cs(), std::move(opts));
        P.L.rec->End();
        ++P.loads;
        const std::vector<CTransactionRef> ladded = P.L.rec->added;
        const PoolView post = Observe(*P.L.n);
        char where[200];
        snprintf(where, sizeof where, "load #%d into pair %d of %s (%zuB of %zuB, %zu saved txs, %zu pre-existing)", P.loads, P.id, fs_.what.c_str(), fs_.bytes.size(), snap.bytes.size(), D.recs.size(), pre.txs.size());
        if (rc.short_fired) ctx.fault("short_read");
        if (rc.eio_fired) ctx.fault("read_eio");
        if (fs_.missing) ctx.fault("file_missing");
        if (fs_.strict_prefix) ctx.fault("truncated_file");
        bool flip_seen = false;
        for (size_t f : fs_.flips) flip_seen |= f < rc.delivered_end;
        if (flip_seen) ctx.fault("byte_flip");
        const bool full = fs_.intact_content && !fs_.missing && !rc.eio_fired;
        const int64_t cutoff = now - expiry;
        ctx.nontrivial = true;

        if (full) {
            if (!ok) ctx.failf("intact-file-load-reported-failed", "%s: LoadMempool returned false", where);
            // twin: normal submission of the unexpired saved records, in saved order, with the saved delta and time
            P.T.rec->Begin();
            size_t n_expired = 0, n_rejected = 0, n_already = 0;
            std::map<Txid, const SavedRec*> by_id;
            for (auto& r : D.recs) {
                by_id[r.tx->GetHash()] = &r;
                if (r.time <= cutoff) { ++n_expired; continue; }
                if (r.delta) P.T.n->pool().PrioritiseTransaction(r.tx->GetHash(), r.delta);
                if (Atmp(*P.T.n, r.tx, r.time).m_result_type != MempoolAcceptResult::ResultType::VALID) {
                    if (pre.txs.count(r.tx->GetHash())) ++n_already;
                    else ++n_rejected;
                }
            }
            P.T.rec->End();
            const std::vector<CTransactionRef>& tadded = P.T.rec->added;
            std::set<Wtxid> lset, tset;
            for (auto& t : ladded) lset.insert(t->GetWitnessHash());
            for (auto& t : tadded) tset.insert(t->GetWitnessHash());
            for (auto& t : tadded)
                if (!lset.count(t->GetWitnessHash())) ctx.failf("saved-tx-not-restored", "%s: unexpired saved tx %s is accepted by normal submission on the twin but was not restored", where, Hx(t->GetHash()).c_str());
            for (auto& t : ladded)
                if (!tset.count(t->GetWitnessHash())) {
                    auto it = by_id.find(t->GetHash());
                    bool exp = it != by_id.end() && it->second->time <= cutoff;
                    ctx.failf(exp ? "expired-tx-restored" : "restored-tx-normal-submission-rejects", "%s: %s was added by the load but %s", where, Hx(t->GetHash()).c_str(), exp ? "its saved entry time is past the expiry window" : "normal submission on the twin does not accept it");
                }
            if (ladded.size() != tadded.size()) ctx.failf("restore-order-differs-from-saved-order", "%s: the load added %zu txs, normal submission in saved order %zu", where, ladded.size(), tadded.size());
            for (size_t i = 0; i < ladded.size(); ++i)
                if (ladded[i]->GetWitnessHash() != tadded[i]->GetWitnessHash()) ctx.failf("restore-order-differs-from-saved-order", "%s: position %zu restored %s, saved order gives %s", where, i, Hx(ladded[i]->GetHash()).c_str(), Hx(tadded[i]->GetHash()).c_str());
            const PoolView tpost = Observe(*P.T.n);
            for (auto& [id, e] : tpost.txs)
                if (!post.txs.count(id)) ctx.failf("mempool-after-load-differs-from-twin", "%s: %s is in the twin's mempool after normal submission but not in the target's", where, Hx(id).c_str());
            for (auto& [id, e] : post.txs)
                if (!tpost.txs.count(id)) ctx.failf("mempool-after-load-differs-from-twin", "%s: %s is in the target's mempool but not in the twin's", where, Hx(id).c_str());
            size_t restored = 0;
            for (auto& t : ladded) {
                const Txid id = t->GetHash();
                auto pe = post.txs.find(id);
                auto br = by_id.find(id);
                if (pe == post.txs.end() || br == by_id.end()) continue;
                ++restored;
                const SavedRec& r = *br->second;
                if (pe->second.time != r.time) ctx.failf("entry-time-not-restored", "%s: %s restored with entry time t%+ld, saved t%+ld (now t%+ld)", where, Hx(id).c_str(), (long)(pe->second.time - start), (long)(r.time - start), (long)(now - start));
                if (pe->second.delta != pre.Delta(id) + r.delta) ctx.failf("fee-delta-not-restored", "%s: %s restored with fee delta %ld, saved %ld (target had %ld for it before)", where, Hx(id).c_str(), (long)pe->second.delta, (long)r.delta, (long)pre.Delta(id));
                if (post.unb.count(id) != D.unb.count(id)) ctx.failf("unbroadcast-status-not-restored", "%s: %s restored %s the unbroadcast mark, saved %s it", where, Hx(id).c_str(), post.unb.count(id) ? "with" : "without", D.unb.count(id) ? "with" : "without");
                if (r.delta) ctx.probe("restored_with_delta");
                if (D.unb.count(id)) ctx.probe("restored_unbroadcast");
                if (r.time != now) ctx.probe("restored_with_older_entry_time");
            }
            for (auto& [id, d] : D.deltas)
                if (post.Delta(id) != pre.Delta(id) + d) ctx.failf("absent-delta-not-restored", "%s: prioritisation of absent tx %s is %ld after the load, saved %ld (target had %ld before)", where, Hx(id).c_str(), (long)post.Delta(id), (long)d, (long)pre.Delta(id));
            if (!D.deltas.empty()) ctx.probe("absent_deltas_restored");
            std::set<Txid> removed_during_load;
            for (auto& [id, rs] : P.L.rec->removed) removed_during_load.insert(id);
            for (auto& id : pre.unb)
                if (post.txs.count(id) && !post.unb.count(id) && !removed_during_load.count(id)) ctx.failf("unbroadcast-mark-lost", "%s: pre-existing entry %s lost its unbroadcast mark", where, Hx(id).c_str());
            for (auto& id : post.unb)
                if (!pre.unb.count(id) && !D.unb.count(id)) ctx.failf("unbroadcast-status-not-restored", "%s: %s is marked unbroadcast but was neither marked before nor saved as unbroadcast", where, Hx(id).c_str());
            if (n_expired) ctx.probe("saved_tx_expired_at_load", n_expired);
            if (n_rejected) ctx.probe("saved_tx_rejected_at_load", n_rejected);
            if (n_already) ctx.probe("saved_tx_already_in_target", n_already);
            if (restored) ctx.probe("saved_tx_restored", restored);
            if (!pre.txs.empty()) ctx.probe("load_into_nonempty_pool");
            size_t replaced = 0;
            for (auto& [id, rs] : P.L.rec->removed) replaced += rs == MemPoolRemovalReason::REPLACED;
            if (replaced) ctx.probe("restored_tx_replaced_existing_entry");
            if (D.version == 2 && fs_.what == "intact") ctx.probe("intact_roundtrip");
            ctx.evf("load %s ok=%d restored=%zu expired=%zu rejected=%zu pool=%zu", fs_.what.c_str(), ok, restored, n_expired, n_rejected, post.txs.size());
            fp = mix64(fp, mix64(mix64(restored, n_expired), mix64(n_rejected, post.txs.size())));
            SyncTwinMeta(true);
            CompareWithTwin(where);
            return;
        }

        // ---- damaged input: one-directional clauses only
        const bool must_fail = fs_.missing || rc.eio_fired || (fs_.strict_prefix && fs_.flips.empty());
        if (must_fail && ok) ctx.failf(fs_.missing ? "missing-file-load-reported-success" : "truncated-file-load-reported-success", "%s: LoadMempool returned true although the stream ended before the saved content was complete", where);
        if (fs_.missing) {
            if (post.txs.size() != pre.txs.size() || post.deltas != pre.deltas || post.unb != pre.unb) ctx.failf("missing-file-load-changed-mempool", "%s", where);
            ctx.evf("load missing ok=%d", ok);
            return;
        }
        // The loader applies a record's own fee delta right before it submits the record, and the prioritisation-map section only after
        // all records. The twin mirrors that order: own delta, submission, and the rest of the prioritisation at the end (a map entry for
        // an existing transaction that the loaded one has just replaced would otherwise make the twin refuse the replacement).
        size_t mirrored = 0;
        for (auto& t : ladded) {
            auto pe = post.txs.find(t->GetHash());
            if (pe == post.txs.end()) { ctx.probe("added_tx_gone_again"); continue; }
            if (CAmount diff = pe->second.delta - Observe(*P.T.n).Delta(t->GetHash())) P.T.n->pool().PrioritiseTransaction(t->GetHash(), diff);
            auto submit = [&] {
                auto first = Atmp(*P.T.n, t, pe->second.time);
                if (first.m_result_type == MempoolAcceptResult::ResultType::VALID) return first;
                // a damaged file may also have carried deltas for other transactions in earlier records: retry with all of them
                SyncTwinMeta(false);
                ctx.probe("twin_submission_needed_full_prioritisation");
                return Atmp(*P.T.n, t, pe->second.time);
            };
            auto res = submit();
            if (res.m_result_type != MempoolAcceptResult::ResultType::VALID)
                ctx.failf("load-added-tx-normal-submission-rejects", "%s: the load added %s, which normal submission on the twin (same chain, same mempool, same prioritisation) rejects: %s", where, Hx(t->GetHash()).c_str(), res.m_state.GetRejectReason().c_str());
            ++mirrored;
        }
        SyncTwinMeta(false);
        // pre-existing entries: all still there (entries past the expiry window, or below one, are subject to ordinary expiry
        // as soon as anything is accepted; an entry evicted by an accepted replacement is ordinary RBF)
        std::set<Txid> expirable;
        for (auto& id : TopoOrder(pre)) {
            const EntryView& e = pre.txs.at(id);
            bool x = e.time < cutoff;
            for (auto& in : e.tx->vin) x |= expirable.count(in.prevout.hash) > 0;
            if (x) expirable.insert(id);
        }
        std::set<COutPoint> post_spent;
        for (auto& [id, e] : post.txs)
            for (auto& in : e.tx->vin) post_spent.insert(in.prevout);
        // (a replacement takes the descendants of the entries it conflicts with along)
        std::set<Txid> replaced_set;
        for (auto& id : TopoOrder(pre)) {
            const EntryView& e = pre.txs.at(id);
            bool x = false;
            for (auto& in : e.tx->vin) x |= post_spent.count(in.prevout) > 0 || replaced_set.count(in.prevout.hash) > 0;
            if (x && !post.txs.count(id)) replaced_set.insert(id);
        }
        for (auto& [id, e] : pre.txs) {
            if (post.txs.count(id)) continue;
            if (expirable.count(id)) { ctx.probe("preexisting_entry_expired_during_load"); continue; }
            const bool replaced = replaced_set.count(id) > 0;
            if (replaced) { ctx.probe("preexisting_entry_replaced_during_damaged_load"); continue; }
            std::string why = "no removal notification";
            for (auto& [rid, rs] : P.L.rec->removed)
                if (rid == id) why = RemovalReasonToString(rs);
            ctx.failf("existing-entry-removed-by-damaged-load", "%s: pre-existing mempool entry %s (unexpired, not replaced) is gone after loading the damaged file (removal reason: %s; entry time %lld, expiry cutoff %lld)", where, Hx(id).c_str(), why.c_str(), (long long)e.time, (long long)cutoff);
        }
        // entries the target lost legitimately (classified above) leave the twin as well
        {
            const PoolView tv = Observe(*P.T.n);
            for (auto& [id, e] : tv.txs)
                if (!post.txs.count(id)) {
                    LOCK(P.T.n->pool().cs);
                    P.T.n->pool().removeRecursive(*e.tx, MemPoolRemovalReason::EXPIRY);
                }
        }
        if (mirrored) ctx.probe("damaged_load_added_txs", mirrored);
        if (!ok) ctx.probe("damaged_load_reported_failed");
        else ctx.probe("damaged_load_reported_success");
        if (!pre.txs.empty()) ctx.probe("damaged_load_into_nonempty_pool");
        ctx.evf("load %s ok=%d added=%zu pool=%zu", fs_.what.c_str(), ok, ladded.size(), post.txs.size());
        fp = mix64(fp, mix64(mix64(ladded.size(), ok), post.txs.size()));
        SyncTwinMeta(true);
        CompareWithTwin(where);
    }

    size_t TruncOffset(uint64_t cls, uint64_t idx)
    {
        const Layout& l = snap.parsed.lay;
        const size_t len = snap.bytes.size();
        const size_t n = l.tx_begin.size();
        auto within = [&](size_t lo, size_t hi) { return hi > lo ? lo + idx % (hi - lo) : lo; };
        size_t i = n ? idx % n : 0;
        size_t off;
        switch (cls % 12) {
        case 0: off = within(0, 8); break;                               // inside the version
        case 1: off = within(8, l.body_off); break;                      // inside the key
        case 2: off = within(l.body_off, l.count_end); break;            // inside the count
        case 3: off = n ? l.tx_begin[i] : l.count_end; break;            // record boundary
        case 4: off = n ? within(l.tx_begin[i] + 1, l.tx_end[i]) : l.count_end; break; // inside a transaction
        case 5: off = n ? within(l.tx_end[i], l.time_end[i]) : l.count_end; break;     // before / inside the time
        case 6: off = n ? within(l.time_end[i], l.delta_end[i]) : l.count_end; break;  // before / inside the delta
        case 7: off = within(l.map_off, l.unb_off); break;               // before / inside the delta map
        case 8: off = within(l.unb_off, l.end); break;                   // before / inside the unbroadcast set
        case 9: off = len - 1; break;
        case 10: off = l.map_off + 1; break;
        default: off = idx % len; break;
        }
        return std::min(off, len - 1);
    }

    void DoLoad(const Op& op)
    {
        if (!snap.have) { ctx.ev("load: nothing saved yet"); return; }
        if (!pair || (op.arg(0) && pair->loads > 0 && pairs_made < ctx.knob("max_pairs", 2))) NewPair();
        int variant = (int)op.mod(1, N_VARIANTS);
        if (!faults && variant >= V_SHORT_READS) variant = V_INTACT;
        const Parsed& D = snap.parsed;
        const Layout& l = D.lay;
        Rng r(mix64((uint64_t)op.arg(4), 0x6c6f));
        FileSpec f;
        f.bytes = snap.bytes;
        f.seed = (uint64_t)op.arg(4) | 1;
        f.what = kVariantNames[variant];
        const size_t len = snap.bytes.size();
        switch (variant) {
        case V_INTACT: break;
        case V_REKEY: {
            std::array<uint8_t, 8> k;
            r.fill(k.data(), 8);
            if (op.arg(2) % 5 == 0) k.fill(0);
            f.bytes = Reencode(snap.bytes, D, 2, k);
            ctx.probe("rekeyed_file");
            break;
        }
        case V_V1:
            f.bytes = Reencode(snap.bytes, D, 1, {});
            ctx.probe("version1_file");
            break;
        case V_SHORT_READS: f.short_reads = true; break;
        case V_TRUNC:
            f.bytes.resize(TruncOffset((uint64_t)op.arg(2), (uint64_t)op.arg(3)));
            f.intact_content = false;
            f.strict_prefix = true;
            break;
        case V_EIO:
            f.eio_at = op.arg(2) % 7 == 0 ? (int64_t)len : (int64_t)TruncOffset((uint64_t)op.arg(2), (uint64_t)op.arg(3));
            f.short_reads = op.arg(3) & 1;
            break;
        case V_FLIP: {
            int nf = 1 + (int)(op.arg(2) % 4);
            const size_t n = l.tx_begin.size();
            for (int i = 0; i < nf; ++i) {
                size_t pos;
                size_t k = n ? r.below(n) : 0;
                switch (r.pick({2, 2, 3, 3, 4, 2, 2, 3})) {
                case 0: pos = r.below(l.body_off); break;
                case 1: pos = l.body_off + r.below(l.count_end - l.body_off); break;
                case 2: pos = n ? l.tx_end[k] + r.below(8) : r.below(len); break;   // time
                case 3: pos = n ? l.time_end[k] + r.below(8) : r.below(len); break; // delta
                case 4: pos = n ? l.tx_begin[k] + r.below(l.tx_end[k] - l.tx_begin[k]) : r.below(len); break;
                case 5: pos = l.map_off + r.below(std::max<size_t>(1, l.unb_off - l.map_off)); break;
                case 6: pos = l.unb_off + r.below(std::max<size_t>(1, l.end - l.unb_off)); break;
                default: pos = r.below(len); break;
                }
                pos = std::min(pos, len - 1);
                f.bytes[pos] ^= r.coin() ? (uint8_t)(1u << r.below(8)) : (uint8_t)(1 + r.below(255));
                f.flips.push_back(pos);
            }
            if (op.arg(3) % 6 == 0) { f.bytes.resize(1 + r.below(len - 1)); f.strict_prefix = true; } // flips and truncation together
            f.intact_content = false;
            break;
        }
        case V_VERSION: {
            static const uint64_t vals[] = {0, 1, 3, 258, 0xffffffffffffffffULL, 0x0200000000000000ULL};
            uint64_t v = vals[op.arg(2) % 6];
            if (v == D.version) v = 3;
            for (int i = 0; i < 8; ++i) { f.bytes[i] = (uint8_t)(v >> (8 * i)); f.flips.push_back(i); }
            f.intact_content = false;
            break;
        }
        case V_KEY: {
            size_t pos = 8 + op.arg(2) % 9;
            f.bytes[pos] ^= (uint8_t)(1u << (op.arg(3) % 8));
            f.flips.push_back(pos);
            f.intact_content = false;
            break;
        }
        case V_MISSING:
            f.missing = true;
            f.intact_content = false;
            break;
        case V_TRUNC_SWEEP: {
            size_t step = (size_t)std::clamp<int64_t>(op.arg(2), 1, 64);
            size_t n = 0;
            for (size_t off = op.arg(3) % step; off < len; off += step, ++n) {
                FileSpec t;
                t.bytes.assign(snap.bytes.begin(), snap.bytes.begin() + off);
                t.intact_content = false;
                t.strict_prefix = true;
                t.what = "truncated";
                OneLoad(t);
            }
            ctx.probe(step == 1 ? "truncation_at_every_offset" : "truncation_sweep");
            ctx.probe("truncation_points", n);
            return;
        }
        }
        OneLoad(f);
    }

    uint64_t Fingerprint()
    {
        PoolView v = Observe(*S.n);
        uint64_t h = mix64(fp, mix64(v.txs.size(), mix64(v.deltas.size(), v.unb.size())));
        h = mix64(h, mix64(snap.have ? snap.parsed.recs.size() + 1 : 0, chain.size()));
        if (pair) h = mix64(h, mix64(pair->L.n->pool().size(), pair->loads));
        return h;
    }

    void Run()
    {
        Setup();
        for (const Op& op : ctx.plan.ops) {
            switch (op.kind) {
            case SUBMIT: DoSubmit(op); break;
            case PRIO: DoPrio(op); break;
            case UNBROADCAST: DoUnbroadcast(op); break;
            case CLOCK: DoClock(op); break;
            case BLOCK: DoBlock(op); break;
            case REORG: DoReorg(op); break;
            case DUMP: DoDump(op); break;
            case PRE: DoPre(op); break;
            case LOAD: DoLoad(op); break;
            default: break;
            }
            ForAllNodes([&](NodeH& h) {
                if (h.n->Fatal()) ctx.failf("engine-node-fatal-error", "a node reported a fatal error");
            });
            ctx.fingerprint(Fingerprint());
        }
        ctx.sim_ms = (uint64_t)(now - start) * 1000;
        pair.reset();
        S.n->Stop(false);
    }
};

void Run(Ctx& ctx)
{
    Sim s(ctx);
    s.Run();
}

Engine MakeEngine()
{
    Engine e;
    e.prop = "C55";
    e.name = "nodesim/mempool-persist";
    e.level = "fault_enumeration";
    e.gen = Gen;
    e.run = Run;
    e.describe = Describe;
    e.chunk = 1;
    e.quick_runs = 700;
    e.thorough_runs = 10000;
    e.quick_budget_s = 50;
    e.thorough_budget_s = 900;
    e.run_timeout_s = 300;
    e.rule = "each run = one history on a real regtest source node (base chain 102-107 blocks with 5-output coinbases; 1-3 rounds of 5-30 operations: normal submission of signed "
             "P2WPKH/P2TR/P2WSH/P2PKH/P2SH-P2WPKH transactions incl. chains of unconfirmed ones and too-low-fee ones, prioritisetransaction on present / formerly seen / random txids "
             "(small, large, below-zero modified fee, cancelling), unbroadcast marks, clock steps up to 1.5x -mempoolexpiry and exactly onto expiry boundaries +-1 s, blocks confirming or "
             "conflicting with pool txs, reorgs returning txs), DumpMempool (fault-free; or ENOSPC / short write / failing fsync at the k-th file operation; or a device that is full for good after n bytes; or every process-kill and power-loss "
             "image of the dump's recorded file operations), further clock/block/reorg operations, then 2-10 LoadMempool calls through the fopen seam into a fresh or non-empty (copies of saved "
             "txs, own txs, conflicting txs) target node on the same chain: intact / re-keyed / version-1 / short-read streams (exact oracle) and truncation at every structural offset class or "
             "a sweep of offsets (every offset in the thorough tier), EIO mid-record, 1-4 flipped bytes biased to header, count, time, delta, tx, map and set fields, damaged version or key, missing "
             "file (one-directional oracle). knob faults=0 runs contain no fault at all. non-trivial = at least one LoadMempool of a saved dump ran; distinct = distinct fingerprints of "
             "(source pool size, #deltas, #unbroadcast, saved records, chain length, target pool size, loads so far, restored/expired/rejected counts). The probe `truncation_points` counts the "
             "truncated loads of sweeps.";
    e.real_components = {"node::DumpMempool / node::LoadMempool (node/mempool_persist.cpp)", "AutoFile + Obfuscation over stdio streams", "CTxMemPool (PrioritiseTransaction, unbroadcast set, Expire, RBF)",
                         "MemPoolAccept / AcceptToMemoryPool, ChainstateManager::ProcessTransaction, block connection and reorg handling of three real nodes", "glibc stdio buffering above the simulated streams"};
    e.stub_components = {"file being loaded (fopencookie stream over an in-memory image: truncation, EIO, short reads, flipped bytes)", "directory holding mempool.dat (simfs: recorded pass-through to tmpfs, injected ENOSPC/short write/fsync error, crash images rebuilt from the I/O log)",
                         "clock (SetMockTime)", "peers / wallet (none: unbroadcast marks are set directly)", "miner (harness-built blocks)"};
    e.assumptions = {"'normal submission accepts at load time' is decided by a twin node that is kept in the target's state (same blocks, same pre-existing entries, same prioritisation) and is given the "
                     "transactions by AcceptToMemoryPool(bypass_limits=false) with the saved delta applied first and the saved entry time as accept time (ProcessTransaction differs only in using the current time)",
                     "the reference for 'the mempool at dump time' is the source node's mapTx / GetPrioritisedTransactions / GetUnbroadcastTxs read right before the dump, not infoAll()",
                     "a delta the target already held for a txid stacks with the saved one (PrioritiseTransaction's documented behaviour); deltas and unbroadcast marks of transactions that were already in the target are not constrained",
                     "damaged loads: entries older than the expiry window (and their descendants) and entries evicted by an accepted replacement are not counted as removed by the load",
                     "a stream that fails with EIO before the saved content is complete is treated like a truncated file (must be reported as failed)",
                     "power-loss model of simfs: see C16"};
    e.expected_probes = {"dump_ok", "dump_with_absent_deltas", "dump_with_unbroadcast", "dump_with_entry_deltas", "intact_roundtrip", "saved_tx_restored", "restored_with_delta", "restored_unbroadcast",
                         "restored_with_older_entry_time", "absent_deltas_restored", "saved_tx_expired_at_load", "saved_tx_rejected_at_load", "load_into_nonempty_pool", "restored_tx_replaced_existing_entry",
                         "clock_on_expiry_boundary", "unconfirmed_chain_tx", "block_confirms_pool_txs", "reorg_returned_txs_to_pool", "rekeyed_file", "version1_file", "truncated_file", "truncation_sweep",
                         "read_eio", "short_read", "byte_flip", "file_missing", "damaged_load_added_txs", "damaged_load_into_nonempty_pool", "dump_enospc", "dump_disk_full", "dump_fsync_eio", "failed_dump_left_old_file",
                         "crash_image_old_file", "crash_image_new_file", "fresh_target_pair"};
    return e;
}
Engine g_engine = MakeEngine();
SIM_REGISTER_ENGINE(g_engine);

} // namespace
