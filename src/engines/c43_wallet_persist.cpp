// C43 — wallet state survives restarts and crashes consistently.
// crashsim for the wallet: a real descriptor CWallet on a PRODUCTION SQLite database (synchronous=FULL, rollback journal, exclusive
// locking; never use_unsafe_sync) whose file traffic is recorded by simfs, attached to a real regtest node (walletsim).
//
// Three observers are stacked around the real code:
//  (1) a pass-through decorator around the wallet's WalletDatabase/DatabaseBatch records every logical write the wallet ISSUES
//      (put / erase / erase-prefix) together with the transaction brackets it used and the simfs I/O index range each committed unit
//      occupied. Replaying that log into a plain std::map is the reference key-value store ("what has been committed so far").
//  (2) simfs records every open/pwrite/fdatasync/ftruncate/unlink SQLite performs; a crash is a cut of that log (process kill, power
//      loss dropping the unsynced tail, power loss keeping an arbitrary SUBSET of the unsynced writes); the image is rebuilt in a
//      scratch directory, opened with the wallet's own SQLiteDatabase (hot-journal rollback, PRAGMA integrity_check), its records are
//      read back and a chain-less CWallet::LoadExisting is run on it.
//  (3) a wallet-level record kept by the harness from the arguments and acknowledgements of the operations (addresses handed out,
//      labels, locked coins, imported descriptors, flags, transactions and their blocks, encryption) plus full observations of the
//      in-memory wallet (descriptors with ranges, private descriptor strings, serialized CWalletTx, address book, locks, flags).
// Oracle: see Engine::rule / assumptions at the end of the file.
#include "../core/sim.h"
#include "../nodesim/chainsim.h"
#include "../nodesim/walletsim.h"
#include "../simfs/simfs.h"

#include <chain.h>
#include <consensus/validation.h>
#include <key_io.h>
#include <outputtype.h>
#include <script/descriptor.h>
#include <script/signingprovider.h>
#include <streams.h>
#include <txmempool.h>
#include <util/result.h>
#include <util/strencodings.h>
#include <util/time.h>
#include <util/translation.h>
#include <validation.h>
#include <wallet/db.h>
#include <wallet/scriptpubkeyman.h>
#include <wallet/transaction.h>
#include <wallet/wallet.h>
#include <wallet/walletdb.h>
#include <wallet/walletutil.h>

#include <algorithm>
#include <filesystem>
#include <map>
#include <set>

#include <fcntl.h>
#include <sys/stat.h>
#include <unistd.h>

using namespace sim;
using namespace nodesim;

namespace {

using Bytes = std::string;

inline std::span<const std::byte> AsSpan(const Bytes& b) { return {reinterpret_cast<const std::byte*>(b.data()), b.size()}; }
inline Bytes ToBytes(std::span<const std::byte> s) { return Bytes(reinterpret_cast<const char*>(s.data()), s.size()); }
inline Bytes ToBytes(const DataStream& s) { return Bytes(reinterpret_cast<const char*>(s.data()), s.size()); }

/** Deserialization target that swallows the whole remaining stream (used to read raw values through DatabaseBatch::Read). */
struct RawAll {
    Bytes v;
    template <typename S>
    void Unserialize(S& s)
    {
        v.resize(s.size());
        if (!v.empty()) s.read(std::as_writable_bytes(std::span<char>{v.data(), v.size()}));
    }
};

/** Record type string at the start of a wallet DB key (compact-size length + characters). */
std::string RecType(const Bytes& key)
{
    if (key.empty()) return "";
    size_t n = (unsigned char)key[0];
    if (n >= 253 || key.size() < 1 + n) return "?";
    return key.substr(1, n);
}
/** The 32 bytes following the type string (descriptor id of walletdescriptor* records), hex; "" if there are none. */
std::string RecDescId(const Bytes& key)
{
    size_t n = (unsigned char)key[0];
    if (key.size() < 1 + n + 32) return "";
    return uint256{std::span<const unsigned char>{reinterpret_cast<const unsigned char*>(key.data()) + 1 + n, 32}}.ToString(); // same notation as uint256::ToString() of the id
}

// =============================================================================================================================
// (1) logical write log + reference key-value store

struct LWrite {
    uint8_t kind; //!< 0 put, 1 erase, 2 erase-prefix
    Bytes key, val;
};
struct Unit {
    std::vector<LWrite> w;
    size_t io0{0}, io1{0}; //!< simfs log indices [io0, io1) the commit of this unit occupied
    bool txn{false};
    int step{-1};
};

struct KvHash {
    uint64_t a{0}, b{0};
    bool operator==(const KvHash& o) const { return a == o.a && b == o.b; }
};
KvHash EntryHash(const Bytes& k, const Bytes& v)
{
    uint64_t h1 = 1469598103934665603ULL, h2 = 0x9ae16a3b2f90404fULL;
    for (unsigned char c : k) { h1 ^= c; h1 *= 1099511628211ULL; h2 = (h2 ^ c) * 0x100000001b3ULL + 0x7f; }
    h1 = mix64(h1, k.size()); h2 = mix64(h2, 0x6b);
    for (unsigned char c : v) { h1 ^= c; h1 *= 1099511628211ULL; h2 = (h2 ^ c) * 0x100000001b3ULL + 0x3d; }
    return {mix64(h1, v.size()), mix64(h2, k.size() * 131 + v.size())};
}

/** Reference store: a std::map with an order-independent content hash maintained incrementally. */
struct RefKv {
    std::map<Bytes, Bytes> m;
    KvHash h;
    void X(const Bytes& k, const Bytes& v) { KvHash e = EntryHash(k, v); h.a ^= e.a; h.b ^= e.b; }
    void Put(const Bytes& k, const Bytes& v)
    {
        auto it = m.find(k);
        if (it != m.end()) { X(k, it->second); it->second = v; }
        else m.emplace(k, v);
        X(k, v);
    }
    void Erase(const Bytes& k)
    {
        auto it = m.find(k);
        if (it == m.end()) return;
        X(k, it->second);
        m.erase(it);
    }
    void ErasePrefix(const Bytes& p)
    {
        for (auto it = m.lower_bound(p); it != m.end() && it->first.compare(0, p.size(), p) == 0;) { X(it->first, it->second); it = m.erase(it); }
    }
    void Apply(const Unit& u)
    {
        for (auto& w : u.w) {
            if (w.kind == 0) Put(w.key, w.val);
            else if (w.kind == 1) Erase(w.key);
            else ErasePrefix(w.key);
        }
    }
};

struct Recorder {
    std::vector<Unit> units;        //!< committed units in commit order
    std::vector<KvHash> prefix_hash; //!< prefix_hash[p] = content hash after the first p units
    RefKv kv;                       //!< content after all committed units
    bool open{false};
    Unit cur;
    int step{-1};
    uint64_t txn_commits{0}, txn_aborts{0}, autocommits{0}, failed_writes{0};
    Recorder() { prefix_hash.push_back(kv.h); }
    void Commit(Unit&& u)
    {
        u.step = step;
        kv.Apply(u);
        units.push_back(std::move(u));
        prefix_hash.push_back(kv.h);
    }
    void Write(LWrite&& w, size_t io0)
    {
        if (open) { cur.w.push_back(std::move(w)); return; }
        Unit u;
        u.io0 = io0;
        u.io1 = simfs::LogSize();
        u.w.push_back(std::move(w));
        ++autocommits;
        Commit(std::move(u));
    }
    void Begin() { open = true; cur = Unit{}; cur.txn = true; cur.io0 = simfs::LogSize(); }
    void End(bool commit)
    {
        if (!open) return;
        open = false;
        if (commit) { cur.io1 = simfs::LogSize(); ++txn_commits; Commit(std::move(cur)); }
        else ++txn_aborts;
        cur = Unit{};
    }
};

class RecBatch final : public wallet::DatabaseBatch
{
    std::unique_ptr<wallet::DatabaseBatch> in;
    Recorder& rec;
    bool txn{false};

    bool ReadKey(DataStream&& key, DataStream& value) override
    {
        RawAll out;
        Bytes k = ToBytes(key);
        if (!in->Read(AsSpan(k), out)) return false;
        value.clear();
        value.write(AsSpan(out.v));
        return true;
    }
    bool WriteKey(DataStream&& key, DataStream&& value, bool overwrite = true) override
    {
        Bytes k = ToBytes(key), v = ToBytes(value);
        size_t io0 = simfs::LogSize();
        bool ok = in->Write(AsSpan(k), AsSpan(v), overwrite);
        if (ok) rec.Write(LWrite{0, std::move(k), std::move(v)}, io0);
        else ++rec.failed_writes;
        return ok;
    }
    bool EraseKey(DataStream&& key) override
    {
        Bytes k = ToBytes(key);
        size_t io0 = simfs::LogSize();
        bool ok = in->Erase(AsSpan(k));
        if (ok) rec.Write(LWrite{1, std::move(k), {}}, io0);
        return ok;
    }
    bool HasKey(DataStream&& key) override
    {
        Bytes k = ToBytes(key);
        return in->Exists(AsSpan(k));
    }

public:
    RecBatch(std::unique_ptr<wallet::DatabaseBatch> b, Recorder& r) : in(std::move(b)), rec(r) {}
    ~RecBatch() override { Close(); }
    void Close() override
    {
        if (!in) return;
        in->Close(); // SQLiteBatch::Close aborts a transaction that was left open
        if (txn) { txn = false; rec.End(false); }
    }
    bool ErasePrefix(std::span<const std::byte> prefix) override
    {
        Bytes p = ToBytes(prefix);
        size_t io0 = simfs::LogSize();
        bool ok = in->ErasePrefix(prefix);
        if (ok) rec.Write(LWrite{2, std::move(p), {}}, io0);
        return ok;
    }
    std::unique_ptr<wallet::DatabaseCursor> GetNewCursor() override { return in->GetNewCursor(); }
    std::unique_ptr<wallet::DatabaseCursor> GetNewPrefixCursor(std::span<const std::byte> prefix) override { return in->GetNewPrefixCursor(prefix); }
    bool TxnBegin() override
    {
        bool ok = in->TxnBegin();
        if (ok) { txn = true; rec.Begin(); }
        return ok;
    }
    bool TxnCommit() override
    {
        bool ok = in->TxnCommit();
        if (ok && txn) { txn = false; rec.End(true); }
        return ok;
    }
    bool TxnAbort() override
    {
        bool ok = in->TxnAbort();
        if (ok && txn) { txn = false; rec.End(false); }
        return ok;
    }
    bool HasActiveTxn() override { return in->HasActiveTxn(); }
};

class RecDb final : public wallet::WalletDatabase
{
    std::unique_ptr<wallet::WalletDatabase> in;
    Recorder& rec;

public:
    RecDb(std::unique_ptr<wallet::WalletDatabase> d, Recorder& r) : in(std::move(d)), rec(r) {}
    void Open() override { in->Open(); }
    bool Rewrite() override { return in->Rewrite(); }
    bool Backup(const std::string& dest) const override { return in->Backup(dest); }
    void Close() override { in->Close(); }
    std::string Filename() override { return in->Filename(); }
    std::vector<fs::path> Files() override { return in->Files(); }
    std::string Format() override { return in->Format(); }
    std::unique_ptr<wallet::DatabaseBatch> MakeBatch() override { return std::make_unique<RecBatch>(in->MakeBatch(), rec); }
    wallet::WalletDatabase& Inner() { return *in; }
};

/** All records of a database, read through the wallet's own cursor. */
bool ReadAll(wallet::WalletDatabase& db, std::map<Bytes, Bytes>& out, KvHash& h)
{
    out.clear();
    h = KvHash{};
    std::unique_ptr<wallet::DatabaseBatch> b = db.MakeBatch();
    std::unique_ptr<wallet::DatabaseCursor> c = b->GetNewCursor();
    if (!c) return false;
    DataStream k, v;
    for (;;) {
        auto st = c->Next(k, v);
        if (st == wallet::DatabaseCursor::Status::DONE) break;
        if (st == wallet::DatabaseCursor::Status::FAIL) return false;
        Bytes kb = ToBytes(k), vb = ToBytes(v);
        KvHash e = EntryHash(kb, vb);
        h.a ^= e.a;
        h.b ^= e.b;
        out.emplace(std::move(kb), std::move(vb));
    }
    return true;
}

// =============================================================================================================================
// (2) crash images from the simfs log (own materializer: check-pointed, and with a "subset of unsynced writes survives" mode)

struct FsImage {
    std::map<uint32_t, Bytes> inodes;
    std::map<std::string, uint32_t> names;
    void Apply(const simfs::LogOp& op)
    {
        using simfs::OpKind;
        switch (op.kind) {
        case OpKind::CREATE: names[op.path] = op.ino; inodes[op.ino]; break;
        case OpKind::WRITE: {
            Bytes& d = inodes[op.ino];
            if (d.size() < op.off + op.len) d.resize(op.off + op.len, 0);
            memcpy(d.data() + op.off, op.data.data(), op.len);
            break;
        }
        case OpKind::TRUNC: inodes[op.ino].resize(op.off, 0); break;
        case OpKind::FALLOC: {
            Bytes& d = inodes[op.ino];
            if (d.size() < op.off + op.len) d.resize(op.off + op.len, 0);
            break;
        }
        case OpKind::RENAME: {
            auto it = names.find(op.path);
            if (it != names.end() && op.path != op.path2) { uint32_t ino = it->second; names.erase(it); names[op.path2] = ino; }
            break;
        }
        case OpKind::UNLINK: names.erase(op.path); break;
        default: break;
        }
    }
};

enum CrashMode { CM_KILL = 0, CM_POWER_TAIL = 1, CM_POWER_SUBSET = 2 };

struct CrashImageInfo { size_t dropped{0}, kept_unsynced{0}; };

std::string ParentDir(const std::string& rel)
{
    auto p = rel.rfind('/');
    return p == std::string::npos ? std::string() : rel.substr(0, p);
}

/** Apply log ops [from, k) to `img` under the given crash semantics: ops before j are durable; an op in [j,k) that was made durable
 *  by a later sync (< k) survives; any other op in [j,k) is dropped (CM_POWER_TAIL) or survives with probability 1/2 (CM_POWER_SUBSET). */
void ApplyCrashWindow(FsImage& img, size_t from, size_t k, CrashMode mode, size_t j, uint64_t seed, CrashImageInfo& info)
{
    using simfs::OpKind;
    const auto& log = simfs::Log();
    if (mode == CM_KILL) j = k;
    j = std::min(j, k);
    std::vector<char> survive(k > j ? k - j : 0, 1);
    if (k > j) {
        std::set<uint32_t> synced;
        std::set<std::string> dirsynced;
        Rng r(mix64(seed, 0x73756273));
        for (size_t i = k; i-- > j;) {
            const simfs::LogOp& op = log[i];
            bool s = true;
            switch (op.kind) {
            case OpKind::SYNC: synced.insert(op.ino); break;
            case OpKind::SYNCDIR: dirsynced.insert(op.path); break;
            case OpKind::WRITE: case OpKind::TRUNC: case OpKind::FALLOC: s = synced.count(op.ino) > 0; break;
            case OpKind::CREATE: s = synced.count(op.ino) > 0 || dirsynced.count(ParentDir(op.path)) > 0; break;
            case OpKind::RENAME: s = dirsynced.count(ParentDir(op.path2)) > 0; break;
            case OpKind::UNLINK: case OpKind::MKDIR: case OpKind::RMDIR: s = dirsynced.count(ParentDir(op.path)) > 0; break;
            }
            if (!s && mode == CM_POWER_SUBSET && r.coin()) { s = true; ++info.kept_unsynced; }
            if (!s) ++info.dropped;
            survive[i - j] = s;
        }
    }
    for (size_t i = from; i < k; ++i)
        if (i < j || survive[i - j]) img.Apply(log[i]);
}

bool WriteImage(const FsImage& img, const std::string& dest_root)
{
    auto mkdirs = [](const std::string& full) {
        for (size_t p = 1; p <= full.size(); ++p)
            if (p == full.size() || full[p] == '/') ::mkdir(full.substr(0, p).c_str(), 0700);
    };
    mkdirs(dest_root);
    bool ok = true;
    for (auto& [name, ino] : img.names) {
        std::string full = dest_root + "/" + name;
        mkdirs(ParentDir(full));
        int fd = ::open(full.c_str(), O_WRONLY | O_CREAT | O_TRUNC, 0600);
        if (fd < 0) { ok = false; continue; }
        auto it = img.inodes.find(ino);
        if (it != img.inodes.end()) {
            const Bytes& d = it->second;
            size_t off = 0;
            while (off < d.size()) {
                ssize_t n = ::write(fd, d.data() + off, d.size() - off);
                if (n <= 0) { ok = false; break; }
                off += (size_t)n;
            }
        }
        ::close(fd);
    }
    return ok;
}

// =============================================================================================================================
// plan

enum OpKind { O_SETUP = 0, O_NEWADDR, O_RECEIVE, O_MINE, O_SEND, O_LABEL, O_DELADDR, O_LOCK, O_UNLOCK, O_IMPORT, O_FLAG, O_REMOVETX, O_TOPUP, O_RECVREQ, O_ENCRYPT, O_RESTART, O_CRASH, O_NOPS };

const char* kLabels[] = {"", "savings", "rent", "a label with spaces", "\xc3\xa9t\xc3\xa9", "x"};
constexpr int kNLabels = 6;
const char* kModeName[] = {"process kill", "power loss (unsynced tail dropped)", "power loss (arbitrary subset of unsynced writes kept)"};

std::string Describe(const Op& op)
{
    char b[320];
    static const char* types[] = {"legacy", "p2sh-segwit", "bech32", "bech32m"};
    switch (op.kind) {
    case O_SETUP: snprintf(b, sizeof b, "setup descriptors (HD seed %ld): 8 descriptor ScriptPubKeyMans in one DB transaction", (long)op.arg(0)); break;
    case O_NEWADDR: snprintf(b, sizeof b, "getnewaddress(type=%s, label='%s')  [explicit keypool top-up of that descriptor first]", types[op.mod(0, 4)], kLabels[op.mod(1, kNLabels)]); break;
    case O_RECEIVE: snprintf(b, sizeof b, "receive(outputs=%ld, seed=%ld, target=%s, lookahead_skip=%ld)  external tx paying the wallet enters the mempool", (long)op.arg(0), (long)op.arg(1), op.mod(2, 3) == 0 ? "handed-out address" : op.mod(2, 3) == 1 ? "keypool look-ahead script" : "imported descriptor script", (long)op.arg(3)); break;
    case O_MINE: snprintf(b, sizeof b, "mine(blocks=%ld, seed=%ld, include_sel=%ld)", (long)op.arg(0), (long)op.arg(1), (long)op.arg(2)); break;
    case O_SEND: snprintf(b, sizeof b, "wallet_send(recipients=%ld, seed=%ld, flags=%ld, change_type=%ld)", (long)op.arg(0), (long)op.arg(1), (long)op.arg(2), (long)op.arg(3)); break;
    case O_LABEL: snprintf(b, sizeof b, "setlabel(%s address #%ld, '%s')", op.mod(0, 2) ? "external" : "own", (long)op.arg(1), kLabels[op.mod(2, kNLabels)]); break;
    case O_DELADDR: snprintf(b, sizeof b, "delete address-book entry #%ld%s", (long)op.arg(0), op.mod(1, 2) ? " (an own address: must be refused)" : ""); break;
    case O_LOCK: snprintf(b, sizeof b, "lockunspent(lock, coin #%ld, persistent=%ld%s)", (long)op.arg(0), (long)op.mod(1, 2), op.mod(2, 4) == 0 ? ", an outpoint the wallet does not know" : ""); break;
    case O_UNLOCK: snprintf(b, sizeof b, "lockunspent(unlock, locked coin #%ld)", (long)op.arg(0)); break;
    case O_IMPORT: {
        static const char* k[] = {"wpkh(x/0/*)", "pkh(x/1/*)", "tr(x/2/*)", "wpkh(single key)", "wpkh(x/3h/*h)"};
        snprintf(b, sizeof b, "importdescriptors(%s, key #%ld, %s, range_end=%ld, next_index=%ld, active=%ld, internal=%ld, label='%s')", k[op.mod(0, 5)], (long)op.mod(1, 4), op.mod(2, 2) ? "private" : "public",
                 (long)op.arg(3), (long)op.arg(4), (long)op.mod(5, 2), (long)op.mod(6, 2), kLabels[op.mod(7, kNLabels)]);
        break;
    }
    case O_FLAG: snprintf(b, sizeof b, "setwalletflag(avoid_reuse, %s)", op.mod(0, 2) ? "true" : "false"); break;
    case O_REMOVETX: snprintf(b, sizeof b, "remove %ld confirmed wallet transaction(s) starting at #%ld%s", (long)op.arg(1), (long)op.arg(0), op.mod(2, 2) ? " plus one unknown txid (the whole removal must be rolled back)" : ""); break;
    case O_TOPUP: snprintf(b, sizeof b, "keypoolrefill(keypool+%ld): one DB transaction per active descriptor", (long)op.arg(0)); break;
    case O_RECVREQ: snprintf(b, sizeof b, "receive request #%ld on own address #%ld %s", (long)op.mod(1, 3), (long)op.arg(0), op.mod(2, 3) ? "set" : "erased"); break;
    case O_ENCRYPT: snprintf(b, sizeof b, "encryptwallet (from here on key material is not reproducible: new random HD seed)"); break;
    case O_RESTART: snprintf(b, sizeof b, "clean restart: unloadwallet + loadwallet"); break;
    case O_CRASH: snprintf(b, sizeof b, "FAULT crash during the previous operation: %s at I/O position sel=%ld (boundary_sel=%ld, durable-prefix sel=%ld, seed=%ld)%s", kModeName[op.mod(0, 3)], (long)op.arg(1), (long)op.arg(5), (long)op.arg(2), (long)op.arg(3),
                           op.mod(4, 4) ? ", then load the wallet from the image" : "");
        break;
    default: snprintf(b, sizeof b, "?");
    }
    return b;
}

Plan Gen(uint64_t seed, Tier tier)
{
    Rng rng(seed);
    Plan p;
    p.knobs["base"] = rng.range(102, 108);
    p.knobs["keypool"] = rng.range(2, 6);
    p.knobs["naddr"] = rng.range(2, 5);
    const bool enumerate = tier == Tier::THOROUGH && rng.chance(1, 5);
    p.knobs["enumerate"] = enumerate;
    p.knobs["lock_upgrade"] = rng.chance(1, 2); // allow lockunspent(persistent) on a coin that is already locked non-persistently
    p.knobs["import_flip"] = rng.chance(1, 2);  // allow importing the active change descriptor again as the active receiving descriptor
    const bool encrypt = rng.chance(3, 10);
    std::vector<uint32_t> w(O_NOPS, 0);
    w[O_NEWADDR] = 12; w[O_RECEIVE] = 12; w[O_MINE] = 9; w[O_SEND] = 10; w[O_LABEL] = 8; w[O_DELADDR] = 4; w[O_LOCK] = 7; w[O_UNLOCK] = 4; w[O_IMPORT] = 7; w[O_FLAG] = 3;
    w[O_REMOVETX] = 5; w[O_TOPUP] = 4; w[O_RECVREQ] = 3; w[O_RESTART] = 4; w[O_SETUP] = 1;
    if (rng.chance(1, 4)) w[O_IMPORT] = 14;
    if (rng.chance(1, 4)) w[O_REMOVETX] = 10;
    if (rng.chance(1, 4)) { w[O_LOCK] = 12; w[O_UNLOCK] = 8; }
    if (rng.chance(1, 5)) w[O_RESTART] = 10;
    if (rng.chance(1, 6)) w[O_FLAG] = 8;
    int nops = enumerate ? (int)rng.range(10, 24) : (int)rng.range(30, tier == Tier::THOROUGH ? 120 : 70);
    const int crash_pct = enumerate ? 0 : (int)rng.range(40, 85);
    const int encrypt_at = encrypt ? nops - (int)rng.range(2, std::max(3, nops / 4)) : -1;
    auto R64 = [&] { return (int64_t)(rng.next() >> 16); };
    auto crashes = [&](int n) {
        for (int c = 0; c < n; ++c) p.ops.push_back(Op(O_CRASH, {(int64_t)rng.pick({4, 3, 5}), R64(), R64(), R64(), (int64_t)rng.below(4), (int64_t)rng.below(3)}));
    };
    p.ops.push_back(Op(O_SETUP, {R64()}));
    if (!enumerate) crashes((int)rng.range(1, 3));
    // scenario seeds: short scripted sequences of ordinary operations (plain ops: shrinking and replay treat them like any other)
    const int flip_at = p.knobs["import_flip"] && rng.chance(1, 2) ? (int)rng.below(nops) : -1;
    const int relock_at = p.knobs["lock_upgrade"] && rng.chance(1, 2) ? (int)rng.below(nops) : -1;
    const int hardened_at = rng.chance(1, 3) ? (int)rng.below(std::max(1, encrypt_at >= 0 ? encrypt_at : nops)) : -1;
    for (int i = 0; i < nops; ++i) {
        if (i == flip_at) {
            // the active change descriptor of a type is imported again as the active receiving descriptor
            int64_t kind = (int64_t)rng.below(3), key = (int64_t)rng.below(4), re = (int64_t)rng.range(2, 8);
            p.ops.push_back(Op(O_IMPORT, {kind, key, 0, re, 0, 1, 1, 0}));
            p.ops.push_back(Op(O_IMPORT, {kind, key, 0, re, 0, 1, 0, 0}));
        }
        if (i == hardened_at) {
            // a descriptor with a hardened range becomes the active receiving descriptor: its top-ups write one cache record per index
            p.ops.push_back(Op(O_IMPORT, {4, (int64_t)rng.below(4), 1, (int64_t)rng.range(2, 6), 0, 1, 0, 0}));
            p.ops.push_back(Op(O_TOPUP, {(int64_t)rng.range(2, 4)}));
            if (!enumerate) crashes((int)rng.range(2, 4));
            p.ops.push_back(Op(O_NEWADDR, {2, (int64_t)rng.below(kNLabels)}));
            if (!enumerate) crashes((int)rng.range(1, 3));
        }
        if (i == relock_at) {
            // a coin locked in memory only is locked again persistently, then unlocked
            int64_t coin = (int64_t)rng.below(16);
            p.ops.push_back(Op(O_LOCK, {coin, 0, 1}));
            p.ops.push_back(Op(O_LOCK, {coin, 1, 1}));
            if (rng.coin()) p.ops.push_back(Op(O_UNLOCK, {(int64_t)rng.below(2)}));
        }
        Op op;
        op.kind = i == encrypt_at ? O_ENCRYPT : (int)rng.pick(w);
        switch (op.kind) {
        case O_SETUP: op.a = {R64()}; break;
        case O_NEWADDR: op.a = {(int64_t)rng.below(4), (int64_t)rng.below(kNLabels)}; break;
        case O_RECEIVE: op.a = {(int64_t)rng.range(1, 2), R64(), (int64_t)rng.pick({5, 3, 2}), (int64_t)rng.below(3)}; break;
        case O_MINE: op.a = {(int64_t)rng.pick({0, 4, 1}), R64(), (int64_t)rng.below(4)}; break;
        case O_SEND: op.a = {(int64_t)rng.range(1, 2), R64(), (int64_t)rng.below(4), (int64_t)rng.below(5)}; break;
        case O_LABEL: op.a = {(int64_t)rng.below(2), (int64_t)rng.below(16), (int64_t)rng.below(kNLabels)}; break;
        case O_DELADDR: op.a = {(int64_t)rng.below(8), (int64_t)(rng.chance(1, 5) ? 1 : 0)}; break;
        case O_LOCK: op.a = {(int64_t)rng.below(16), (int64_t)rng.pick({2, 5}), (int64_t)rng.below(4)}; break;
        case O_UNLOCK: op.a = {(int64_t)rng.below(8)}; break;
        case O_IMPORT: op.a = {(int64_t)rng.pick({2, 2, 2, 2, 3}), (int64_t)rng.below(4), (int64_t)rng.below(2), (int64_t)rng.range(1, 12), (int64_t)rng.pick({3, 1, 1}), (int64_t)rng.below(2), (int64_t)rng.below(2), (int64_t)rng.below(kNLabels)}; break;
        case O_FLAG: op.a = {(int64_t)rng.pick({1, 2})}; break;
        case O_REMOVETX: op.a = {(int64_t)rng.below(16), (int64_t)rng.range(1, 2), (int64_t)(rng.chance(1, 3) ? 1 : 0), (int64_t)rng.below(3)}; break;
        case O_TOPUP: op.a = {(int64_t)rng.range(1, 4)}; break;
        case O_RECVREQ: op.a = {(int64_t)rng.below(8), (int64_t)rng.below(3), (int64_t)rng.below(3)}; break;
        default: break;
        }
        p.ops.push_back(op);
        if (!enumerate && (int)rng.below(100) < crash_pct) crashes(1 + (int)rng.pick({5, 4, 2, 1}));
    }
    return p;
}

// =============================================================================================================================
// (3) observation of a wallet and the harness's own record

struct DescObs {
    std::string pub;        //!< descriptor string as stored
    std::string priv;       //!< private descriptor string ("" if not available: watch-only, or encrypted and locked)
    int32_t rs{0}, re{0}, ni{0};
    uint64_t ctime{0};
    bool has_priv{false}, crypted{false};
    bool operator==(const DescObs& o) const { return pub == o.pub && priv == o.priv && rs == o.rs && re == o.re && ni == o.ni && ctime == o.ctime && has_priv == o.has_priv && crypted == o.crypted; }
};
struct BookObs {
    bool has_label{false};
    std::string label;
    int purpose{-1};
    bool used{false};
    std::map<std::string, std::string> rr;
    bool operator==(const BookObs& o) const { return has_label == o.has_label && label == o.label && purpose == o.purpose && used == o.used && rr == o.rr; }
};
struct Obs {
    uint64_t flags{0};
    std::map<std::string, DescObs> descs;        //!< descriptor id (hex) -> state
    std::map<std::string, std::string> active;   //!< "ext:<type>" / "int:<type>" -> descriptor id
    std::map<std::string, BookObs> book;         //!< encoded destination -> entry
    std::set<std::string> locked;                //!< persistently locked outpoints
    std::set<std::string> locked_volatile;       //!< memory-only locks (legitimately lost by a restart)
    std::map<std::string, std::string> txs;      //!< txid -> hex of what the wallet would record for it (CWalletTx serialization + witness variants)
    int64_t order_pos_next{0};
    size_t master_keys{0};
    bool locked_wallet{false};
};

std::string OutpointStr(const COutPoint& o) { return o.hash.ToString() + ":" + std::to_string(o.n); }

Obs Observe(wallet::CWallet& w)
{
    Obs o;
    LOCK(w.cs_wallet);
    o.flags = w.GetWalletFlags();
    o.master_keys = w.mapMasterKeys.size();
    o.locked_wallet = w.IsLocked();
    for (wallet::ScriptPubKeyMan* m : w.GetAllScriptPubKeyMans()) {
        auto* d = dynamic_cast<wallet::DescriptorScriptPubKeyMan*>(m);
        if (!d) continue;
        LOCK(d->cs_desc_man);
        wallet::WalletDescriptor wd = d->GetWalletDescriptor();
        DescObs x;
        x.pub = wd.descriptor->ToString();
        x.rs = wd.range_start; x.re = wd.range_end; x.ni = wd.next_index; x.ctime = wd.creation_time;
        x.has_priv = d->HavePrivateKeys();
        x.crypted = d->HaveCryptedKeys();
        std::string s;
        if (x.has_priv && !o.locked_wallet && d->GetDescriptorString(s, /*priv=*/true)) x.priv = s;
        o.descs[wd.id.ToString()] = x;
    }
    for (bool internal : {false, true})
        for (OutputType t : OUTPUT_TYPES) {
            wallet::ScriptPubKeyMan* m = w.GetScriptPubKeyMan(t, internal);
            if (m) o.active[std::string(internal ? "int:" : "ext:") + FormatOutputType(t)] = m->GetID().ToString();
        }
    for (auto& [dest, data] : w.m_address_book) {
        BookObs b;
        b.has_label = data.label.has_value();
        b.label = data.GetLabel();
        b.purpose = data.purpose ? (int)*data.purpose : -1;
        b.used = data.previously_spent;
        b.rr = data.receive_requests;
        o.book[EncodeDestination(dest)] = b;
    }
    for (auto& [op, persistent] : w.m_locked_coins) (persistent ? o.locked : o.locked_volatile).insert(OutpointStr(op));
    for (auto& [id, wtx] : w.mapWallet) {
        DataStream s;
        s << wtx;
        std::string h = HexStr(s);
        for (auto& [wtxid, tx] : wtx.GetTxs()) h += "|" + wtxid.ToString();
        o.txs[id.ToString()] = h;
    }
    o.order_pos_next = w.nOrderPosNext;
    return o;
}

/** What the harness itself recorded from operation arguments and acknowledgements. */
struct MDesc {
    std::string pub;
    int32_t rs{0}, re{0}; //!< re: lower bound of range_end
    int32_t ni{0};        //!< exact for descriptors whose next_index only the harness moves (ni_exact), else a lower bound
    bool ni_exact{true};
    bool has_priv{false};
};
struct MBook { std::string label; int purpose{-1}; std::map<std::string, std::string> rr; };
struct MTx { int block{-1}; int pos{-1}; }; //!< block: RefChain index of the confirming block, -1 = unconfirmed
struct Model {
    bool avoid_reuse{false};
    bool encrypted{false};
    std::map<std::string, MDesc> descs;
    std::map<std::string, std::string> active;
    std::map<std::string, MBook> book;
    std::set<std::string> locked;            //!< persistent locks
    std::set<std::string> locked_volatile;
    std::set<std::string> lock_upgraded;     //!< currently locked; locked non-persistently first, persistently afterwards (see the class restart-unlocked-coin-locked-again)
    std::set<std::string> lock_upgraded_ever; //!< ... at any time in the history
    std::set<std::string> flipped;           //!< descriptors that were the active CHANGE descriptor of a type and were then imported again as the active RECEIVING one
    std::map<std::string, MTx> txs;
};

/** `before` was observed on a live wallet, `after` on the wallet reloaded from what `before` had stored. Returns "" or "<component>\n<detail>". */
std::string DiffObs(const Obs& before, const Obs& after, int keypool, bool compare_priv)
{
    auto fmt = [](const char* f, auto... a) { char b[900]; snprintf(b, sizeof b, f, a...); return std::string(b); };
    if (before.flags != after.flags) return fmt("flags\nflags %lx before, %lx after", (unsigned long)before.flags, (unsigned long)after.flags);
    if (before.master_keys != after.master_keys) return fmt("keys\n%zu master keys before, %zu after", before.master_keys, after.master_keys);
    for (auto& [id, b] : before.descs) {
        auto it = after.descs.find(id);
        if (it == after.descs.end()) return fmt("descriptors\ndescriptor %s (%s) is gone after the reload", id.substr(0, 10).c_str(), b.pub.substr(0, 40).c_str());
        const DescObs& a = it->second;
        bool is_active = false;
        for (auto& [slot, aid] : after.active) is_active |= aid == id;
        // the loader tops up the keypool of ACTIVE descriptors: range_end may grow to next_index + keypool, nothing else may change
        // (an inactive one is topped up too when a mempool transaction that pays it is shown to the wallet again during the load)
        const bool ranged = a.pub.find('*') != std::string::npos;
        int32_t want_re = b.re;
        if (is_active && ranged) want_re = std::max(b.re, b.ni + keypool);
        const bool re_ok = a.re == want_re || (ranged && a.re == std::max(b.re, b.ni + keypool));
        if (a.pub != b.pub || a.rs != b.rs || a.ni != b.ni || a.ctime != b.ctime || !re_ok)
            return fmt("descriptors\ndescriptor %s: before [%d,%d) next=%d t=%lu, after [%d,%d) next=%d t=%lu (expected range end %d)%s", id.substr(0, 10).c_str(), b.rs, b.re, b.ni, (unsigned long)b.ctime, a.rs, a.re, a.ni, (unsigned long)a.ctime, want_re,
                       a.pub != b.pub ? ", descriptor string differs" : "");
        if (a.has_priv != b.has_priv || a.crypted != b.crypted) return fmt("keys\ndescriptor %s: private keys %d/encrypted %d before, %d/%d after", id.substr(0, 10).c_str(), b.has_priv, b.crypted, a.has_priv, a.crypted);
        if (compare_priv && !b.priv.empty() && !a.priv.empty() && a.priv != b.priv) return fmt("keys\ndescriptor %s: private descriptor string differs after the reload", id.substr(0, 10).c_str());
        if (compare_priv && !b.priv.empty() && a.priv.empty() && !after.locked_wallet) return fmt("keys\ndescriptor %s: private keys cannot be exported after the reload", id.substr(0, 10).c_str());
    }
    for (auto& [id, a] : after.descs)
        if (!before.descs.count(id)) return fmt("descriptors\ndescriptor %s (%s) appeared with the reload", id.substr(0, 10).c_str(), a.pub.substr(0, 40).c_str());
    if (before.active != after.active) {
        for (auto& [slot, id] : before.active)
            if (!after.active.count(slot) || after.active.at(slot) != id) return fmt("descriptors\nactive descriptor of %s was %s, is %s after the reload", slot.c_str(), id.substr(0, 10).c_str(), after.active.count(slot) ? after.active.at(slot).substr(0, 10).c_str() : "none");
        return std::string("descriptors\nan active descriptor slot appeared with the reload");
    }
    for (auto& [addr, b] : before.book) {
        auto it = after.book.find(addr);
        if (it == after.book.end()) return fmt("address-book\nentry %s (label '%s') is gone after the reload", addr.c_str(), b.label.c_str());
        if (!(it->second == b)) return fmt("address-book\nentry %s: label %d'%s' purpose %d used %d requests %zu before; %d'%s' %d %d %zu after", addr.c_str(), b.has_label, b.label.c_str(), b.purpose, b.used, b.rr.size(), it->second.has_label, it->second.label.c_str(),
                                            it->second.purpose, it->second.used, it->second.rr.size());
    }
    for (auto& [addr, a] : after.book)
        if (!before.book.count(addr)) return fmt("address-book\nentry %s (label '%s') appeared with the reload", addr.c_str(), a.label.c_str());
    for (auto& c : before.locked)
        if (!after.locked.count(c)) return fmt("locked-coins\npersistently locked coin %s is not locked after the reload", c.substr(0, 14).c_str());
    for (auto& c : after.locked)
        if (!before.locked.count(c)) return fmt("locked-coins\ncoin %s is %s before the restart and persistently locked after it", c.substr(0, 14).c_str(), before.locked_volatile.count(c) ? "locked in memory only" : "NOT locked");
    for (auto& [id, b] : before.txs) {
        auto it = after.txs.find(id);
        if (it == after.txs.end()) return fmt("transactions\ntransaction %s is gone after the reload", id.substr(0, 10).c_str());
        if (it->second != b) return fmt("transactions\nthe record of transaction %s differs after the reload", id.substr(0, 10).c_str());
    }
    for (auto& [id, a] : after.txs)
        if (!before.txs.count(id)) return fmt("transactions\ntransaction %s appeared with the reload", id.substr(0, 10).c_str());
    if (before.order_pos_next != after.order_pos_next) return fmt("transactions\nnext transaction order position %ld before, %ld after", (long)before.order_pos_next, (long)after.order_pos_next);
    return "";
}

/** Wall-clock accounting for tuning (VERIF_TIMING=1); never feeds back into the simulation. */
struct Timers {
    std::map<std::string, double> t;
    bool on{getenv("VERIF_TIMING") != nullptr};
    void Dump()
    {
        if (!on) return;
        for (auto& [k, v] : t) fprintf(stderr, "timing %-40s %8.1f ms\n", k.c_str(), v);
    }
} g_timers;
struct Timed {
    std::string name;
    std::chrono::steady_clock::time_point t0;
    explicit Timed(std::string n) : name(std::move(n)), t0(std::chrono::steady_clock::now()) {}
    ~Timed() { if (g_timers.on) g_timers.t[name] += std::chrono::duration<double, std::milli>(std::chrono::steady_clock::now() - t0).count(); }
};

std::string Hx(const uint256& h) { return h.ToString().substr(0, 10); }
std::string Hx(const Txid& h) { return h.ToString().substr(0, 10); }

/** State of a wallet transaction as the wallet records it: "conf:<block>:<pos>", "conflicted:<block>", "abandoned", "unconfirmed". */
std::string TxStateOf(const wallet::CWalletTx& wtx)
{
    if (auto* c = wtx.state<wallet::TxStateConfirmed>()) return "conf:" + c->confirmed_block_hash.ToString() + ":" + std::to_string(c->position_in_block);
    if (auto* b = wtx.state<wallet::TxStateBlockConflicted>()) return "conflicted:" + b->conflicting_block_hash.ToString();
    if (auto* i = wtx.state<wallet::TxStateInactive>()) return i->abandoned ? "abandoned" : "unconfirmed";
    return "unconfirmed";
}
std::map<std::string, std::string> TxStates(wallet::CWallet& w)
{
    std::map<std::string, std::string> out;
    LOCK(w.cs_wallet);
    for (auto& [id, wtx] : w.mapWallet) out[id.ToString()] = TxStateOf(wtx);
    return out;
}

/** Harness record vs an observed wallet. `live`: the wallet is the running one (memory-only locks are compared too). */
std::string DiffModel(const Model& m, const Obs& o, const std::map<std::string, std::string>& tx_states, const RefChain& ref, bool live)
{
    auto fmt = [](const char* f, auto... a) { char b[900]; snprintf(b, sizeof b, f, a...); return std::string(b); };
    const bool ar = (o.flags & wallet::WALLET_FLAG_AVOID_REUSE) != 0;
    if (ar != m.avoid_reuse) return fmt("flags\navoid_reuse is %d, the last acknowledged setwalletflag said %d", ar, m.avoid_reuse);
    if (!(o.flags & wallet::WALLET_FLAG_DESCRIPTORS)) return std::string("flags\nthe descriptors flag is not set");
    if ((o.master_keys > 0) != m.encrypted) return fmt("keys\nwallet has %zu master keys, record says encrypted=%d", o.master_keys, m.encrypted);
    for (auto& [id, d] : m.descs) {
        auto it = o.descs.find(id);
        if (it == o.descs.end()) return fmt("descriptors\ndescriptor %s (%s) of the record is not in the wallet", id.substr(0, 10).c_str(), d.pub.substr(0, 40).c_str());
        const DescObs& a = it->second;
        if (a.pub != d.pub) return fmt("descriptors\ndescriptor %s: string differs from the record", id.substr(0, 10).c_str());
        if (a.rs != d.rs || a.re < d.re) return fmt("descriptors\ndescriptor %s: range [%d,%d), record says [%d,>=%d)", id.substr(0, 10).c_str(), a.rs, a.re, d.rs, d.re);
        if (d.ni_exact ? a.ni != d.ni : a.ni < d.ni) return fmt("descriptors\ndescriptor %s: next index %d, record says %s%d (an address that was handed out could be handed out again)", id.substr(0, 10).c_str(), a.ni, d.ni_exact ? "" : ">=", d.ni);
        if (a.ni > a.re) return fmt("descriptors\ndescriptor %s: next index %d beyond range end %d", id.substr(0, 10).c_str(), a.ni, a.re);
        if (a.has_priv != d.has_priv) return fmt("keys\ndescriptor %s: has private keys %d, record says %d", id.substr(0, 10).c_str(), a.has_priv, d.has_priv);
        if (d.has_priv && a.crypted != m.encrypted) return fmt("keys\ndescriptor %s: keys encrypted %d, wallet encrypted %d", id.substr(0, 10).c_str(), a.crypted, m.encrypted);
    }
    for (auto& [id, a] : o.descs)
        if (!m.descs.count(id)) return fmt("descriptors\nwallet has descriptor %s (%s) which the record does not", id.substr(0, 10).c_str(), a.pub.substr(0, 40).c_str());
    if (m.active != o.active) {
        for (auto& [slot, id] : m.active)
            if (!o.active.count(slot) || o.active.at(slot) != id) return fmt("descriptors\nactive descriptor of %s is %s, record says %s", slot.c_str(), o.active.count(slot) ? o.active.at(slot).substr(0, 10).c_str() : "none", id.substr(0, 10).c_str());
        return std::string("descriptors\nthe wallet has an active descriptor slot the record does not");
    }
    for (auto& [addr, b] : m.book) {
        auto it = o.book.find(addr);
        if (it == o.book.end()) return fmt("address-book\nentry %s (label '%s') of the record is not in the wallet", addr.c_str(), b.label.c_str());
        const BookObs& a = it->second;
        if (!a.has_label || a.label != b.label || a.purpose != b.purpose || a.rr != b.rr)
            return fmt("address-book\nentry %s: label %d'%s' purpose %d requests %zu, record says '%s' %d %zu", addr.c_str(), a.has_label, a.label.c_str(), a.purpose, a.rr.size(), b.label.c_str(), b.purpose, b.rr.size());
    }
    for (auto& [addr, a] : o.book)
        if (!m.book.count(addr) && a.has_label) return fmt("address-book\nwallet has entry %s (label '%s') which the record does not", addr.c_str(), a.label.c_str());
    for (auto& c : m.locked)
        if (!o.locked.count(c) && !(live && m.lock_upgraded.count(c))) return fmt("locked-coins\ncoin %s is persistently locked per the record, not in the wallet", c.substr(0, 14).c_str());
    for (auto& c : o.locked)
        if (!m.locked.count(c)) return fmt("locked-coins\ncoin %s is persistently locked in the wallet, not per the record", c.substr(0, 14).c_str());
    if (live) {
        for (auto& c : m.locked_volatile)
            if (!o.locked_volatile.count(c)) return fmt("locked-coins\ncoin %s is locked (memory only) per the record, not in the wallet", c.substr(0, 14).c_str());
        for (auto& c : o.locked_volatile)
            if (!m.locked_volatile.count(c) && !m.lock_upgraded.count(c)) return fmt("locked-coins\ncoin %s is locked (memory only) in the wallet, not per the record", c.substr(0, 14).c_str());
    }
    for (auto& [id, t] : m.txs) {
        auto it = tx_states.find(id);
        if (it == tx_states.end()) return fmt("transactions\ntransaction %s of the record is not in the wallet", id.substr(0, 10).c_str());
        std::string want = t.block < 0 ? "unconfirmed" : "conf:" + ref.blocks[t.block].hash.ToString() + ":" + std::to_string(t.pos);
        if (it->second != want) return fmt("transactions\ntransaction %s is '%s', record says '%s'", id.substr(0, 10).c_str(), it->second.substr(0, 30).c_str(), want.substr(0, 30).c_str());
    }
    for (auto& [id, s] : tx_states)
        if (!m.txs.count(id)) return fmt("transactions\nwallet has transaction %s (%s) which the record does not", id.substr(0, 10).c_str(), s.substr(0, 30).c_str());
    return "";
}

uint64_t ModelFingerprint(const Model& m)
{
    uint64_t h = mix64(m.avoid_reuse * 2 + m.encrypted, m.descs.size());
    for (auto& [id, d] : m.descs) h = mix64(h, (uint64_t)d.ni * 131 + d.re * 7 + d.has_priv);
    h = mix64(h, m.active.size() * 1000003 + m.book.size() * 101 + m.locked.size() * 7 + m.locked_volatile.size());
    int conf = 0;
    for (auto& [id, t] : m.txs) conf += t.block >= 0;
    return mix64(h, m.txs.size() * 257 + conf);
}

// =============================================================================================================================
// the simulation

struct Step {
    int op{-1};             //!< index into plan.ops
    std::string name;
    size_t io0{0}, io1{0};  //!< simfs log range of the step
    size_t u0{0}, u1{0};    //!< committed units [u0,u1) issued during the step
    bool nondet{false};     //!< key material of this step is not reproducible (encryption and later)
};
struct AtomicGroup { size_t a, b; int step; std::string what; }; //!< units [a,b] must be applied all or none

struct PersistSim {
    Ctx& ctx;
    Recorder rec; //!< declared before the node and the wallet: they write to it while they are torn down
    ChainSim cs;
    std::unique_ptr<WalletNode> wn;
    std::shared_ptr<wallet::CWallet> w;
    const std::string wname{"w0"};
    std::string live_root;
    Model model;
    int keypool{4};
    bool nondet{false};
    const SecureString pass{"correct horse"};

    std::vector<Step> steps;
    std::vector<Obs> obs_after_step;            //!< observation of the live wallet after each step
    std::vector<std::map<std::string, std::string>> txstates_after_step;
    std::vector<Model> model_after_step;
    std::vector<AtomicGroup> groups;
    std::vector<std::pair<int, int>> op_steps;  //!< per executed workload op: plan index, first step; (end = next entry / steps.size())
    size_t k0{0};
    int cur_op{-1};

    struct Addr { CTxDestination dest; CScript spk; std::string str; bool payable; };
    std::vector<Addr> addrs;                    //!< addresses the wallet handed out
    std::vector<Addr> ext;                      //!< addresses of strangers (labels with purpose "send")
    std::vector<std::pair<CScript, std::string>> imported_spks; //!< (script, descriptor id) of imported non-ranged descriptors that may be paid
    int64_t start_time{0};
    int images{0}, loads{0};

    explicit PersistSim(Ctx& c) : ctx(c), cs(c, ChainSimConfig{}) {}
    ~PersistSim() { simfs::Disarm(); }

    RefChain& ref() { return *cs.ref; }
    SimNode& node() { return *cs.node; }

    // ---------------------------------------------------------------- chain side
    struct GenCoin { COutPoint op; RefCoin coin; };
    std::vector<GenCoin> GenCoins()
    {
        std::vector<GenCoin> out;
        int t = cs.TipIdx();
        if (t < 0) return out;
        const RefBlock& T = ref().blocks[t];
        for (auto& [op, c] : *T.utxo) {
            if (!Keys().CanSpend(c.spk)) continue;
            if (c.coinbase && T.height + 1 - c.height < ref().maturity) continue;
            if (node().pool().isSpent(op)) continue;
            if (c.value < 200000) continue;
            out.push_back({op, c});
        }
        return out;
    }
    std::vector<CTransactionRef> PoolTxs()
    {
        std::vector<CTransactionRef> v;
        for (auto& info : node().pool().infoAll()) v.push_back(info.tx);
        std::sort(v.begin(), v.end(), [](auto& a, auto& b) { return a->GetHash() < b->GetHash(); });
        return v;
    }
    /** Build one block on the tip from (a seeded subset of) the mempool, deliver it; returns the RefChain index. */
    int MineBlock(Rng& r, int include_pct)
    {
        int parent = cs.TipIdx();
        const RefBlock& P = ref().blocks[parent];
        const int height = P.height + 1;
        const int64_t mtp = ref().MTP(parent);
        cs.now += r.range(20, 400);
        SetMockTime(std::chrono::seconds{cs.now});
        int64_t time = std::max<int64_t>(mtp + 1, cs.now);
        RefUtxo view = *P.utxo;
        std::vector<CTransactionRef> pool;
        for (auto& tx : PoolTxs())
            if ((int)r.below(100) < include_pct) pool.push_back(tx);
        std::vector<CTransactionRef> chosen;
        CAmount fees = 0;
        std::vector<char> used(pool.size(), 0);
        bool progress = true;
        while (progress) {
            progress = false;
            for (size_t i = 0; i < pool.size(); ++i) {
                if (used[i]) continue;
                const CTransaction& tx = *pool[i];
                if (!ref().IsFinal(tx, height, mtp)) continue;
                CAmount fee = 0;
                if (!ref().CheckTxContextual(tx, view, height, parent, fee).empty()) continue;
                RefApplyTx(view, tx, height);
                fees += fee;
                chosen.push_back(pool[i]);
                used[i] = 1;
                progress = true;
            }
        }
        BlockExtras ex;
        ex.cb_extranonce = (uint32_t)(++cs.cb_nonce);
        ex.coinbase_spk = Keys().Spk(SK::P2WPKH, (int)r.below(N_KEYS));
        auto block = nodesim::BuildBlock(P.hash, height, time, chosen, RefSubsidy(height, ref().halving_interval) + fees, ex, node().params->GetConsensus());
        int idx = cs.AddBlock(block, parent, BlockLabel{});
        if (ref().blocks[idx].verdict != Verdict::VALID) ctx.failf("sim-built-invalid-block", "block #%d: %s", idx, ref().blocks[idx].reason.c_str());
        cs.Deliver(idx, true);
        node().DrainSignals();
        if (cs.TipIdx() != idx) ctx.failf("sim-block-not-connected", "block #%d did not become the tip", idx);
        // the record: wallet transactions of this block are confirmed in it
        for (size_t i = 0; i < block->vtx.size(); ++i) {
            auto it = model.txs.find(block->vtx[i]->GetHash().ToString());
            if (it != model.txs.end()) { it->second.block = idx; it->second.pos = (int)i; ctx.probe("wallet_tx_confirmed"); }
        }
        return idx;
    }
    bool SubmitToNode(const CTransactionRef& tx)
    {
        MempoolAcceptResult::ResultType rt;
        {
            LOCK(cs_main);
            const MempoolAcceptResult res = node().cm().ProcessTransaction(tx, /*test_accept=*/false);
            rt = res.m_result_type;
        }
        node().DrainSignals();
        return rt == MempoolAcceptResult::ResultType::VALID;
    }

    // ---------------------------------------------------------------- wallet life cycle (mirrors WalletNode::CreateWallet/LoadWallet with the recording database)
    std::unique_ptr<wallet::WalletDatabase> OpenLiveDb(bool create, uint64_t create_flags)
    {
        wallet::DatabaseOptions o;
        if (create) { o.require_create = true; o.require_format = wallet::DatabaseFormat::SQLITE; o.create_flags = create_flags; }
        else o.require_existing = true;
        o.use_unsafe_sync = false; // PRODUCTION options: PRAGMA synchronous stays at FULL
        wallet::DatabaseStatus status;
        bilingual_str error;
        std::unique_ptr<wallet::WalletDatabase> db = wallet::MakeDatabase(wn->WalletPath(wname), o, status, error);
        if (!db) ctx.failf(create ? "wallet-create-failed" : "restart-wallet-db-unopenable", "MakeDatabase: %s", error.original.c_str());
        return std::make_unique<RecDb>(std::move(db), rec);
    }
    void FinishLoad()
    {
        wallet::NotifyWalletLoaded(wn->context(), w);
        wallet::AddWallet(wn->context(), w);
        w->postInitProcess();
        node().DrainSignals();
    }
    void CreateBlankWallet()
    {
        const uint64_t flags = wallet::WALLET_FLAG_DESCRIPTORS | wallet::WALLET_FLAG_BLANK_WALLET;
        bilingual_str error;
        std::vector<bilingual_str> warnings;
        w = wallet::CWallet::CreateNew(wn->context(), wname, OpenLiveDb(true, flags), flags, /*born_encrypted=*/false, error, warnings);
        if (!w) ctx.failf("wallet-create-failed", "CreateNew: %s", error.original.c_str());
        FinishLoad();
    }
    void LoadLive()
    {
        bilingual_str error;
        std::vector<bilingual_str> warnings;
        w = wallet::CWallet::LoadExisting(wn->context(), wname, OpenLiveDb(false, 0), error, warnings);
        if (!w) ctx.failf("restart-wallet-does-not-load", "LoadExisting after a clean unload: %s", error.original.c_str());
        if (!warnings.empty()) ctx.failf("restart-wallet-loads-with-warnings", "%s", warnings[0].original.c_str());
        FinishLoad();
    }

    // ---------------------------------------------------------------- steps
    size_t step_io0{0}, step_u0{0};
    void BeginStep()
    {
        step_io0 = simfs::LogSize();
        step_u0 = rec.units.size();
        rec.step = (int)steps.size();
    }
    /** classify: group id (>= 0) of a logical write that the statement says belongs to ONE database transaction, -1 otherwise */
    void EndStep(const std::string& name, const std::function<int(const LWrite&)>& classify = nullptr, const char* what = "")
    {
        node().DrainSignals();
        if (rec.open) ctx.failf("db-transaction-left-open", "step '%s' returned with a wallet DB transaction still open", name.c_str());
        Step s;
        s.op = cur_op;
        s.name = name;
        s.io0 = step_io0;
        s.io1 = simfs::LogSize();
        s.u0 = step_u0;
        s.u1 = rec.units.size();
        s.nondet = nondet;
        if (classify) {
            std::map<int, std::pair<size_t, size_t>> span;
            for (size_t u = s.u0; u < s.u1; ++u)
                for (auto& lw : rec.units[u].w) {
                    int g = classify(lw);
                    if (g < 0) continue;
                    auto it = span.find(g);
                    if (it == span.end()) span[g] = {u, u};
                    else it->second.second = u;
                }
            for (auto& [g, ab] : span) {
                groups.push_back({ab.first, ab.second, (int)steps.size(), std::string(what) + (span.size() > 1 ? " part " + std::to_string(g) : "")});
                if (ab.first != ab.second) ctx.probe("declared_transaction_issued_as_several_units");
            }
        }
        if (s.u1 > s.u0) ctx.probe("steps_with_db_writes");
        steps.push_back(s);
        Timed tm("endstep observe+check");
        obs_after_step.push_back(Observe(*w));
        txstates_after_step.push_back(TxStates(*w));
        model_after_step.push_back(model);
        CheckLive(name);
    }
    static int AllOneGroup(const LWrite&) { return 0; }

    /** After every step: (a) the database holds exactly what the wallet committed, (b) the in-memory wallet equals the harness's record. */
    void CheckLive(const std::string& where)
    {
        std::map<Bytes, Bytes> got;
        KvHash h;
        auto* rdb = dynamic_cast<RecDb*>(&w->GetDatabase());
        if (!rdb || !ReadAll(rdb->Inner(), got, h)) ctx.failf("sim-cannot-read-live-db", "%s", where.c_str());
        if (!(h == rec.kv.h)) {
            std::string d;
            for (auto& [k, v] : rec.kv.m) {
                auto it = got.find(k);
                if (it == got.end()) { d = "committed record of type '" + RecType(k) + "' is missing"; break; }
                if (it->second != v) { d = "record of type '" + RecType(k) + "' has a value that was not the last one committed"; break; }
            }
            if (d.empty())
                for (auto& [k, v] : got)
                    if (!rec.kv.m.count(k)) { d = "database has a record of type '" + RecType(k) + "' that was never committed (or was erased)"; break; }
            ctx.failf("db-content-differs-from-committed-writes", "after %s: %s (%zu records in the file, %zu committed)", where.c_str(), d.c_str(), got.size(), rec.kv.m.size());
        }
        // no record of a removed transaction is left behind: every witness-variant record belongs to a transaction record
        for (auto it = got.lower_bound(std::string(1, (char)10) + "wtxvariant"); it != got.end() && RecType(it->first) == "wtxvariant"; ++it) {
            Bytes txkey = std::string(1, (char)2) + "tx" + it->first.substr(11, 32);
            if (!got.count(txkey)) ctx.failf("db-record-of-removed-transaction-left-behind", "after %s: a witness-variant record has no transaction record", where.c_str());
        }
        const Obs& o = obs_after_step.back();
        std::string diff = DiffModel(model, o, txstates_after_step.back(), ref(), /*live=*/true);
        if (!diff.empty()) {
            auto nl = diff.find('\n');
            ctx.failf(("live-" + diff.substr(0, nl) + "-differ-from-operation-record").c_str(), "after %s: %s", where.c_str(), diff.substr(nl + 1).c_str());
        }
    }

    // ---------------------------------------------------------------- helpers for the operations
    static std::string Slot(OutputType t, bool internal) { return std::string(internal ? "int:" : "ext:") + FormatOutputType(t); }
    wallet::DescriptorScriptPubKeyMan* Spkm(OutputType t, bool internal) { return dynamic_cast<wallet::DescriptorScriptPubKeyMan*>(w->GetScriptPubKeyMan(t, internal)); }
    static bool ScriptAt(wallet::DescriptorScriptPubKeyMan& d, int32_t idx, CScript& out)
    {
        LOCK(d.cs_desc_man);
        wallet::WalletDescriptor wd = d.GetWalletDescriptor();
        std::vector<CScript> scripts;
        FlatSigningProvider keys;
        if (!wd.descriptor->ExpandFromCache(idx, wd.cache, scripts, keys) || scripts.empty()) return false;
        out = scripts[0];
        return true;
    }
    /** Acknowledgement of descriptor creation (setup / encryption): descriptors the wallet now lists that the record does not know yet. */
    void LearnNewDescriptors(bool change_descriptors_inexact)
    {
        Obs o = Observe(*w);
        for (auto& [id, d] : o.descs)
            if (!model.descs.count(id)) {
                MDesc m;
                m.pub = d.pub; m.rs = d.rs; m.re = d.re; m.ni = d.ni; m.has_priv = d.has_priv;
                model.descs[id] = m;
            }
        model.active = o.active;
        if (change_descriptors_inexact)
            for (auto& [slot, id] : model.active)
                if (slot.rfind("int:", 0) == 0) model.descs[id].ni_exact = false; // the wallet draws change addresses from these on its own
    }
    std::vector<std::string> SortedKeys(const std::set<std::string>& a, const std::set<std::string>& b)
    {
        std::set<std::string> u = a;
        u.insert(b.begin(), b.end());
        return {u.begin(), u.end()};
    }

    /** `before`: the live wallet after some step; `after`: a wallet loaded from what that step left in the database (clean restart or a
     *  crash image at a step boundary); `m`: the harness's record at that step. Two operation sequences that once exposed defects
     *  (repaired in /repo since) keep violation classes of their own. */
    void CompareReload(const std::string& prefix, Obs before, const Obs& after, const Model& m, const std::map<std::string, std::string>& ts, const std::string& where, bool compare_priv)
    {
        // an acknowledged persistent lock is persistent, whatever the wallet's in-memory flag says
        for (auto& c : m.lock_upgraded)
            if (before.locked_volatile.erase(c)) before.locked.insert(c);
        auto fail = [&](const std::string& diff, const char* suffix) {
            auto nl = diff.find('\n');
            std::string comp = diff.substr(0, nl);
            std::string cls = prefix + "-" + comp + suffix;
            if (comp == "locked-coins")
                for (auto& c : after.locked)
                    if (!m.locked.count(c) && m.lock_upgraded_ever.count(c)) cls = "restart-unlocked-coin-locked-again";
            if (comp == "descriptors")
                for (auto& id : m.flipped)
                    for (auto& [slot, aid] : after.active)
                        if (aid == id && slot.rfind("int:", 0) == 0 && m.active.count("ext:" + slot.substr(4)) && m.active.at("ext:" + slot.substr(4)) == id) cls = "restart-descriptor-made-receiving-is-change-again";
            ctx.failf(cls.c_str(), "%s: %s", where.c_str(), diff.substr(nl + 1).c_str());
        };
        std::string d = DiffObs(before, after, keypool, compare_priv);
        if (!d.empty()) fail(d, "-not-reloaded-unchanged");
        d = DiffModel(m, after, ts, ref(), false);
        if (!d.empty()) fail(d, "-differ-from-operation-record");
    }

    // ---------------------------------------------------------------- operations
    void OpSetup(const Op& op)
    {
        if (model.encrypted) { ctx.ev("setup: wallet is encrypted and locked"); return; }
        if (model.descs.size() >= 24) { ctx.ev("setup: enough descriptors"); return; }
        unsigned char seed[32];
        Rng r(mix64((uint64_t)op.arg(0), 0x73657475));
        r.fill(seed, sizeof seed);
        CExtKey master;
        master.SetSeed(MakeByteSpan(seed));
        BeginStep();
        bool ok;
        {
            LOCK(w->cs_wallet);
            ok = wallet::RunWithinTxn(w->GetDatabase(), "setup descriptors", [&](wallet::WalletBatch& batch) EXCLUSIVE_LOCKS_REQUIRED(w->cs_wallet) {
                w->SetupDescriptorScriptPubKeyMans(batch, master);
                return true;
            });
        }
        if (!ok) ctx.failf("sim-setup-failed", "descriptor setup transaction failed");
        size_t before = model.descs.size();
        LearnNewDescriptors(true);
        ctx.evf("setup descriptors -> %zu new, %zu active", model.descs.size() - before, model.active.size());
        ctx.probe("descriptor_setup");
        EndStep("descriptor setup", AllOneGroup, "descriptor setup");
    }

    void OpNewAddr(const Op& op)
    {
        OutputType t = OUTPUT_TYPES[op.mod(0, OUTPUT_TYPES.size())];
        if (nondet && t != OutputType::BECH32 && t != OutputType::BECH32M) t = OutputType::BECH32; // fixed-length address strings only
        wallet::DescriptorScriptPubKeyMan* d = Spkm(t, false);
        if (!d) { ctx.ev("newaddr: no active descriptor of that type"); return; }
        const std::string id = d->GetID().ToString();
        MDesc& md = model.descs.at(id);
        // (a) the keypool top-up GetNewDestination would do first, as a step of its own: ONE transaction
        BeginStep();
        d->TopUp();
        md.re = std::max(md.re, md.ni + keypool);
        EndStep("keypool top-up before getnewaddress", AllOneGroup, "keypool top-up");
        // (b) the address itself: descriptor record (next index), then address-book purpose + name
        const std::string label = kLabels[op.mod(1, kNLabels)];
        BeginStep();
        auto r = w->GetNewDestination(t, label);
        if (!r) {
            ctx.evf("newaddr failed: %s", util::ErrorString(r).original.c_str());
            EndStep("getnewaddress (failed)");
            return;
        }
        Addr a{*r, GetScriptForDestination(*r), EncodeDestination(*r), !nondet};
        addrs.push_back(a);
        md.ni += 1;
        MBook& b = model.book[a.str];
        b.label = label;
        b.purpose = (int)wallet::AddressPurpose::RECEIVE;
        if (nondet) ctx.evf("newaddr #%zu type=%s", addrs.size(), FormatOutputType(t).c_str());
        else ctx.evf("newaddr #%zu %s label='%s'", addrs.size(), a.str.c_str(), label.c_str());
        ctx.probe("new_address");
        EndStep("getnewaddress");
    }

    void OpReceive(const Op& op)
    {
        Rng r(mix64((uint64_t)op.arg(1), 0x72637631));
        std::vector<GenCoin> funds = GenCoins();
        if (funds.empty()) { ctx.ev("receive: generator has no funds"); return; }
        // target script
        CScript spk;
        int mode = (int)op.mod(2, 3);
        std::string look_id;
        int32_t look_idx = -1;
        if (mode == 1 && !nondet) {
            OutputType t = OUTPUT_TYPES[r.below(OUTPUT_TYPES.size())];
            wallet::DescriptorScriptPubKeyMan* d = Spkm(t, false);
            if (d) {
                const std::string id = d->GetID().ToString();
                const MDesc& md = model.descs.at(id);
                int32_t re = WITH_LOCK(d->cs_desc_man, return d->GetWalletDescriptor().range_end);
                int32_t idx = std::min<int32_t>(md.ni + (int32_t)op.mod(3, 3), re - 1);
                if (md.ni_exact && idx >= md.ni && ScriptAt(*d, idx, spk)) { look_id = id; look_idx = idx; }
            }
        }
        std::string imported_id;
        if (look_idx < 0 && mode == 2 && !imported_spks.empty()) {
            auto& pr = imported_spks[r.below(imported_spks.size())];
            spk = pr.first;
            imported_id = pr.second;
        }
        if (spk.empty()) {
            std::vector<const Addr*> pay;
            for (auto& a : addrs)
                if (a.payable) pay.push_back(&a);
            if (pay.empty()) { ctx.ev("receive: no address to pay"); return; }
            spk = pay[r.below(pay.size())]->spk;
        }
        GenCoin c = funds[r.below(funds.size())];
        int nouts = (int)std::clamp<int64_t>(op.arg(0), 1, 2);
        CAmount fee = 3000;
        CAmount left = c.coin.value - fee;
        std::vector<CTxOut> outs;
        for (int i = 0; i < nouts; ++i) {
            CAmount v = std::max<CAmount>(50000, (CAmount)((double)c.coin.value * (double)r.range(2, 12) / 100.0));
            if (v + 50000 > left) break;
            outs.emplace_back(v, spk);
            left -= v;
        }
        if (outs.empty()) { ctx.ev("receive: coin too small"); return; }
        // the payer keeps several change outputs so that funds do not run out
        for (int i = 0; i < 2 && left > 400000; ++i) { CAmount v = left / (2 - i); outs.emplace_back(v, Keys().Spk(SK::P2WPKH, (int)r.below(N_KEYS))); left -= v; }
        bool ok = true;
        CTransactionRef tx = BuildTx({{c.op, c.coin, 0xfffffffdu}}, outs, 0, 2, SigDefect::NONE, 0, ok);
        BeginStep();
        bool accepted = SubmitToNode(tx);
        if (accepted) {
            model.txs[tx->GetHash().ToString()] = MTx{};
            if (!imported_id.empty()) {
                // the single script of a non-ranged descriptor is used now
                MDesc& md = model.descs.at(imported_id);
                md.ni = std::max(md.ni, 1);
                ctx.probe("receive_on_imported_descriptor");
            }
            if (look_idx >= 0) {
                // addresses of the keypool up to the paid one are used now: the wallet records them as receiving addresses
                wallet::DescriptorScriptPubKeyMan* d = dynamic_cast<wallet::DescriptorScriptPubKeyMan*>(w->GetScriptPubKeyMan(uint256::FromHex(look_id).value()));
                MDesc& md = model.descs.at(look_id);
                for (int32_t i = md.ni; i <= look_idx; ++i) {
                    CScript s;
                    CTxDestination dest;
                    if (d && ScriptAt(*d, i, s) && ExtractDestination(s, dest)) {
                        std::string str = EncodeDestination(dest);
                        if (!model.book.count(str)) { model.book[str].label = ""; model.book[str].purpose = (int)wallet::AddressPurpose::RECEIVE; }
                    }
                }
                md.ni = look_idx + 1;
                md.re = std::max(md.re, md.ni + keypool);
                ctx.probe("receive_on_keypool_lookahead");
            }
            ctx.probe("receive_unconfirmed");
            ctx.nontrivial = true;
        }
        ctx.evf("receive %s outs=%zu mode=%d lookahead=%d -> %s", Hx(tx->GetHash()).c_str(), outs.size(), mode, look_idx, accepted ? "accepted" : "rejected");
        EndStep("receive (external transaction enters the mempool)");
    }

    void OpMine(const Op& op)
    {
        Rng r(mix64((uint64_t)op.arg(1), 0x6d696e65));
        static const int inc[] = {100, 100, 60, 0};
        int n = (int)std::clamp<int64_t>(op.arg(0), 1, 2);
        for (int i = 0; i < n; ++i) {
            BeginStep();
            MineBlock(r, inc[op.mod(2, 4)]);
            EndStep("block connected");
        }
    }

    void OpSend(const Op& op)
    {
        if (model.encrypted) { ctx.ev("send: wallet is locked"); return; }
        if (model.descs.empty()) { ctx.ev("send: blank wallet"); return; }
        Rng r(mix64((uint64_t)op.arg(1), 0x73656e64));
        CAmount spendable = wn->GetBalance(*w).m_mine_trusted;
        if (spendable < 100000) { ctx.ev("send: no funds"); return; }
        SendSpec spec;
        int nrec = (int)std::clamp<int64_t>(op.arg(0), 1, 2);
        for (int i = 0; i < nrec; ++i) {
            CAmount v = std::max<CAmount>(30000, (CAmount)((double)spendable * (double)r.range(2, 30) / 100.0 / nrec));
            bool self = (op.arg(2) & 1) && i == 0 && !addrs.empty();
            CTxDestination d = self ? addrs[r.below(addrs.size())].dest : ext[r.below(ext.size())].dest;
            spec.recipients.push_back(WalletNode::Recipient(d, v, (op.arg(2) & 2) && i == 0));
        }
        static const std::optional<OutputType> ct[] = {std::nullopt, OutputType::LEGACY, OutputType::P2SH_SEGWIT, OutputType::BECH32, OutputType::BECH32M};
        spec.change_type = ct[op.mod(3, 5)];
        BeginStep();
        SendResult res = wn->Send(*w, spec);
        if (res.ok) {
            model.txs[res.tx->GetHash().ToString()] = MTx{};
            ctx.probe("wallet_send");
            ctx.nontrivial = true;
            ctx.evf("send %s nin=%zu nout=%zu change=%d inpool=%d", Hx(res.tx->GetHash()).c_str(), res.tx->vin.size(), res.tx->vout.size(), res.change_pos ? (int)*res.change_pos : -1, (int)wn->InMempool(res.tx->GetHash()));
        } else {
            ctx.evf("send failed: %s", res.error.c_str());
            ctx.probe("send_failed");
        }
        EndStep("wallet send (CreateTransaction + CommitTransaction)");
    }

    void OpLabel(const Op& op)
    {
        const bool external = op.mod(0, 2) != 0;
        const std::vector<Addr>& pool = external ? ext : addrs;
        if (pool.empty()) { ctx.ev("setlabel: no address"); return; }
        const Addr& a = pool[op.mod(1, pool.size())];
        const std::string label = kLabels[op.mod(2, kNLabels)];
        const wallet::AddressPurpose purpose = external ? wallet::AddressPurpose::SEND : wallet::AddressPurpose::RECEIVE;
        BeginStep();
        bool ok = w->SetAddressBook(a.dest, label, purpose);
        if (!ok) ctx.failf("sim-setlabel-failed", "SetAddressBook returned false");
        MBook& b = model.book[a.str];
        b.label = label;
        b.purpose = (int)purpose;
        ctx.evf("setlabel %s #%zu '%s'", external ? "ext" : "own", (size_t)op.mod(1, pool.size()), label.c_str());
        ctx.probe(external ? "label_sending_address" : "label_receiving_address");
        EndStep("setlabel");
    }

    void OpDelAddr(const Op& op)
    {
        if (op.mod(1, 2) && !addrs.empty()) {
            // deleting an own (receiving) address is refused inside the transaction: the transaction is aborted
            const Addr& a = addrs[op.mod(0, addrs.size())];
            BeginStep();
            bool ok = w->DelAddressBook(a.dest);
            if (ok) ctx.failf("sim-own-address-deleted", "DelAddressBook accepted an IsMine address");
            ctx.ev("deladdr own -> refused");
            ctx.probe("db_transaction_aborted");
            EndStep("address-book removal (refused)", AllOneGroup, "address-book removal");
            return;
        }
        std::vector<const Addr*> cand;
        for (auto& a : ext)
            if (model.book.count(a.str)) cand.push_back(&a);
        if (cand.empty()) { ctx.ev("deladdr: no sending address in the book"); return; }
        const Addr& a = *cand[op.mod(0, cand.size())];
        BeginStep();
        bool ok = w->DelAddressBook(a.dest);
        if (!ok) ctx.failf("sim-deladdr-failed", "DelAddressBook returned false");
        model.book.erase(a.str);
        ctx.ev("deladdr ext -> ok");
        ctx.probe("address_book_entry_removed");
        EndStep("address-book removal", AllOneGroup, "address-book removal");
    }

    void OpLock(const Op& op)
    {
        COutPoint o;
        if (op.mod(2, 4) == 0) {
            o = COutPoint(Txid::FromUint256(uint256{(uint8_t)(1 + op.mod(0, 5))}), (uint32_t)op.mod(0, 3));
        } else if (op.mod(2, 4) == 3 && WITH_LOCK(w->cs_wallet, return !w->mapWallet.empty())) {
            // an outpoint that a transaction ALREADY in the wallet spends (CWallet::LockCoin accepts any outpoint): at load time the
            // wallet re-registers that transaction's spends, which must not drop the lock
            std::vector<COutPoint> spent;
            {
                LOCK(w->cs_wallet);
                for (const auto& [id, wtx] : w->mapWallet)
                    if (!wtx.IsCoinBase())
                        for (const CTxIn& in : wtx.GetTx()->vin) spent.push_back(in.prevout);
            }
            std::sort(spent.begin(), spent.end());
            if (spent.empty()) { ctx.ev("lock: no wallet transaction with inputs"); return; }
            o = spent[op.mod(0, spent.size())];
            ctx.probe("locked_outpoint_spent_by_wallet_tx");
        } else {
            std::vector<WalletCoin> coins = wn->AvailableCoins(*w, /*include_unsafe=*/true, /*include_immature=*/false, 0, /*skip_locked=*/false);
            if (coins.empty()) { ctx.ev("lock: wallet has no coin"); return; }
            o = coins[op.mod(0, coins.size())].outpoint;
        }
        const bool persist = op.mod(1, 2) != 0;
        const std::string s = OutpointStr(o);
        const bool is_p = model.locked.count(s) > 0, is_v = model.locked_volatile.count(s) > 0;
        // lockunspent's rules: locking a locked coin again is accepted only with persistent=true
        if ((is_p || is_v) && !persist) { ctx.ev("lock: already locked"); return; }
        if (is_v && persist && !ctx.knob("lock_upgrade", 0)) { ctx.ev("lock: already locked in memory (upgrade disabled in this run)"); return; }
        BeginStep();
        bool ok = WITH_LOCK(w->cs_wallet, return w->LockCoin(o, persist));
        if (!ok) ctx.failf("sim-lock-failed", "LockCoin returned false");
        if (persist) {
            model.locked.insert(s);
            if (is_v) { model.locked_volatile.erase(s); model.lock_upgraded.insert(s); model.lock_upgraded_ever.insert(s); ctx.probe("memory_only_lock_made_persistent"); }
            ctx.probe("coin_locked_persistently");
        } else {
            model.locked_volatile.insert(s);
            ctx.probe("coin_locked_in_memory");
        }
        ctx.evf("lock %s persist=%d", s.substr(0, 14).c_str(), (int)persist);
        EndStep("lockunspent (lock)");
    }

    void OpUnlock(const Op& op)
    {
        std::vector<std::string> all = SortedKeys(model.locked, model.locked_volatile);
        if (all.empty()) { ctx.ev("unlock: nothing locked"); return; }
        const std::string s = all[op.mod(0, all.size())];
        COutPoint o(Txid::FromHex(s.substr(0, 64)).value(), (uint32_t)atoi(s.substr(65).c_str()));
        BeginStep();
        bool ok = WITH_LOCK(w->cs_wallet, return w->UnlockCoin(o));
        if (!ok) ctx.failf("sim-unlock-failed", "UnlockCoin returned false");
        model.locked.erase(s);
        model.locked_volatile.erase(s);
        model.lock_upgraded.erase(s);
        ctx.evf("unlock %s", s.substr(0, 14).c_str());
        ctx.probe("coin_unlocked");
        EndStep("lockunspent (unlock)");
    }

    void OpImport(const Op& op)
    {
        const int kind = (int)op.mod(0, 5);
        const int keyn = (int)op.mod(1, 4);
        if (kind == 4 && model.encrypted) { ctx.ev("import: hardened ranges need private keys, wallet is locked"); return; }
        const bool priv = (kind == 4 || op.mod(2, 2) != 0) && !model.encrypted; // a locked wallet cannot take private keys
        unsigned char seed[32];
        Rng kr(mix64(0x696d706b6579ULL, (uint64_t)keyn));
        kr.fill(seed, sizeof seed);
        CExtKey master;
        master.SetSeed(MakeByteSpan(seed));
        std::string k = priv ? EncodeExtKey(master) : EncodeExtPubKey(master.Neuter());
        std::string desc;
        bool ranged = true;
        if (kind == 0) desc = "wpkh(" + k + "/0/*)";
        else if (kind == 1) desc = "pkh(" + k + "/1/*)";
        else if (kind == 2) desc = "tr(" + k + "/2/*)";
        else if (kind == 4) desc = "wpkh(" + k + "/3h/*h)"; // hardened range: every index has a derived-key cache record of its own, so a top-up writes several records
        else {
            CExtKey child;
            if (!master.Derive(child, 7)) return;
            desc = "wpkh(" + (priv ? EncodeSecret(child.key) : HexStr(child.key.GetPubKey())) + ")";
            ranged = false;
        }
        int32_t re = ranged ? (int32_t)std::clamp<int64_t>(op.arg(3), 1, 40) : 1;
        int32_t ni = ranged ? (int32_t)std::clamp<int64_t>(op.arg(4), 0, re) : 0;
        const bool active = ranged && op.mod(5, 2) != 0;
        const bool internal = op.mod(6, 2) != 0;
        const std::string label = kLabels[op.mod(7, kNLabels)];
        // the record's view of the descriptor
        FlatSigningProvider keys;
        std::string err;
        auto parsed = Parse(desc, keys, err, /*require_checksum=*/false);
        if (parsed.size() != 1) ctx.failf("sim-bad-descriptor", "%s: %s", desc.c_str(), err.c_str());
        const std::string id = DescriptorID(*parsed[0]).ToString();
        const std::string pub = parsed[0]->ToString();
        const std::optional<OutputType> type = parsed[0]->GetOutputType();
        auto existing = model.descs.find(id);
        if (existing != model.descs.end()) {
            // importing a descriptor again never moves its next index backwards (the RPC user would lose track of used addresses)
            if (!ranged && existing->second.ni > 0) { ctx.ev("import: single-key descriptor already imported and used"); return; }
            ni = std::max(ni, existing->second.ni);
            // (for a descriptor the wallet draws change addresses from, the floor is what listdescriptors reports)
            if (auto* cur = dynamic_cast<wallet::DescriptorScriptPubKeyMan*>(w->GetScriptPubKeyMan(uint256::FromHex(id).value())))
                ni = std::max(ni, WITH_LOCK(cur->cs_desc_man, return cur->GetWalletDescriptor().next_index));
            re = std::max(re, ni);
        }
        bool internal_eff = internal;
        bool flip = false;
        if (active && type && model.active.count(Slot(*type, true)) && model.active.at(Slot(*type, true)) == id && !internal) {
            // the descriptor is the active change descriptor of its type and would become the active receiving one
            if (ctx.knob("import_flip", 0)) flip = true;
            else internal_eff = true;
        }
        BeginStep();
        bool ok = false;
        std::string threw;
        try {
            ok = wn->ImportDescriptor(*w, desc, active, internal_eff, 0, re, ni, /*timestamp=*/cs.now, label);
        } catch (const std::exception& e) {
            threw = e.what();
        }
        if (!threw.empty()) ctx.failf("sim-import-threw", "importdescriptors %s: %s", pub.substr(0, 30).c_str(), threw.c_str());
        if (ok) {
            MDesc m;
            m.pub = pub;
            m.rs = 0;
            m.ni = ni;
            m.re = ranged ? std::max(re, ni + keypool) : 1;
            m.has_priv = priv || (existing != model.descs.end() && existing->second.has_priv);
            m.ni_exact = existing == model.descs.end() || existing->second.ni_exact; // once the wallet draws change from it, the record only bounds its next index
            model.descs[id] = m;
            if (active && type) {
                model.active[Slot(*type, internal_eff)] = id;
                auto other = model.active.find(Slot(*type, !internal_eff));
                if (other != model.active.end() && other->second == id) model.active.erase(other);
                if (internal_eff) model.descs[id].ni_exact = false;
                if (flip) { model.flipped.insert(id); ctx.probe("active_change_descriptor_made_receiving"); }
                ctx.probe("import_active_descriptor");
            }
            // scripts of the descriptor: label for a non-ranged receiving descriptor; remember something payable
            auto* d = dynamic_cast<wallet::DescriptorScriptPubKeyMan*>(w->GetScriptPubKeyMan(uint256::FromHex(id).value()));
            CScript s;
            if (d && !ranged && ScriptAt(*d, 0, s)) {
                CTxDestination dest;
                if (!internal_eff && ExtractDestination(s, dest)) {
                    MBook& b = model.book[EncodeDestination(dest)];
                    b.label = label;
                    b.purpose = (int)wallet::AddressPurpose::RECEIVE;
                }
                if (std::find(imported_spks.begin(), imported_spks.end(), std::make_pair(s, id)) == imported_spks.end()) imported_spks.emplace_back(s, id);
            }
            ctx.probe(existing != model.descs.end() ? "import_updates_existing_descriptor" : "import_new_descriptor");
            if (priv) ctx.probe("import_with_private_keys");
            if (kind == 4) ctx.probe("import_hardened_range_descriptor");
        } else {
            ctx.probe("import_refused");
        }
        ctx.evf("import kind=%d key=%d priv=%d range=[0,%d) next=%d active=%d internal=%d -> %s %s", kind, keyn, (int)priv, re, ni, (int)active, (int)internal, ok ? "ok" : "refused", ok ? "" : wn->last_error.c_str());
        EndStep("importdescriptors");
    }

    void OpFlag(const Op& op)
    {
        const bool set = op.mod(0, 2) != 0;
        BeginStep();
        if (set) w->SetWalletFlag(wallet::WALLET_FLAG_AVOID_REUSE);
        else w->UnsetWalletFlag(wallet::WALLET_FLAG_AVOID_REUSE);
        model.avoid_reuse = set;
        ctx.evf("setwalletflag avoid_reuse=%d", (int)set);
        ctx.probe("wallet_flag_changed");
        EndStep("setwalletflag");
    }

    void OpRemoveTx(const Op& op)
    {
        std::vector<std::string> conf;
        for (auto& [id, t] : model.txs)
            if (t.block >= 0) conf.push_back(id);
        if (conf.empty()) { ctx.ev("removetx: no confirmed wallet transaction"); return; }
        size_t n = std::min<size_t>((size_t)std::clamp<int64_t>(op.arg(1), 1, 3), conf.size());
        size_t first = op.mod(0, conf.size());
        std::vector<Txid> v;
        std::vector<std::string> ids;
        for (size_t i = 0; i < n; ++i) { ids.push_back(conf[(first + i) % conf.size()]); v.push_back(Txid::FromHex(ids.back()).value()); }
        const bool bogus = op.mod(2, 2) != 0;
        if (bogus) v.insert(v.begin() + std::min<size_t>(op.mod(3, 3), v.size()), Txid::FromUint256(uint256{(uint8_t)0xee}));
        BeginStep();
        util::Result<void> res = WITH_LOCK(w->cs_wallet, return w->RemoveTxs(v));
        if (bogus) {
            if (res) ctx.failf("sim-removal-of-unknown-tx-accepted", "RemoveTxs accepted a transaction that is not in the wallet");
            ctx.probe("db_transaction_aborted");
            ctx.probe("tx_removal_rolled_back");
        } else {
            if (!res) ctx.failf("sim-removetx-failed", "%s", util::ErrorString(res).original.c_str());
            for (auto& id : ids) model.txs.erase(id);
            ctx.probe("wallet_tx_removed");
        }
        ctx.evf("removetx n=%zu bogus=%d -> %s", n, (int)bogus, res ? "ok" : "refused");
        EndStep(bogus ? "transaction removal (rolled back)" : "transaction removal", AllOneGroup, "transaction removal");
    }

    void OpTopUp(const Op& op)
    {
        const unsigned size = (unsigned)(keypool + std::clamp<int64_t>(op.arg(0), 1, 6));
        int n = 0;
        for (bool internal : {false, true})
            for (OutputType t : OUTPUT_TYPES) {
                wallet::DescriptorScriptPubKeyMan* d = Spkm(t, internal);
                if (!d) continue;
                MDesc& md = model.descs.at(d->GetID().ToString());
                BeginStep();
                bool ok = d->TopUp(size);
                if (ok && md.pub.find('*') != std::string::npos) md.re = std::max(md.re, md.ni + (int32_t)size);
                ++n;
                ctx.probe("keypool_topup");
                EndStep("keypool top-up", AllOneGroup, "keypool top-up");
            }
        ctx.evf("keypoolrefill %u: %d descriptors", size, n);
    }

    void OpRecvReq(const Op& op)
    {
        if (addrs.empty()) { ctx.ev("recvreq: no own address"); return; }
        const Addr& a = addrs[op.mod(0, addrs.size())];
        const std::string id = std::to_string(op.mod(1, 3));
        const bool set = op.mod(2, 3) != 0;
        BeginStep();
        {
            LOCK(w->cs_wallet);
            wallet::WalletBatch batch(w->GetDatabase());
            bool ok = set ? w->SetAddressReceiveRequest(batch, a.dest, id, "request-" + id + "-" + std::to_string(op.mod(2, 3)))
                          : w->EraseAddressReceiveRequest(batch, a.dest, id);
            if (!ok) ctx.failf("sim-recvreq-failed", "receive request write returned false");
        }
        if (set) model.book[a.str].rr[id] = "request-" + id + "-" + std::to_string(op.mod(2, 3));
        else model.book[a.str].rr.erase(id);
        ctx.evf("recvreq #%zu id=%s %s", (size_t)op.mod(0, addrs.size()), id.c_str(), set ? "set" : "erase");
        ctx.probe("receive_request");
        EndStep("receive request");
    }

    void OpEncrypt()
    {
        if (model.encrypted) { ctx.ev("encrypt: already encrypted"); return; }
        bool any_priv = false;
        for (auto& [id, d] : model.descs) any_priv |= d.has_priv;
        if (!any_priv) { ctx.ev("encrypt: wallet has no private keys yet"); return; }
        std::set<std::string> old_ids;
        for (auto& [id, d] : model.descs) old_ids.insert(id);
        nondet = true; // from here on: fresh random master key, salt and HD seed
        BeginStep();
        bool ok = w->EncryptWallet(pass);
        if (!ok) ctx.failf("sim-encrypt-failed", "EncryptWallet returned false");
        model.encrypted = true;
        LearnNewDescriptors(true);
        ctx.evf("encryptwallet -> %zu descriptors", model.descs.size());
        ctx.probe("wallet_encrypted");
        // the statement: encryption (master key + every key re-written encrypted) is ONE transaction; the descriptor setup that follows is another
        EndStep("encryptwallet", [old_ids](const LWrite& lw) {
            std::string t = RecType(lw.key);
            if (t == "mkey") return 0;
            if (t == "walletdescriptorckey" || t == "walletdescriptorkey") return old_ids.count(RecDescId(lw.key)) ? 0 : 1;
            if (t == "walletdescriptor" || t == "walletdescriptorcache" || t == "walletdescriptorlhcache") return old_ids.count(RecDescId(lw.key)) ? -1 : 1;
            if (t == "activeexternalspk" || t == "activeinternalspk" || t == "flags") return 1;
            return -1;
        }, "encryption");
    }

    /** Clean restart: everything the wallet recorded is reloaded unchanged. */
    void OpRestart(const char* why)
    {
        BeginStep();
        node().DrainSignals();
        Obs before = Observe(*w);
        wn->UnloadWallet(w);
        Obs after;
        {
            // The persistence half of a load on its own (no chain attached): what PopulateWalletFromDB rebuilds from the file. Attaching the
            // chain afterwards legitimately changes wallet state again (mempool transactions are shown to the wallet once more: keypool
            // marks, avoid_reuse marks under a flag that was set in between, ...); that is not what "reloaded unchanged" is about.
            wallet::WalletContext cctx;
            cctx.args = &wn->args();
            cctx.chain = nullptr;
            bilingual_str error;
            std::vector<bilingual_str> warnings;
            std::shared_ptr<wallet::CWallet> cw = wallet::CWallet::LoadExisting(cctx, wname, OpenLiveDb(false, 0), error, warnings);
            if (!cw) ctx.failf("restart-wallet-does-not-load", "%s: LoadExisting after a clean unload: %s", why, error.original.c_str());
            if (!warnings.empty()) ctx.failf("restart-wallet-loads-with-warnings", "%s: %s", why, warnings[0].original.c_str());
            after = Observe(*cw);
            CompareReload("restart", before, after, model, TxStates(*cw), why, /*compare_priv=*/true);
            cw.reset();
        }
        LoadLive(); // with the chain; EndStep compares the running wallet with the harness's record
        // the record follows the loader's top-up
        for (auto& [slot, id] : model.active) {
            MDesc& md = model.descs.at(id);
            if (md.pub.find('*') != std::string::npos) md.re = std::max(md.re, md.ni + keypool);
        }
        model.locked_volatile.clear();
        ctx.evf("restart (%s): %zu descriptors %zu txs %zu book %zu locked", why, after.descs.size(), after.txs.size(), after.book.size(), after.locked.size());
        ctx.probe("clean_restart");
        if (!after.txs.empty()) ctx.probe("clean_restart_with_transactions");
        EndStep("clean restart");
    }

    // ---------------------------------------------------------------- crash points
    struct Crash {
        size_t k{0}, j{0};
        CrashMode mode{CM_KILL};
        uint64_t seed{0};
        bool load{false};
        int op{-1};        //!< plan index of the operation that was interrupted
        int plan_idx{-1};  //!< plan index of the crash op itself
    };
    std::vector<Crash> crashes;

    /** Turn a crash op into a log position inside the I/O range of the workload operation executed just before it. */
    void PlanCrash(const Op& op, int plan_idx)
    {
        if (op_steps.empty()) return;
        const int first = op_steps.back().second;
        if (first >= (int)steps.size()) { ctx.probe("crash_after_operation_without_io"); return; }
        const size_t a = steps[first].io0, b = steps.back().io1;
        Crash c;
        c.op = op_steps.back().first;
        c.plan_idx = plan_idx;
        c.mode = (CrashMode)op.mod(0, 3);
        c.seed = (uint64_t)op.arg(3);
        c.load = op.mod(4, 4) != 0;
        const auto& log = simfs::Log();
        std::vector<size_t> cand;
        const int sel = (int)op.mod(5, 3);
        if (sel == 1) {
            // around the start and the end of each committed unit of the operation (the commit point sits just before the end)
            for (size_t u = steps[first].u0; u < steps.back().u1; ++u)
                for (size_t x : {rec.units[u].io0, rec.units[u].io0 + 1, rec.units[u].io1 - 1, rec.units[u].io1, rec.units[u].io1 - 2, rec.units[u].io1 - 3})
                    if (x >= a && x <= b) cand.push_back(x);
        } else if (sel == 2) {
            for (size_t i = a; i < b; ++i)
                if (log[i].kind == simfs::OpKind::SYNC || log[i].kind == simfs::OpKind::SYNCDIR || log[i].kind == simfs::OpKind::TRUNC || log[i].kind == simfs::OpKind::UNLINK) { cand.push_back(i); cand.push_back(i + 1); }
        }
        if (cand.empty()) c.k = a + op.mod(1, b - a + 1);
        else c.k = cand[op.mod(1, cand.size())];
        if (b == a) ctx.probe("crash_after_operation_without_io");
        const size_t lo = ((uint64_t)op.arg(2) % 3 == 0) ? k0 : std::min(a, c.k);
        c.j = c.mode == CM_KILL ? c.k : lo + (((uint64_t)op.arg(2) >> 2) % (c.k - lo + 1));
        if (c.mode == CM_POWER_TAIL && ((uint64_t)op.arg(2) & 2)) {
            // the classic case: everything up to the last sync is on disk, nothing after it
            size_t i = c.k;
            while (i > lo && log[i - 1].kind != simfs::OpKind::SYNC && log[i - 1].kind != simfs::OpKind::SYNCDIR) --i;
            c.j = i;
        }
        crashes.push_back(c);
    }

    std::vector<std::pair<size_t, FsImage>> checkpoints;
    void BuildCheckpoints(size_t end)
    {
        const auto& log = simfs::Log();
        // only the operation boundaries some crash point needs as its base
        std::vector<size_t> bounds{k0};
        for (auto& [pi, first] : op_steps)
            if (first < (int)steps.size() && steps[first].io0 > bounds.back()) bounds.push_back(steps[first].io0);
        std::set<size_t> at{k0};
        for (auto& c : crashes) {
            size_t lim = std::clamp(std::min(c.j, c.k), k0, end);
            auto it = std::upper_bound(bounds.begin(), bounds.end(), lim);
            at.insert(*std::prev(it));
        }
        FsImage img;
        size_t i = 0;
        for (size_t idx : at) {
            for (; i < idx && i < end; ++i) img.Apply(log[i]);
            checkpoints.emplace_back(idx, img);
        }
    }

    bool InteriorOfGroup(size_t p, const AtomicGroup** which = nullptr) const
    {
        for (auto& g : groups)
            if (p >= g.a + 1 && p <= g.b) { if (which) *which = &g; return true; }
        return false;
    }

    void Recover(const Crash& c, int n)
    {
        Timed tm(c.load ? "recover+load" : "recover");
        const std::string img_root = RunDir() + "/img" + std::to_string(n);
        // 1. the directory the crash leaves behind
        size_t base = 0;
        for (size_t i = 0; i < checkpoints.size(); ++i)
            if (checkpoints[i].first <= std::min(c.j, c.k)) base = i;
        FsImage img = checkpoints[base].second;
        CrashImageInfo info;
        ApplyCrashWindow(img, checkpoints[base].first, c.k, c.mode, c.j, c.seed, info);
        if (!WriteImage(img, img_root)) ctx.failf("sim-materialize-failed", "image %d", n);
        ++images;
        static const char* fk[] = {"crash_kill", "crash_powerloss_tail_dropped", "crash_powerloss_subset_kept"};
        ctx.fault(fk[c.mode]);
        if (info.dropped) ctx.probe("unsynced_io_dropped", info.dropped);
        if (info.kept_unsynced) ctx.probe("unsynced_io_kept_out_of_order", info.kept_unsynced);
        // which step was interrupted
        int si = -1;
        for (size_t s = 0; s < steps.size(); ++s)
            if (steps[s].io0 <= c.k && c.k <= steps[s].io1 && (si < 0 || steps[s].io0 < c.k)) si = (int)s;
        const bool nd = si >= 0 ? steps[si].nondet : nondet;
        char where[400];
        snprintf(where, sizeof where, "%s at I/O %zu of [%zu,%zu] of step '%s' (operation %d: %s)%s", kModeName[c.mode], si >= 0 ? c.k - steps[si].io0 : 0, (size_t)0, si >= 0 ? steps[si].io1 - steps[si].io0 : 0,
                 si >= 0 ? steps[si].name.c_str() : "?", c.op, c.op >= 0 ? Describe(ctx.plan.ops[c.op]).substr(0, 90).c_str() : "?", c.mode == CM_KILL ? "" : (", durable prefix ends " + std::to_string(c.k - c.j) + " I/O ops earlier").c_str());
        // 2. the wallet's own database layer opens it (hot journal rollback, integrity_check)
        const fs::path wpath = fs::PathFromString(img_root) / "wallets" / fs::PathFromString(wname);
        std::map<Bytes, Bytes> got;
        KvHash h;
        {
            wallet::DatabaseOptions o;
            o.require_existing = true;
            wallet::DatabaseStatus status;
            bilingual_str error;
            std::unique_ptr<wallet::WalletDatabase> db = wallet::MakeDatabase(wpath, o, status, error);
            if (!db) ctx.failf("crash-wallet-database-does-not-open", "%s: %s", where, error.original.c_str());
            if (!ReadAll(*db, got, h)) ctx.failf("crash-wallet-database-unreadable", "%s: cursor failed", where);
        }
        // 2b. an address-book entry (its `name` record is what makes it one) never exists without the purpose it was given: the wallet
        //     writes the purpose first. (Every entry of these histories is created with a purpose.)
        for (auto& [k, v] : got) {
            if (RecType(k) != "name") continue;
            Bytes pk = std::string(1, (char)7) + "purpose" + k.substr(5);
            if (!got.count(pk)) {
                std::string addr = k.size() > 6 ? k.substr(6) : std::string();
                ctx.failf("crash-address-book-entry-without-purpose", "%s: the file has the label of %s but not its purpose", where, nd ? "an address" : addr.c_str());
            }
        }
        // 3. the records are those of a committed state adjacent to the crash point
        size_t done = 0;
        {
            size_t lo = 0, hi = rec.units.size();
            while (lo < hi) { size_t mid = (lo + hi) / 2; if (rec.units[mid].io1 <= c.k) lo = mid + 1; else hi = mid; }
            done = lo;
        }
        const bool in_flight = done < rec.units.size() && rec.units[done].io0 < c.k;
        std::vector<size_t> matches;
        for (size_t p = 0; p < rec.prefix_hash.size(); ++p)
            if (rec.prefix_hash[p] == h) matches.push_back(p);
        auto acceptable = [&](size_t p) { return (p == done || (in_flight && p == done + 1)) && !InteriorOfGroup(p); };
        size_t hit = (size_t)-1;
        for (size_t p : matches)
            if (acceptable(p)) hit = p;
        if (hit == (size_t)-1) {
            const AtomicGroup* g = nullptr;
            for (size_t p : matches)
                if (InteriorOfGroup(p, &g)) break;
            if (g) ctx.failf("crash-transaction-partially-applied", "%s: the file holds %s of the writes that the wallet must apply as ONE database transaction (%s, %zu units issued)", where, "a part", g->what.c_str(), g->b - g->a + 1);
            if (matches.empty()) {
                // describe the damage relative to the newest acceptable state
                RefKv kv;
                for (size_t u = 0; u < done; ++u) kv.Apply(rec.units[u]);
                size_t missing = 0, extra = 0, differ = 0;
                std::string ex;
                for (auto& [k, v] : kv.m) {
                    auto it = got.find(k);
                    if (it == got.end()) { ++missing; if (ex.empty()) ex = "missing '" + RecType(k) + "'"; }
                    else if (it->second != v) { ++differ; if (ex.empty()) ex = "different '" + RecType(k) + "'"; }
                }
                for (auto& [k, v] : got)
                    if (!kv.m.count(k)) { ++extra; if (ex.empty()) ex = "extra '" + RecType(k) + "'"; }
                ctx.failf("crash-records-match-no-committed-state", "%s: relative to the last state committed before the crash %zu records are missing, %zu extra, %zu different (e.g. %s); %zu units committed, in flight: %d", where, missing, extra, differ, ex.c_str(), done, (int)in_flight);
            }
            size_t p = matches.back();
            if (p < done) ctx.failf("crash-committed-update-lost", "%s: the file holds the state after %zu committed units, %zu were committed before the crash point", where, p, done);
            ctx.failf("crash-uncommitted-update-present", "%s: the file holds the state after %zu units, only %zu%s were committed", where, p, done, in_flight ? " (+1 in flight)" : "");
        }
        ctx.probe(hit == done ? (in_flight ? "crash_in_flight_update_absent" : "crash_between_updates") : "crash_in_flight_update_present");
        if (in_flight && rec.units[done].txn && rec.units[done].w.size() > 1) ctx.probe("crash_inside_multi_record_transaction");
        if (!nd) ctx.evf("recover crash#%d op=%d mode=%d -> %s", c.plan_idx, c.op, (int)c.mode, hit == done ? "old" : "new");
        else ctx.evf("recover crash#%d op=%d mode=%d", c.plan_idx, c.op, (int)c.mode);
        ctx.fingerprint(mix64(mix64(hit, c.k), (uint64_t)c.mode * 3 + in_flight));
        // 4. the wallet loads from it, and if the file is at a step boundary the loaded wallet is the one that step left
        if (c.load) {
            wallet::WalletContext cctx;
            cctx.args = &wn->args();
            cctx.chain = nullptr;
            wallet::DatabaseOptions o;
            o.require_existing = true;
            wallet::DatabaseStatus status;
            bilingual_str error;
            std::vector<bilingual_str> warnings;
            std::unique_ptr<wallet::WalletDatabase> db = wallet::MakeDatabase(wpath, o, status, error);
            if (!db) ctx.failf("crash-wallet-database-does-not-open", "%s (second open): %s", where, error.original.c_str());
            std::shared_ptr<wallet::CWallet> cw;
            std::string threw;
            try {
                cw = wallet::CWallet::LoadExisting(cctx, wname, std::move(db), error, warnings);
            } catch (const std::exception& e) {
                threw = e.what();
            }
            if (!cw) ctx.failf("crash-wallet-does-not-load", "%s: %s%s", where, error.original.c_str(), threw.c_str());
            if (!warnings.empty()) ctx.failf("crash-wallet-loads-with-warnings", "%s: %s", where, warnings[0].original.c_str());
            ++loads;
            ctx.probe("wallet_loaded_from_crash_image");
            int s_match = -1;
            for (size_t s = 0; s < steps.size(); ++s)
                if (steps[s].u1 == hit) s_match = (int)s;
            if (hit == 0) s_match = -2; // the freshly created blank wallet
            if (s_match >= 0) {
                Obs after = Observe(*cw);
                const Obs& before = obs_after_step[s_match];
                CompareReload("crash", before, after, model_after_step[s_match], TxStates(*cw), std::string(where) + "; file = state after step '" + steps[s_match].name + "'", /*compare_priv=*/!before.locked_wallet);
                ctx.probe("crash_image_compared_with_step_state");
            }
            // an encrypted image must unlock with the passphrase (every key of every descriptor decrypts)
            const bool enc = WITH_LOCK(cw->cs_wallet, return cw->HasEncryptionKeys());
            if (enc && (si >= 0 && steps[si].name == "encryptwallet" ? true : (c.seed % 8 == 0))) {
                bool ok = false;
                std::string t2;
                try { ok = cw->Unlock(pass); } catch (const std::exception& e) { t2 = e.what(); }
                if (!ok) ctx.failf("crash-encrypted-wallet-does-not-unlock", "%s: %s", where, t2.empty() ? "Unlock returned false" : t2.c_str());
                ctx.probe("crash_image_unlocked_with_passphrase");
            }
            cw.reset();
        }
        std::error_code ec;
        std::filesystem::remove_all(img_root, ec);
    }

    // ---------------------------------------------------------------- run
    void Setup()
    {
        Timed tm("setup");
        live_root = RunDir() + "/live";
        fs::create_directories(fs::PathFromString(live_root));
        simfs::Arm(live_root);
        cs.tweak_opts = [&](NodeOpts& o) {
            o.make_runner = &MakeDeferredTaskRunner; // wallet callbacks after the emitting validation call, as on a real node (see walletsim.h)
            o.mempool_check_ratio = 0;
            o.require_standard = true;
        };
        cs.StartNode(); // node directory is RunDir()/node0: outside the recorded root
        Rng r(mix64(ctx.plan.seed, 0xba5e43));
        int base = (int)std::clamp<int64_t>(ctx.knob("base", 104), 101, 200);
        for (int i = 0; i < base; ++i) MineBlock(r, 0);
        keypool = (int)std::clamp<int64_t>(ctx.knob("keypool", 4), 1, 20);
        WalletNodeOpts wo;
        wo.walletdir = live_root + "/wallets";
        wo.keypool = keypool;
        wo.unsafe_sync = false;
        wn = std::make_unique<WalletNode>(node(), wo);
        CreateBlankWallet();
        for (int k = 0; k < N_KEYS; ++k)
            for (SK kind : {SK::P2WPKH, SK::P2PKH, SK::P2TR, SK::P2SH_P2WPKH}) {
                CScript s = Keys().Spk(kind, k);
                CTxDestination d = WalletNode::DestFor(s);
                ext.push_back(Addr{d, s, EncodeDestination(d), false});
            }
        start_time = cs.now;
        // Crash points start here: the property speaks of a wallet that exists; the one-time creation of the database file is outside it.
        k0 = simfs::LogSize();
        ctx.evf("setup base=%d keypool=%d io=%zu units=%zu", base, keypool, k0, rec.units.size());
    }

    void Exec(const Op& op)
    {
        Timed tm("op " + std::to_string(op.kind));
        switch (op.kind) {
        case O_SETUP: OpSetup(op); break;
        case O_NEWADDR: OpNewAddr(op); break;
        case O_RECEIVE: OpReceive(op); break;
        case O_MINE: OpMine(op); break;
        case O_SEND: OpSend(op); break;
        case O_LABEL: OpLabel(op); break;
        case O_DELADDR: OpDelAddr(op); break;
        case O_LOCK: OpLock(op); break;
        case O_UNLOCK: OpUnlock(op); break;
        case O_IMPORT: OpImport(op); break;
        case O_FLAG: OpFlag(op); break;
        case O_REMOVETX: OpRemoveTx(op); break;
        case O_TOPUP: OpTopUp(op); break;
        case O_RECVREQ: OpRecvReq(op); break;
        case O_ENCRYPT: OpEncrypt(); break;
        case O_RESTART: OpRestart("restart operation"); break;
        default: break;
        }
    }

    void Run()
    {
        Setup();
        for (size_t i = 0; i < ctx.plan.ops.size(); ++i) {
            const Op& op = ctx.plan.ops[i];
            if (op.kind == O_CRASH) { PlanCrash(op, (int)i); continue; }
            if (op.kind < 0 || op.kind >= O_NOPS) continue;
            cur_op = (int)i;
            op_steps.emplace_back((int)i, (int)steps.size());
            Exec(op);
            ctx.fingerprint(ModelFingerprint(model));
        }
        // every history ends with a clean restart
        cur_op = -1;
        OpRestart("end of history");
        if (model.encrypted) {
            // the reloaded encrypted wallet unlocks, and then exports the private form of every descriptor that has keys
            bool ok = false;
            std::string threw;
            try { ok = w->Unlock(pass); } catch (const std::exception& e) { threw = e.what(); }
            if (!ok) ctx.failf("restart-encrypted-wallet-does-not-unlock", "%s", threw.empty() ? "Unlock returned false" : threw.c_str());
            Obs o = Observe(*w);
            for (auto& [id, d] : o.descs)
                if (d.has_priv && d.priv.empty()) ctx.failf("restart-keys-not-reloaded-unchanged", "descriptor %s: private keys cannot be exported after unlocking the reloaded wallet", id.substr(0, 10).c_str());
            w->Lock();
            ctx.probe("encrypted_wallet_unlocked_after_restart");
        }
        const size_t end = simfs::LogSize();
        ctx.probe("io_ops_recorded", end - k0);
        ctx.probe("db_units_committed", rec.units.size());
        ctx.probe("db_transactions_committed", rec.txn_commits);
        if (rec.txn_aborts) ctx.probe("db_transactions_aborted", rec.txn_aborts);
        if (simfs::OpsFromOtherThreads()) ctx.failf("sim-io-from-other-thread", "%lu file operations from another thread", (unsigned long)simfs::OpsFromOtherThreads());
        if (!nondet) ctx.evf("workload done: io=%zu units=%zu txn=%lu aborted=%lu", end, rec.units.size(), (unsigned long)rec.txn_commits, (unsigned long)rec.txn_aborts);
        else ctx.evf("workload done: steps=%zu", steps.size());
        // stop recording; the live wallet goes away cleanly (its files are not looked at any more)
        wn->UnloadWallet(w);
        simfs::Disarm();
        if (getenv("VERIF_C43_DUMP")) {
            const auto& log = simfs::Log();
            size_t u = 0;
            for (size_t i = 0; i < end; ++i) {
                while (u < rec.units.size() && rec.units[u].io1 <= i) ++u;
                fprintf(stderr, "io[%zu] %s ino=%u off=%lu len=%lu %s | unit %zu [%zu,%zu)%s\n", i, simfs::KindName(log[i].kind), log[i].ino, (unsigned long)log[i].off, (unsigned long)log[i].len, log[i].path.c_str(), u,
                        u < rec.units.size() ? rec.units[u].io0 : 0, u < rec.units.size() ? rec.units[u].io1 : 0, i == k0 ? "  <== k0" : "");
            }
            for (auto& s : steps) fprintf(stderr, "step op=%d '%s' io=[%zu,%zu) units=[%zu,%zu)\n", s.op, s.name.c_str(), s.io0, s.io1, s.u0, s.u1);
            for (size_t x = 0; x < rec.units.size(); ++x) {
                std::map<std::string, int> types;
                for (auto& lw : rec.units[x].w) types[std::string(lw.kind == 0 ? "put " : lw.kind == 1 ? "erase " : "erase-prefix ") + RecType(lw.key)]++;
                std::string t;
                for (auto& [k, n] : types) t += " " + k + "x" + std::to_string(n);
                fprintf(stderr, "unit %zu step=%d txn=%d io=[%zu,%zu):%s\n", x, rec.units[x].step, (int)rec.units[x].txn, rec.units[x].io0, rec.units[x].io1, t.c_str());
            }
        }
        if (ctx.knob("enumerate", 0)) {
            crashes.clear();
            for (size_t k = k0; k <= end; ++k) {
                Crash c;
                c.k = k;
                c.j = k;
                c.mode = CM_KILL;
                c.load = k % 4 == 0;
                c.plan_idx = (int)(k - k0);
                crashes.push_back(c);
                Crash p = c;
                p.mode = (k & 1) ? CM_POWER_SUBSET : CM_POWER_TAIL;
                p.seed = mix64(k, ctx.plan.seed);
                size_t back = (size_t)(mix64(k, 77) % 48);
                p.j = k - k0 > back ? k - back : k0;
                p.load = k % 8 == 1;
                crashes.push_back(p);
            }
            ctx.probe("enumerated_every_io_index");
        }
        { Timed tm("checkpoints"); BuildCheckpoints(end); }
        int n = 0;
        for (const Crash& c : crashes) {
            Crash cc = c;
            cc.k = std::clamp(cc.k, k0, end);
            cc.j = std::clamp(cc.j, k0, cc.k);
            Recover(cc, n++);
        }
        ctx.probe("recoveries", images);
        ctx.sim_ms = (uint64_t)(cs.now - start_time) * 1000;
        wn->Detach();
        node().Stop(true);
        g_timers.Dump();
    }
};

void Run(Ctx& ctx)
{
    PersistSim s(ctx);
    s.Run();
}

Engine MakeEngine()
{
    Engine e;
    e.prop = "C43";
    e.name = "crashsim/wallet";
    e.level = "fault_enumeration";
    e.gen = Gen;
    e.run = Run;
    e.describe = Describe;
    e.chunk = 1;
    e.quick_runs = 300;
    e.thorough_runs = 4000;
    e.quick_budget_s = 50;
    e.thorough_budget_s = 900;
    e.run_timeout_s = 600;
    e.rule = "each run = one history of a real descriptor wallet (CWallet on a production SQLite file: synchronous=FULL, rollback journal, exclusive locking; HD seeds from the plan) attached to a real regtest node: base chain of 102-108 "
             "blocks, blank wallet, then 30-120 operations (enumerating runs: 10-24): descriptor setup (one DB transaction), getnewaddress of all four output types (explicit top-up transaction + address), external payments into the mempool "
             "(to handed-out addresses, to keypool look-ahead scripts, to imported single-key descriptors), blocks, wallet sends, setlabel on own and foreign addresses, address-book removal, lockunspent lock/unlock (persistent and memory-only), "
             "importdescriptors (ranged/single-key/hardened range with one cache record per index, public/private, active/inactive, internal/external, re-import with a larger range), setwalletflag avoid_reuse, removal of confirmed transactions (also with an unknown txid: rolled back), "
             "keypoolrefill (one transaction per active descriptor), receive requests, encryptwallet (at most once, near the end), clean restarts (unload + load; every history ends with one). Knobs: keypool 2-6, per-run operation mix, "
             "crash density, three scripted scenarios made of ordinary operations (hardened-range descriptor made active + top-ups, lock upgrade + unlock, change descriptor re-imported as receiving), lock_upgrade / import_flip (1 run in 2 each: lockunspent persistent=true on a coin locked in memory only; importing the active change descriptor again as the receiving one). Faults: after most operations 1-4 crash points inside the I/O range of that operation "
             "(uniform, around the start/commit/end of each committed unit, around syncs) x {process kill, power loss dropping every not-yet-synced operation after a seeded durable prefix, power loss keeping an arbitrary subset of the "
             "not-yet-synced operations}; thorough tier, 1 run in 5: EVERY I/O index of the history x {kill, one power-loss variant}. Each crash image is rebuilt from the recorded file operations, opened by the wallet's SQLiteDatabase "
             "(hot-journal rollback + PRAGMA integrity_check), read back record by record, and (3 of 4 seeded points; every 4th/8th enumerated one) loaded by CWallet::LoadExisting without a chain. "
             "non-trivial = at least one payment or send reached the wallet; distinct = fingerprints of the harness's wallet record after each operation and of (crash index, semantics, recovered state). `recoveries` counts crash images "
             "evaluated; `evaluations` counts histories.";
    e.real_components = {"wallet::CWallet (SetupDescriptorScriptPubKeyMans, GetNewDestination, AddToWallet/SyncTransaction, CommitTransaction, SetAddressBook/DelAddressBook, LockCoin/UnlockCoin, AddWalletDescriptor, SetWalletFlag, RemoveTxs, "
                         "EncryptWallet/Unlock, LoadExisting/PopulateWalletFromDB, RemoveWallet)", "wallet::WalletBatch incl. LoadWallet, RunWithinTxn, TxnBegin/TxnCommit/TxnAbort and every Write*/Erase* record function",
                         "DescriptorScriptPubKeyMan (TopUp, MarkUnusedAddresses, UpdateWalletDescriptor, Encrypt)", "wallet::SQLiteDatabase / SQLiteBatch on the system SQLite library with production pragmas",
                         "SQLite pager: rollback journal, hot-journal recovery, integrity_check, VACUUM", "interfaces::Chain (node/interfaces.cpp), ChainstateManager, CTxMemPool, ValidationSignals (deferred task runner)"};
    e.stub_components = {"disk and page cache (simfs: recorded pass-through to tmpfs; crash = cut of the log + rebuild, with the engine's own image builder for the subset semantics)", "process crash (never a real kill)",
                         "a pass-through recorder between CWallet and SQLiteDatabase (WalletDatabase/DatabaseBatch decorator: logs the writes and transaction brackets the wallet issues, changes nothing)", "peers (PeerManager stub)",
                         "clock (SetMockTime)", "HD seed of descriptor setup (derived from the plan instead of GetStrongRandBytes; encryption keeps its real randomness)", "recovery loads the wallet without a chain (no rescan side effects)"};
    e.assumptions = {"oracle, clean restart: (A) the observation of the reloaded wallet (flags; per descriptor: string, range, next index, creation time, private descriptor string / encrypted-ness; active slots; address book incl. purpose, "
                     "used flag, receive requests; persistently locked coins; every CWalletTx as the wallet serializes it; next order position; master keys) equals the observation taken before the unload, except that the loader may extend "
                     "range_end to next_index+keypool; (B) it equals the harness's own record built from operation arguments and acknowledgements (addresses handed out and their labels/purposes, locks, flags, imported descriptors with range and "
                     "next index, active slots, transactions with their confirming block, encryption); encrypted wallets must unlock with the passphrase after the final restart and export every private descriptor",
                     "oracle, crash: the image opens (integrity_check ok); its records equal the reference key-value store (replay of the logical writes the wallet issued) after exactly the units committed before the crash index, or "
                     "additionally the one in flight; never a state strictly inside the writes of an update the statement lists as ONE transaction (harness-declared: descriptor setup, the encryption rewrite, each keypool top-up, transaction "
                     "removal, address-book removal) even if the wallet issued them as several units; the wallet loads without error or warning; if the records are those of a step boundary the loaded wallet equals (A) the live wallet "
                     "observed after that step and (B) the harness's record of that step; an encrypted image unlocks",
                     "after every step the live database holds exactly the committed writes (an aborted transaction leaves nothing), no witness-variant record without its transaction record, and the in-memory wallet equals the harness's record",
                     "every crash image: no address-book `name` record without its `purpose` record (all entries of these histories are created with a purpose; the wallet writes the purpose first)",
                     "importdescriptors (AddWalletDescriptor) is NOT one DB transaction in this tree (only the external-signer import inside descriptor setup is): it is judged as a sequence of individually committed writes",
                     "power-loss model: an fdatasync of an inode makes its earlier writes durable; a not-yet-synced write may or may not survive, in any combination, at whole-write granularity (no torn sectors)",
                     "class restart-unlocked-coin-locked-again (found by this engine, repaired in /repo): lockunspent persistent=true on a coin already locked in memory wrote the DB record but left the in-memory flag 'not persistent'; a later "
                     "unlock did not erase the record and the coin was locked again after a restart. The live comparison tolerates the wrong in-memory flag so that the defect is reported where the statement is violated (the restart)",
                     "class restart-descriptor-made-receiving-is-change-again (found by this engine, repaired in /repo): importing the active change descriptor of a type again as active receiving descriptor left the activeinternalspk record; "
                     "after a restart the descriptor was the change descriptor again and the type had no receiving descriptor",
                     "'descriptor setup and import' of the statement is read as the two bracketed paths of SetupDescriptorScriptPubKeyMans (own descriptors; external-signer import, not buildable here); importdescriptors = sequence of atomic writes",
                     "after encryptwallet key material, addresses and file bytes differ from run to run: nothing derived from them enters the trace; crash positions inside and after that step are reproducible only approximately"};
    e.expected_probes = {"descriptor_setup", "new_address", "receive_unconfirmed", "receive_on_keypool_lookahead", "receive_on_imported_descriptor", "wallet_tx_confirmed", "wallet_send", "label_receiving_address", "label_sending_address",
                         "address_book_entry_removed", "coin_locked_persistently", "coin_locked_in_memory", "coin_unlocked", "import_new_descriptor", "import_hardened_range_descriptor", "import_updates_existing_descriptor", "import_active_descriptor", "import_with_private_keys",
                         "wallet_flag_changed", "wallet_tx_removed", "tx_removal_rolled_back", "db_transaction_aborted", "keypool_topup", "receive_request", "wallet_encrypted", "encrypted_wallet_unlocked_after_restart", "clean_restart",
                         "clean_restart_with_transactions", "recoveries", "crash_kill", "crash_powerloss_tail_dropped", "crash_powerloss_subset_kept", "crash_between_updates", "crash_in_flight_update_absent", "crash_in_flight_update_present",
                         "crash_inside_multi_record_transaction", "unsynced_io_dropped", "unsynced_io_kept_out_of_order", "wallet_loaded_from_crash_image", "crash_image_compared_with_step_state", "crash_image_unlocked_with_passphrase",
                         "memory_only_lock_made_persistent", "active_change_descriptor_made_receiving"};
    return e;
}
Engine g_engine = MakeEngine();
SIM_REGISTER_ENGINE(g_engine);

} // namespace
