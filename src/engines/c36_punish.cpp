// C36 — peers are punished only for what the rules say, never for transactions.
// peersim: one real node (chainstate + mempool + PeerManager + CConnman bookkeeping) and 2-8 scripted peers over every
// connection type x permission set x local/non-local address, in blocks-only mode or not. The simulator delivers `tx`
// messages of every defect kind, full `block` messages with consensus-invalid contents, `headers` with invalid proof of
// work or broken continuity, and noise, in seeded order with seeded msghand ticks; it watches fDisconnect and the
// discouragement filter after every tick.
#include "../core/sim.h"
#include "../nodesim/chainsim.h"
#include "../nodesim/mempoolsim.h"
#include "../nodesim/peersim.h"

#include <consensus/validation.h>
#include <protocol.h>
#include <streams.h>
#include <util/time.h>

using namespace sim;
using namespace nodesim;

namespace {

enum { P_TX = 400, P_BLOCK, P_HEADERS, P_NOISE, P_TICK, P_CLOCK, P_VALID_BLOCK, P_FORK, P_NOPS_END };
enum TxKind { TK_VALID = 0, TK_BAD_SIG, TK_NONSTANDARD, TK_ORPHAN, TK_CONFLICT, TK_UNDECODABLE, TK_OVERSIZE, TK_WITNESS_STRIPPED, TK_PREMATURE, TK_BELOW_FEE, TK_DUPLICATE, TK_NKINDS };
static const char* kTxKind[TK_NKINDS] = {"valid", "bad-signature", "non-standard", "orphan", "conflicting", "undecodable", "oversize", "witness-stripped", "premature-coinbase-spend", "below-min-fee", "duplicate"};
static const ConnectionType kConn[] = {ConnectionType::INBOUND, ConnectionType::OUTBOUND_FULL_RELAY, ConnectionType::MANUAL, ConnectionType::BLOCK_RELAY, ConnectionType::INBOUND, ConnectionType::OUTBOUND_FULL_RELAY};
static const NetPermissionFlags kPerm[] = {NetPermissionFlags::None, NetPermissionFlags::None, NetPermissionFlags::NoBan, NetPermissionFlags::Relay, NetPermissionFlags::ForceRelay, NetPermissionFlags::Download, NetPermissionFlags::Mempool, NetPermissionFlags::None};

std::string Describe(const Op& op)
{
    char b[200];
    switch (op.kind) {
    case P_TX: snprintf(b, sizeof b, "peer#%ld sends tx(%s, seed=%ld)", (long)op.arg(0), kTxKind[op.mod(1, TK_NKINDS)], (long)op.arg(2)); break;
    case P_BLOCK: snprintf(b, sizeof b, "peer#%ld sends full block with defect %s (seed=%ld)", (long)op.arg(0), DefectName((int)op.mod(1, D_NDEFECTS)), (long)op.arg(2)); break;
    case P_VALID_BLOCK: snprintf(b, sizeof b, "peer#%ld sends a valid block (ntx=%ld)", (long)op.arg(0), (long)op.arg(1)); break;
    case P_HEADERS: snprintf(b, sizeof b, "peer#%ld sends headers(kind=%ld)", (long)op.arg(0), (long)op.arg(1)); break;
    case P_NOISE: snprintf(b, sizeof b, "peer#%ld sends noise(kind=%ld)", (long)op.arg(0), (long)op.arg(1)); break;
    case P_TICK: snprintf(b, sizeof b, "msghand tick peer#%ld x%ld", (long)op.arg(0), (long)op.arg(1)); break;
    case P_CLOCK: snprintf(b, sizeof b, "clock += %lds", (long)op.arg(0)); break;
    case P_FORK: snprintf(b, sizeof b, "peer#%ld pushes an unsolicited low-work block with a connect-time defect, then peer#%ld announces a longer branch through it and serves the requested blocks (seed=%ld)", (long)op.arg(0), (long)op.arg(1), (long)op.arg(2)); break;
    default: snprintf(b, sizeof b, "?");
    }
    return b;
}

Plan Gen(uint64_t seed, Tier tier)
{
    Rng rng(seed);
    Plan p;
    p.knobs["base"] = rng.range(102, 108);
    p.knobs["on_disk"] = 0;
    p.knobs["coins_cache_kb"] = 8192;
    p.knobs["batch_bytes"] = 16 << 20;
    p.knobs["mempool_kb"] = 300000;
    p.knobs["blocksonly"] = rng.chance(1, 4);
    int npeers = (int)rng.range(2, 8);
    p.knobs["peers"] = npeers;
    for (int i = 0; i < npeers; ++i) {
        p.knobs["p" + std::to_string(i) + "_conn"] = rng.below(6);
        p.knobs["p" + std::to_string(i) + "_perm"] = rng.below(8);
        p.knobs["p" + std::to_string(i) + "_local"] = rng.chance(1, 4);
        p.knobs["p" + std::to_string(i) + "_relay"] = rng.chance(5, 6);
    }
    int nops = (int)rng.range(20, tier == Tier::THOROUGH ? 120 : 60);
    for (int i = 0; i < nops; ++i) {
        Op op;
        op.kind = P_TX + (int)rng.pick({50, 10, 8, 8, 10, 3, 6, 4});
        switch (op.kind) {
        case P_TX: op.a = {(int64_t)rng.below(npeers), (int64_t)rng.below(TK_NKINDS), (int64_t)(rng.next() >> 16)}; break;
        case P_BLOCK: op.a = {(int64_t)rng.below(npeers), (int64_t)rng.pick({0, 8, 8, 4, 4, 4, 6, 4, 6, 6, 6, 3, 6, 6, 6, 6, 6, 8, 6, 6, 0, 0, 0, 5, 5, 5, 0}), (int64_t)(rng.next() >> 16)}; break;
        case P_VALID_BLOCK: op.a = {(int64_t)rng.below(npeers), (int64_t)rng.range(0, 3), (int64_t)(rng.next() >> 16)}; break;
        case P_HEADERS: op.a = {(int64_t)rng.below(npeers), (int64_t)rng.below(3), (int64_t)(rng.next() >> 16)}; break;
        case P_NOISE: op.a = {(int64_t)rng.below(npeers), (int64_t)rng.below(6), (int64_t)(rng.next() >> 16)}; break;
        case P_TICK: op.a = {(int64_t)rng.below(npeers), (int64_t)rng.range(1, 3)}; break;
        case P_CLOCK: op.a = {(int64_t)rng.skewed(1, 1200)}; break;
        case P_FORK: op.a = {(int64_t)rng.below(npeers), (int64_t)rng.below(npeers), (int64_t)(rng.next() >> 16)}; break;
        }
        p.ops.push_back(op);
    }
    return p;
}

struct Sim {
    Ctx& ctx;
    MempoolSim ms;
    std::unique_ptr<NetNode> net;
    bool blocksonly{false};
    // Attribution of a flag change to its cause. Timeouts (block download, chain sync, ping, inactivity) need the clock to
    // advance; punishments for protocol violations happen in the tick that follows the offending message. A change is
    // therefore attributable to transactions only if, since this peer's flags were last observed, (a) the mock clock has not
    // moved and (b) the peer's only input was `tx` messages.
    struct PState { bool disc{false}, discouraged{false}; bool nontx_input{false}; bool tx_input{false}; int64_t last_tick_clock{-1}; bool clock_moved{true}; };
    std::vector<PState> st;

    explicit Sim(Ctx& c) : ctx(c), ms(c, MempoolSimConfig{.check_consistency = false}) {}

    bool TxAllowed(const SimPeer& p) const
    {
        if (p.opts.conn_type == ConnectionType::BLOCK_RELAY) return false;
        if (blocksonly && !(NetPermissions::HasFlag(p.opts.permissions, NetPermissionFlags::Relay))) return false;
        return true;
    }
    bool Exempt(const SimPeer& p) const { return NetPermissions::HasFlag(p.opts.permissions, NetPermissionFlags::NoBan) || p.opts.conn_type == ConnectionType::MANUAL; }

    void Observe(const char* where, int)
    {
        for (size_t i = 0; i < net->peers.size(); ++i) {
            SimPeer& p = *net->peers[i];
            bool disc = p.node->fDisconnect.load();
            bool dg = net->Discouraged(p);
            PState& s = st[i];
            bool changed = (disc && !s.disc) || (dg && !s.discouraged);
            const bool clock_moved = s.clock_moved; // did the clock move between this peer's previous msghand tick and the one that revealed the change
            if (changed) {
                if (dg && p.addr.IsLocal()) ctx.failf("local-peer-discouraged", "%s: peer#%zu has a local address but was discouraged", where, i);
                if (dg && Exempt(p)) ctx.failf("exempt-peer-punished", "%s: peer#%zu (%s) was discouraged", where, i, p.opts.conn_type == ConnectionType::MANUAL ? "manual" : "noban");
                if (!clock_moved) {
                    // not a timeout: it is a reaction to what this peer sent
                    const bool protocol_violation_tx = s.tx_input && !s.nontx_input && !TxAllowed(p); // tx to a blocks-only node / over a block-relay link
                    // (Exempt peers can still be disconnected for plain protocol violations that do not go through the misbehaviour
                    // mechanism, e.g. a `mempool` request without NODE_BLOOM or a tx sent to a blocks-only node; their exemption is
                    // checked where the harness KNOWS the input is a misbehaviour: ExpectPunished.)
                    (void)protocol_violation_tx;
                    if (TxAllowed(p) && !s.nontx_input) ctx.failf("punished-for-transaction", "%s: peer#%zu is allowed to send transactions, its only input since the last check was %s and the clock did not move, but fDisconnect=%d discouraged=%d", where, i, s.tx_input ? "tx messages" : "nothing", disc, dg);
                } else {
                    ctx.probe("flag_change_after_clock_advance");
                }
                ctx.probe(dg ? "peer_discouraged" : "peer_disconnected");
            }
            s.disc = disc;
            s.discouraged = dg;
            s.nontx_input = false;
            s.tx_input = false;
        }
    }

    void TickPeer(SimPeer& p, int max_msgs)
    {
        PState& s = st[p.idx];
        s.clock_moved = s.last_tick_clock != ms.cs.now;
        s.last_tick_clock = ms.cs.now;
        net->Tick(p, max_msgs);
    }

    /** A tick with no new input at the current clock: lets every pending timer fire before an attributable event. */
    void PreTick(SimPeer& p, const char* where)
    {
        TickPeer(p, 4);
        Observe(where, p.idx);
    }

    void ExpectPunished(SimPeer& p, const char* why)
    {
        if (Exempt(p)) {
            if (p.node->fDisconnect.load() || net->Discouraged(p)) ctx.failf("exempt-peer-punished", "peer#%d (%s) %s and got fDisconnect=%d discouraged=%d", p.idx, p.opts.conn_type == ConnectionType::MANUAL ? "manual" : "noban", why, (int)p.node->fDisconnect.load(), (int)net->Discouraged(p));
            ctx.probe("exempt_peer_misbehaved");
            return;
        }
        if (!p.node->fDisconnect.load()) ctx.failf("misbehaving-peer-not-disconnected", "peer#%d %s but fDisconnect is not set after the next SendMessages", p.idx, why);
        bool dg = net->Discouraged(p);
        if (p.addr.IsLocal()) { if (dg) ctx.failf("local-peer-discouraged", "peer#%d (local address) %s and was discouraged", p.idx, why); ctx.probe("local_peer_disconnected_not_discouraged"); }
        else if (!dg) ctx.failf("misbehaving-peer-not-discouraged", "peer#%d (non-local) %s but is not discouraged", p.idx, why);
        ctx.probe("misbehaviour_punished");
    }

    void Run()
    {
        blocksonly = ctx.knob("blocksonly", 0) != 0;
        ms.Setup();
        PeerManager::Options po;
        po.ignore_incoming_txs = blocksonly;
        net = std::make_unique<NetNode>(ms.node(), po);
        int npeers = (int)std::clamp<int64_t>(ctx.knob("peers", 3), 1, 16);
        for (int i = 0; i < npeers; ++i) {
            PeerOpts o;
            std::string k = "p" + std::to_string(i);
            o.conn_type = kConn[ctx.knob(k + "_conn", 0) % 6];
            o.permissions = kPerm[ctx.knob(k + "_perm", 0) % 8];
            o.local_addr = ctx.knob(k + "_local", 0) != 0;
            o.relay_txs = ctx.knob(k + "_relay", 1) != 0;
            if (o.conn_type != ConnectionType::INBOUND) o.permissions = NetPermissions::HasFlag(o.permissions, NetPermissionFlags::NoBan) ? NetPermissionFlags::NoBan : NetPermissionFlags::None; // permissions are an inbound/whitelist concept
            net->AddPeer(o);
        }
        st.assign(npeers, PState{});
        Observe("after handshakes", -1);
        const Keyring& kr = Keys();
        for (const Op& op : ctx.plan.ops) {
            SimPeer& p = *net->peers[op.mod(0, npeers)];
            if (p.finalized || p.node->fDisconnect.load()) { ctx.evf("skip %s (peer gone)", Describe(op).c_str()); if (op.kind != P_CLOCK) continue; }
            switch (op.kind) {
            case P_TX: {
                Rng r(mix64((uint64_t)op.arg(2), 0x747878));
                int kind = (int)op.mod(1, TK_NKINDS);
                auto conf = ms.FreeConfirmed();
                std::vector<MempoolSim::Spendable> std_conf, bare;
                for (auto& s : conf) (kr.Classify(s.coin.spk).kind == SK::TRUE_BARE ? bare : std_conf).push_back(s);
                CTransactionRef tx;
                std::vector<unsigned char> raw;
                auto one_out = [&](CAmount) { return std::vector<CTxOut>{CTxOut(0, kr.Spk(SK::P2WPKH, (int)r.below(N_KEYS)))}; };
                if (std_conf.empty()) break;
                auto pick = [&] { return std_conf[r.below(std_conf.size())]; };
                switch (kind) {
                case TK_VALID: tx = ms.MakeTx({pick()}, one_out(0), 2000, 0, 2, 0, {}, SigDefect::NONE, TS_SIMPLE); break;
                case TK_BAD_SIG: { auto s = pick(); tx = ms.MakeTx({s}, one_out(0), 2000, 0, 2, 0, {}, kr.Classify(s.coin.spk).kind == SK::TRUE_WSH ? SigDefect::WRONG_KEY : SigDefect::BAD_SIG, TS_INVALID); break; }
                case TK_NONSTANDARD: tx = ms.MakeTx({pick()}, {CTxOut(20000, kr.Spk(SK::TRUE_BARE, 1)), CTxOut(0, kr.Spk(SK::P2WPKH, 0))}, 2000, 0, 2, 0, {}, SigDefect::NONE, TS_NONSTANDARD, false); break;
                case TK_ORPHAN: { auto s = pick(); s.op = COutPoint(Txid::FromUint256(uint256{(uint8_t)(1 + r.below(250))}), (uint32_t)r.below(3)); tx = ms.MakeTx({s}, one_out(0), 2000, 0, 2, 0, {}, SigDefect::NONE, TS_INVALID); break; }
                case TK_CONFLICT: {
                    auto infos = ms.pool().infoAll();
                    if (infos.empty()) { tx = ms.MakeTx({pick()}, one_out(0), 2000, 0, 2, 0, {}, SigDefect::NONE, TS_SIMPLE); break; }
                    auto victim = infos[r.below(infos.size())].tx;
                    auto it = ms.TipUtxo().find(victim->vin[0].prevout);
                    if (it == ms.TipUtxo().end() || !kr.CanSpend(it->second.spk)) break;
                    tx = ms.MakeTx({{victim->vin[0].prevout, it->second, true}}, one_out(0), (int64_t)r.pick({1, 1}) ? 100 : 50000, 0, 2, 0, {}, SigDefect::NONE, TS_CONFLICT);
                    break;
                }
                case TK_UNDECODABLE: raw.resize(r.range(1, 60)); r.fill(raw.data(), raw.size()); break;
                case TK_OVERSIZE: tx = ms.MakeTx({pick()}, {CTxOut(0, CScript() << OP_RETURN << std::vector<unsigned char>(110000, 1)), CTxOut(0, kr.Spk(SK::P2WPKH, 0))}, 2000, 0, 2, 0, {}, SigDefect::NONE, TS_NONSTANDARD, false); break;
                case TK_WITNESS_STRIPPED: { auto s = pick(); tx = ms.MakeTx({s}, one_out(0), 2000, 0, 2, 0, {}, SigDefect::STRIP_WITNESS, TS_INVALID); break; }
                case TK_PREMATURE: {
                    int next_h = ms.cs.ref->blocks[ms.TipIdx()].height + 1;
                    for (auto& [o, c] : ms.TipUtxo())
                        if (c.coinbase && next_h - c.height < 100 && kr.CanSpend(c.spk) && kr.Classify(c.spk).kind != SK::TRUE_BARE) { tx = ms.MakeTx({{o, c, true}}, one_out(0), 2000, 0, 2, 0, {}, SigDefect::NONE, TS_INVALID); break; }
                    break;
                }
                case TK_BELOW_FEE: tx = ms.MakeTx({pick()}, one_out(0), 10, 0, 2, 0, {}, SigDefect::NONE, TS_BELOW_MINFEE); break;
                case TK_DUPLICATE: if (!ms.made_order.empty()) tx = ms.made[ms.made_order[r.below(ms.made_order.size())]].tx; break;
                }
                if (!tx && raw.empty()) break;
                PreTick(p, "before tx");
                if (p.node->fDisconnect.load()) break;
                if (tx) net->SendMsg(p, NetMsgType::TX, TX_WITH_WITNESS(*tx));
                else net->SendRaw(p, NetMsgType::TX, raw);
                st[p.idx].tx_input = true;
                TickPeer(p, 2);
                ctx.evf("tx %s from peer#%d -> disc=%d discouraged=%d pool=%lu", kTxKind[kind], p.idx, (int)p.node->fDisconnect.load(), (int)net->Discouraged(p), ms.pool().size());
                ctx.probe("tx_message_delivered");
                if (TxAllowed(p)) ctx.nontrivial = true;
                Observe(Describe(op).c_str(), p.idx);
                continue;
            }
            case P_BLOCK:
            case P_VALID_BLOCK: {
                int defect = op.kind == P_BLOCK ? (int)op.mod(1, D_NDEFECTS) : D_NONE;
                if (defect == D_BAD_POW) defect = D_CB_OVERPAY; // invalid PoW is exercised through `headers`
                int tip = ms.TipIdx();
                int idx = ms.cs.MineOn(tip, op.kind == P_BLOCK ? 2 : (int)op.mod(1, 4), (uint64_t)op.arg(2), defect, B_NONE, 0);
                const RefBlock& B = ms.cs.ref->blocks[idx];
                PreTick(p, "before block"); // after mining: building the block may have moved the clock
                if (p.node->fDisconnect.load()) break;
                st[p.idx].nontx_input = true;
                net->SendMsg(p, NetMsgType::BLOCK, TX_WITH_WITNESS(*B.block));
                TickPeer(p, 2);
                ms.cs.delivered[idx] = 1;
                ctx.evf("block #%d verdict=%d(%s) from peer#%d -> disc=%d discouraged=%d tip_h=%d", idx, (int)B.verdict, B.reason.c_str(), p.idx, (int)p.node->fDisconnect.load(), (int)net->Discouraged(p), ms.node().Height());
                Observe(Describe(op).c_str(), p.idx);
                if (B.verdict == Verdict::INVALID && ms.cs.ref->blocks[tip].verdict == Verdict::VALID) ExpectPunished(p, "sent a full block that is consensus-invalid when validated");
                else if (B.verdict == Verdict::VALID) {
                    if (ms.TipIdx() != idx) ctx.failf("valid-block-from-peer-not-connected", "block #%d", idx);
                    ctx.probe("valid_block_from_peer");
                }
                ms.cs.CheckAll(Describe(op).c_str());
                break;
            }
            case P_HEADERS: {
                int kind = (int)op.mod(1, 3);
                int tip = ms.TipIdx();
                const RefBlock& T = ms.cs.ref->blocks[tip];
                std::vector<CBlock> hdrs;
                auto mk = [&](const uint256& prev, int64_t time, bool bad_pow) {
                    CBlock h;
                    h.nVersion = 0x20000000;
                    h.hashPrevBlock = prev;
                    h.hashMerkleRoot = uint256{(uint8_t)(op.arg(2) & 0xff)};
                    h.nTime = (uint32_t)time;
                    h.nBits = T.block->nBits;
                    Grind(h, ms.node().params->GetConsensus(), bad_pow);
                    return h;
                };
                int64_t t = std::max<int64_t>(ms.cs.ref->MTP(tip) + 1, ms.cs.now);
                if (kind == 0) { hdrs.push_back(mk(T.hash, t, /*bad_pow=*/true)); }
                else if (kind == 1) { hdrs.push_back(mk(T.hash, t, false)); hdrs.push_back(mk(uint256{9}, t + 1, false)); } // non-continuous
                else { hdrs.push_back(mk(T.hash, t, false)); }                                                            // fine
                PreTick(p, "before headers");
                if (p.node->fDisconnect.load()) break;
                st[p.idx].nontx_input = true;
                net->SendMsg(p, NetMsgType::HEADERS, TX_WITH_WITNESS(hdrs));
                TickPeer(p, 2);
                ctx.evf("headers kind=%d from peer#%d -> disc=%d discouraged=%d", kind, p.idx, (int)p.node->fDisconnect.load(), (int)net->Discouraged(p));
                Observe(Describe(op).c_str(), p.idx);
                if (kind == 0) ExpectPunished(p, "sent headers with invalid proof of work");
                break;
            }
            case P_FORK: {
                // The sender of an invalid block must be the one punished even if somebody else showed the node the same block
                // earlier without it being validated: peer A pushes block X (valid header, coinbase overpays: only ConnectBlock can
                // tell) on a branch with LESS work than the tip, so the node ignores it; peer B then announces X and two blocks on top
                // (more work than the tip), the node asks B for them, B serves them, X fails when it is connected.
                SimPeer& b = *net->peers[op.mod(1, npeers)];
                if (&b == &p || b.finalized || b.node->fDisconnect.load()) break;
                int tip = ms.TipIdx();
                int par = tip > 0 ? ms.cs.ref->blocks[tip].parent : -1;
                int gp = par > 0 ? ms.cs.ref->blocks[par].parent : -1;
                if (gp <= 0) break;
                const uint64_t sd = (uint64_t)op.arg(2);
                int x = ms.cs.MineOn(gp, 0, sd, D_CB_OVERPAY, B_NONE, 1);
                int y = ms.cs.MineOn(x, 0, sd + 1, D_NONE, B_NONE, 1);
                int z = ms.cs.MineOn(y, 0, sd + 2, D_NONE, B_NONE, 1);
                auto blk = [&](int i) -> const CBlock& { return *ms.cs.ref->blocks[i].block; };
                PreTick(p, "before unsolicited fork block");
                if (p.node->fDisconnect.load()) break;
                st[p.idx].nontx_input = true;
                net->SendMsg(p, NetMsgType::BLOCK, TX_WITH_WITNESS(blk(x)));
                TickPeer(p, 2);
                Observe("unsolicited low-work block", p.idx);
                const bool a_gone = p.node->fDisconnect.load();
                if (WITH_LOCK(cs_main, const CBlockIndex* pi = ms.node().cm().m_blockman.LookupBlockIndex(blk(x).GetHash()); return pi && (pi->nStatus & BLOCK_HAVE_DATA))) { ctx.probe("fork_block_was_stored"); break; }
                PreTick(b, "before fork headers");
                if (b.node->fDisconnect.load()) break;
                net->Take(b, NetMsgType::GETDATA);
                st[b.idx].nontx_input = true;
                std::vector<CBlock> hdrs{CBlock(static_cast<const CBlockHeader&>(blk(x))), CBlock(static_cast<const CBlockHeader&>(blk(y))), CBlock(static_cast<const CBlockHeader&>(blk(z)))};
                net->SendMsg(b, NetMsgType::HEADERS, TX_WITH_WITNESS(hdrs));
                for (int i : {x, y, z}) ms.cs.header_given[i] = 1;
                bool served_x = false;
                for (int round = 0; round < 3 && !served_x; ++round) {
                    TickPeer(b, 2);
                    if (b.node->fDisconnect.load()) break;
                    for (const SentMsg& m : net->Take(b, NetMsgType::GETDATA)) {
                        DataStream ds{m.payload};
                        std::vector<CInv> invs;
                        ds >> invs;
                        for (const CInv& inv : invs) {
                            if (!inv.IsGenBlkMsg()) continue;
                            for (int i : {x, y, z})
                                if (inv.hash == blk(i).GetHash()) {
                                    net->SendMsg(b, NetMsgType::BLOCK, TX_WITH_WITNESS(blk(i)));
                                    ms.cs.delivered[i] = 1;
                                    if (i == x) served_x = true;
                                }
                        }
                    }
                }
                if (!served_x) { ctx.probe("fork_not_requested_from_announcer"); Observe("fork announced", b.idx); break; }
                TickPeer(b, 4);
                ctx.evf("fork: X=#%d unsolicited from peer#%d (gone=%d), served on request by peer#%d -> disc=%d discouraged=%d", x, p.idx, (int)a_gone, b.idx, (int)b.node->fDisconnect.load(), (int)net->Discouraged(b));
                ctx.probe("invalid_block_served_after_unsolicited_copy");
                Observe(Describe(op).c_str(), b.idx);
                ExpectPunished(b, "served, on request, a full block that is consensus-invalid when validated (an unsolicited copy from another peer had been ignored earlier)");
                ms.cs.CheckAll(Describe(op).c_str());
                break;
            }
            case P_NOISE: {
                Rng r(mix64((uint64_t)op.arg(2), 0x6e6f));
                st[p.idx].nontx_input = true;
                switch (op.mod(1, 6)) {
                case 0: net->SendMsg(p, NetMsgType::PING, (uint64_t)r.next()); break;
                case 1: { std::vector<CInv> inv{CInv(MSG_WTX, uint256{(uint8_t)r.below(255)})}; net->SendMsg(p, NetMsgType::INV, inv); break; }
                case 2: { std::vector<CInv> inv{CInv(MSG_WITNESS_TX, uint256{(uint8_t)r.below(255)})}; net->SendMsg(p, NetMsgType::GETDATA, inv); break; }
                case 3: net->SendMsg(p, NetMsgType::MEMPOOL); break;
                case 4: net->SendMsg(p, NetMsgType::GETADDR); break;
                default: net->SendMsg(p, NetMsgType::FEEFILTER, (int64_t)r.below(100000)); break;
                }
                TickPeer(p, 2);
                ctx.evf("noise %ld from peer#%d -> disc=%d", (long)op.mod(1, 6), p.idx, (int)p.node->fDisconnect.load());
                Observe(Describe(op).c_str(), p.idx);
                break;
            }
            case P_TICK:
                TickPeer(p, (int)std::clamp<int64_t>(op.arg(1), 1, 4));
                Observe(Describe(op).c_str(), p.idx);
                continue;
            case P_CLOCK:
                ms.cs.now += std::clamp<int64_t>(op.arg(0), 1, 100000);
                SetMockTime(std::chrono::seconds{ms.cs.now});
                for (auto& q : net->peers) TickPeer(*q, 1);
                Observe(Describe(op).c_str(), -1);
                continue;
            }
        }
        ctx.fingerprint(mix64(net->capture_seq, ms.pool().size()));
        ctx.sim_ms = (uint64_t)(ms.cs.now - ms.cs.start_time) * 1000;
        net.reset();
        ms.Finish();
    }
};

void Run(Ctx& ctx)
{
    Sim s(ctx);
    s.Run();
}

Engine MakeEngine()
{
    Engine e;
    e.prop = "C36";
    e.name = "peersim/punishment";
    e.level = "exploration";
    e.gen = Gen;
    e.run = Run;
    e.describe = Describe;
    e.chunk = 1;
    e.quick_runs = 1000;
    e.thorough_runs = 20000;
    e.quick_budget_s = 75;
    e.thorough_budget_s = 1200;
    e.rule = "each run = one real node with 2-8 scripted peers (connection type in {inbound, outbound-full-relay, manual, block-relay-only}, permissions in {none, noban, relay, forcerelay, download, mempool}, "
             "local or routable address, relay flag; node in blocks-only mode in 1/4 of runs) and 20-120 seeded events: tx messages of 11 kinds (valid, bad signature, non-standard, orphan, conflicting, undecodable, "
             "oversize, witness-stripped, premature coinbase spend, below min fee, duplicate), full blocks with one consensus defect built on the tip, valid blocks, headers with invalid PoW / broken continuity / fine, noise "
             "(ping, inv, getdata, mempool, getaddr, feefilter), msghand ticks, clock steps. After every event fDisconnect and the discouragement filter of every peer are compared with the rules of the statement. "
             "non-trivial = at least one tx message from a tx-allowed peer; distinct = distinct (messages sent by the node, mempool size) fingerprints.";
    e.real_components = {"PeerManagerImpl::ProcessMessage/SendMessages/Misbehaving/MaybeDiscourageAndDisconnect", "TxDownloadManager, orphanage, reject filters", "CConnman node bookkeeping, V1 transport framing of incoming messages", "BanMan discouragement filter", "validation + mempool"};
    e.stub_components = {"sockets (ZeroSock; outgoing messages captured through the CaptureMessage seam)", "net/msghand threads (their loop bodies are simulator events)", "remote peers (scripted)", "clock (SetMockTime)"};
    e.assumptions = {"a peer is 'allowed to send transactions' unless it is a block-relay-only connection or the node is in blocks-only mode and the peer lacks the relay permission",
                     "clause 3 is checked for the first delivery of a consensus-invalid block built on the current tip (so it is validated immediately) and for headers whose hash misses their own nBits"};
    e.expected_probes = {"tx_message_delivered", "misbehaviour_punished", "exempt_peer_misbehaved", "local_peer_disconnected_not_discouraged", "valid_block_from_peer", "peer_discouraged"};
    return e;
}
Engine g_engine = MakeEngine();
SIM_REGISTER_ENGINE(g_engine);

} // namespace
