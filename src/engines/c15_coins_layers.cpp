// C15 — layered coin caches behave like a single map and never lose or resurrect coins.
// compsim (store with dirty restart): 1-3 real CCoinsViewCache layers over a real CCoinsViewDB (LevelDB in memory, or on disk
// under simfs with a tiny batch_write_bytes so that partial batches with DB_HEAD_BLOCKS are dense), driven by seeded
// histories over a domain of 1-12 outpoints, against a per-layer std::map overlay model.
// Faults: dirty restart (all cache layers dropped unflushed, database closed and reopened) and crash inside
// CCoinsViewDB::BatchWrite (the recorded I/O log is cut at points inside the BatchWrite windows: process kill and power loss).
//
// Workload discipline (the documented API contract, as in coins_tests.cpp / fuzz/coins_view.cpp):
//  * coins are added / spent only through the top cache of the stack (lower layers must not change under a child);
//  * AddCoin(possible_overwrite=false) only when the view has no unspent coin for the outpoint;
//  * any layer may be read, uncached, synced or flushed at any time; Reset of a layer first discards the layers above it;
//  * a layer gets a non-null best block before it is flushed/synced (CCoinsViewDB::BatchWrite requires it).
#include "../core/sim.h"
#include "../simfs/simfs.h"

#include <coins.h>
#include <dbwrapper.h>
#include <memusage.h>
#include <primitives/transaction.h>
#include <script/script.h>
#include <txdb.h>
#include <uint256.h>
#include <util/fs.h>
#include <util/threadpool.h>

#include <filesystem>
#include <malloc.h>
#include <map>
#include <memory>
#include <optional>
#include <set>
#include <stdexcept>
#include <vector>

using namespace sim;

namespace {

enum OpKind { ADD, SPEND, READ, UNCACHE, SYNC, FLUSH, PUSH, POP, RESET, SETBEST, GETBEST, RESTART, CRASH, N_OPS };

constexpr int MAX_LAYERS = 3;
constexpr int64_t kMaxMoney = 2100000000000000LL;

// ---------------------------------------------------------------------------------------------
// model

struct MCoin {
    int64_t value{0};
    std::vector<unsigned char> spk;
    uint32_t height{0};
    bool cb{false};
    bool operator==(const MCoin& o) const { return value == o.value && spk == o.spk && height == o.height && cb == o.cb; }
    bool operator!=(const MCoin& o) const { return !(*this == o); }
};
using MaybeCoin = std::optional<MCoin>;

struct MLayer {
    std::map<int, MaybeCoin> delta; //!< outpoints modified in this layer since it last pushed to its parent; nullopt = spent
    int best{-1};                   //!< block id of the layer, -1 = not set (null hash)
};
struct MDb {
    std::map<int, MCoin> coins;
    int best{-1};
};

uint64_t HashCoin(const MCoin& c)
{
    uint64_t h = mix64((uint64_t)c.value, ((uint64_t)c.height << 1) | c.cb);
    for (unsigned char b : c.spk) h = h * 1099511628211ULL ^ b;
    return mix64(h, c.spk.size());
}

// ---------------------------------------------------------------------------------------------
// deterministic data derived from small integers

COutPoint Outpoint(int i)
{
    uint256 h;
    int g = i / 3;
    for (int j = 0; j < 32; ++j) *(h.begin() + j) = (unsigned char)(0x21 * (g + 1) + j * 5);
    static const uint32_t ns[3] = {0, 1, 70000};
    return COutPoint(Txid::FromUint256(h), ns[i % 3] + (i % 3 == 2 ? (uint32_t)g : 0));
}

uint256 BlockHash(int id)
{
    uint256 h;
    if (id < 0) return h;
    for (int j = 0; j < 32; ++j) *(h.begin() + j) = (unsigned char)(0xb0 + j);
    *(h.begin() + 0) = (unsigned char)(id & 0xff);
    *(h.begin() + 1) = (unsigned char)((id >> 8) & 0xff);
    *(h.begin() + 2) = (unsigned char)((id >> 16) & 0xff);
    return h;
}

/** coin contents from a selector; script forms cover every TxOutCompression special case and raw scripts whose prevector
 *  storage is direct (<= 36 bytes, no dynamic memory) or indirect (dynamic memory of different sizes). */
MCoin MakeCoin(int64_t sel, bool unspendable)
{
    Rng r((uint64_t)sel * 2654435761ULL + 17);
    MCoin c;
    switch (r.below(5)) {
    case 0: c.value = 0; break;
    case 1: c.value = kMaxMoney; break;
    case 2: c.value = (int64_t)r.below(1000); break;
    default: c.value = r.skewed(0, kMaxMoney); break;
    }
    c.height = r.chance(1, 8) ? 0x7fffffffu : (uint32_t)r.skewed(0, 0x7ffffffe);
    c.cb = r.coin();
    auto rnd = [&](size_t n) { std::vector<unsigned char> v(n); if (n) r.fill(v.data(), n); return v; };
    auto cat = [](std::vector<unsigned char> a, const std::vector<unsigned char>& b, std::initializer_list<unsigned char> tail) {
        a.insert(a.end(), b.begin(), b.end());
        a.insert(a.end(), tail.begin(), tail.end());
        return a;
    };
    if (unspendable) {
        c.spk = cat({0x6a}, rnd(r.below(40)), {});
        return c;
    }
    switch (r.below(10)) {
    case 0: c.spk = cat({0x76, 0xa9, 0x14}, rnd(20), {0x88, 0xac}); break;             // P2PKH
    case 1: c.spk = cat({0xa9, 0x14}, rnd(20), {0x87}); break;                         // P2SH
    case 2: c.spk = cat({0x00, 0x14}, rnd(20), {}); break;                             // P2WPKH
    case 3: c.spk = cat({(unsigned char)(r.coin() ? 0x00 : 0x51), 0x20}, rnd(32), {}); break; // P2WSH / P2TR
    case 4: c.spk = cat({0x21, (unsigned char)(r.coin() ? 0x02 : 0x03)}, rnd(32), {0xac}); break; // P2PK compressed
    case 5: c.spk = cat({0x41, 0x04}, rnd(64), {0xac}); break;                         // P2PK uncompressed form, (almost surely) invalid point: stored raw
    case 6: c.spk = {}; break;
    case 7: c.spk = cat({0x51}, rnd(r.below(36)), {}); break;                          // raw, direct storage
    default: c.spk = cat({0x52}, rnd((size_t)r.range(36, 160)), {}); break;            // raw, indirect storage
    }
    return c;
}

Coin RealCoin(const MCoin& c)
{
    return Coin(CTxOut(c.value, CScript(c.spk.begin(), c.spk.end())), (int)c.height, c.cb);
}

bool SameCoin(const Coin& real, const MCoin& m)
{
    return !real.IsSpent() && real.out.nValue == m.value && real.nHeight == m.height && (bool)real.fCoinBase == m.cb &&
           real.out.scriptPubKey.size() == m.spk.size() && std::equal(m.spk.begin(), m.spk.end(), real.out.scriptPubKey.begin());
}
bool SameMaybe(const std::optional<Coin>& real, const MaybeCoin& m)
{
    if (!real) return !m;
    return m && SameCoin(*real, *m);
}

std::string CoinStr(const MaybeCoin& m)
{
    if (!m) return "none";
    char b[96];
    snprintf(b, sizeof b, "{v=%ld,h=%u,cb=%d,spk=%zuB#%04x}", (long)m->value, m->height, (int)m->cb, m->spk.size(), (unsigned)(HashCoin(*m) & 0xffff));
    return b;
}
std::string CoinStr(const std::optional<Coin>& c)
{
    if (!c || c->IsSpent()) return "none";
    MCoin m;
    m.value = c->out.nValue;
    m.height = c->nHeight;
    m.cb = c->fCoinBase;
    m.spk.assign(c->out.scriptPubKey.begin(), c->out.scriptPubKey.end());
    return CoinStr(MaybeCoin{m});
}

// ---------------------------------------------------------------------------------------------
// read-only access to the protected state of the real caches (as CCoinsViewCacheTest in coins_tests.cpp does)

struct Peek : public CCoinsViewCache {
    static const CCoinsMap& Map(const CCoinsViewCache& c) { return c.*(&Peek::cacheCoins); }
    static size_t CoinsUsage(const CCoinsViewCache& c) { return c.*(&Peek::cachedCoinsUsage); }
    static const uint256& RawBest(const CCoinsViewCache& c) { return c.*(&Peek::m_block_hash); }
    static const CoinsCachePair& Sentinel(const CCoinsViewCache& c) { return c.*(&Peek::m_sentinel); }
};
/** the layers are plain CCoinsViewCache objects or CoinsViewOverlay objects (the ConnectBlock view; thread pool without workers,
 *  so no prefetching: what differs is that its misses are filled through base->PeekCoin and leave the lower caches untouched) */
using XCache = CCoinsViewCache;

// ---------------------------------------------------------------------------------------------
// plan

Plan Gen(uint64_t seed, Tier tier)
{
    Rng rng(seed);
    Plan p;
    const bool thorough = tier == Tier::THOROUGH;
    // three populations: small scope (1-2 outpoints, short), dense (6-12 outpoints), on-disk with restarts and crashes
    int pop = (int)rng.pick({30, 50, 20});
    int nout = pop == 0 ? (int)rng.range(1, 2) : (int)rng.range(6, 12);
    bool disk = pop == 2;
    p.knobs["nout"] = nout;
    p.knobs["layers"] = pop == 0 ? rng.range(1, 3) : (int)rng.pick({1, 3, 4}) + 1;
    p.knobs["disk"] = disk;
    p.knobs["batch"] = rng.chance(3, 4) ? rng.skewed(1, 400) : (16 << 20);
    p.knobs["obf"] = rng.coin();
    int crash = 0;
    if (disk) crash = thorough && rng.chance(1, 3) ? 2 : 1;
    p.knobs["crash"] = crash;
    p.knobs["whitebox"] = !rng.chance(1, 8);

    std::vector<uint32_t> w(N_OPS, 0);
    w[ADD] = 10 + rng.below(30);
    w[SPEND] = 10 + rng.below(30);
    w[READ] = 4 + rng.below(25);
    w[UNCACHE] = rng.below(10);
    w[SYNC] = rng.chance(3, 4) ? 1 + rng.below(8) : 0;
    w[FLUSH] = rng.chance(3, 4) ? 1 + rng.below(8) : 0;
    w[PUSH] = 1 + rng.below(6);
    w[POP] = 1 + rng.below(6);
    w[RESET] = rng.chance(1, 2) ? 1 + rng.below(3) : 0;
    w[SETBEST] = rng.below(5);
    w[GETBEST] = rng.below(4);
    w[RESTART] = rng.chance(2, 3) ? 1 + rng.below(2) : 0;
    if (w[SYNC] + w[FLUSH] == 0) w[FLUSH] = 3;

    int nops;
    if (pop == 0) nops = (int)rng.range(3, 14);
    else if (disk) nops = (int)rng.range(12, thorough ? 90 : 60);
    else nops = rng.chance(1, 10) ? (int)rng.range(200, thorough ? 2500 : 800) : (int)rng.range(15, thorough ? 300 : 150);
    for (int i = 0; i < nops; ++i) {
        Op op;
        op.kind = (int)rng.pick(w);
        int64_t key = (int64_t)rng.below(nout);
        int64_t layer = rng.chance(1, 2) ? 0 : (int64_t)rng.below(MAX_LAYERS); // counted from the top
        switch (op.kind) {
        case ADD:
            // key, coin selector (small range so identical re-adds happen), possible_overwrite wish, variant (0 normal, 1 unspendable, 2 illegal overwrite)
            op.a = {key, (int64_t)rng.below(rng.chance(1, 4) ? 4 : 1000000), (int64_t)rng.below(2), (int64_t)rng.pick({90, 4, 6})};
            break;
        case SPEND: op.a = {key, (int64_t)rng.below(2)}; break;
        case READ: op.a = {layer, key, (int64_t)rng.below(6)}; break;
        case UNCACHE: op.a = {layer, key}; break;
        case SYNC: op.a = {layer}; break;
        case FLUSH: op.a = {layer, (int64_t)rng.below(2)}; break;
        case PUSH: op.a = {(int64_t)rng.chance(1, 4)}; break;
        case POP: op.a = {(int64_t)rng.pick({2, 5, 2})}; break; // 0 drop, 1 flush, 2 sync then drop
        case RESET: op.a = {layer}; break;
        case SETBEST: op.a = {layer}; break;
        case GETBEST: op.a = {layer}; break;
        case RESTART: break;
        }
        p.ops.push_back(op);
    }
    if (crash == 1) {
        int n = (int)rng.range(4, thorough ? 24 : 10);
        for (int i = 0; i < n; ++i) {
            // window selector, point selector (0 = seeded inside, 1 = first, 2 = last, 3 = one before last), point seed, mode (0 kill, 1 power loss cut inside
            // the window, 2 power loss cut anywhere since the database was created), cut seed, torn, torn selector
            p.ops.push_back(Op{CRASH, {(int64_t)(rng.next() >> 24), (int64_t)rng.pick({5, 1, 1, 2}), (int64_t)(rng.next() >> 24), (int64_t)rng.pick({5, 2, 3}), (int64_t)(rng.next() >> 24), (int64_t)rng.below(2), (int64_t)(rng.next() >> 40)}});
        }
    }
    return p;
}

std::string Describe(const Op& op)
{
    char b[200];
    static const char* how[] = {"GetCoin", "AccessCoin", "HaveCoin", "HaveCoinInCache", "PeekCoin", "HaveCoin+AccessCoin+GetCoin"};
    switch (op.kind) {
    case ADD: snprintf(b, sizeof b, "top.AddCoin(out#%ld, coin#%ld, possible_overwrite>=%ld)%s", (long)op.arg(0), (long)op.arg(1), (long)(op.arg(2) & 1), op.arg(3) == 1 ? " [unspendable script]" : op.arg(3) == 2 ? " [or: illegal overwrite, must throw]" : ""); break;
    case SPEND: snprintf(b, sizeof b, "top.SpendCoin(out#%ld%s)", (long)op.arg(0), op.arg(1) & 1 ? ", moveto" : ""); break;
    case READ: snprintf(b, sizeof b, "layer[top-%ld].%s(out#%ld)", (long)op.arg(0), how[op.mod(2, 6)], (long)op.arg(1)); break;
    case UNCACHE: snprintf(b, sizeof b, "layer[top-%ld].Uncache(out#%ld)", (long)op.arg(0), (long)op.arg(1)); break;
    case SYNC: snprintf(b, sizeof b, "layer[top-%ld].Sync()", (long)op.arg(0)); break;
    case FLUSH: snprintf(b, sizeof b, "layer[top-%ld].Flush(reallocate=%ld)", (long)op.arg(0), (long)(op.arg(1) & 1)); break;
    case PUSH: snprintf(b, sizeof b, "push a new cache layer (%s)", op.arg(0) & 1 ? "CoinsViewOverlay" : "CCoinsViewCache"); break;
    case POP: snprintf(b, sizeof b, "pop the top layer (%s)", op.mod(0, 3) == 0 ? "discard" : op.mod(0, 3) == 1 ? "Flush into parent" : "Sync into parent"); break;
    case RESET: snprintf(b, sizeof b, "discard layers above layer[top-%ld], then Reset it via ResetGuard", (long)op.arg(0)); break;
    case SETBEST: snprintf(b, sizeof b, "layer[top-%ld].SetBestBlock(new id)", (long)op.arg(0)); break;
    case GETBEST: snprintf(b, sizeof b, "layer[top-%ld].GetBestBlock()", (long)op.arg(0)); break;
    case RESTART: snprintf(b, sizeof b, "FAULT dirty restart: drop all cache layers unflushed, close and reopen the database"); break;
    case CRASH: {
        static const char* pt[] = {"seeded", "first", "last", "last-1"};
        static const char* mode[] = {"kill", "powerloss(cut inside window)", "powerloss(cut anywhere)"};
        snprintf(b, sizeof b, "FAULT crash inside BatchWrite window#%ld at %s point, %s torn=%ld", (long)op.arg(0), pt[op.mod(1, 4)], mode[op.mod(3, 3)], (long)(op.arg(5) & 1));
        break;
    }
    default: snprintf(b, sizeof b, "?");
    }
    return b;
}

// ---------------------------------------------------------------------------------------------
// simulation

struct DbImage {
    uint256 best;
    std::vector<uint256> heads;
    std::map<int, MCoin> coins; //!< by outpoint index
    int foreign{0};             //!< entries whose key is not one of the domain outpoints
    int unreadable{0};
};

struct Sim {
    Ctx& ctx;
    const int nout;
    const int max_layers;
    const bool disk;
    const uint64_t batch;
    const bool obf;
    const int crash_mode;
    const bool whitebox;

    std::vector<COutPoint> outs;
    std::map<COutPoint, int> out_index;

    std::shared_ptr<ThreadPool> pool{std::make_shared<ThreadPool>("c15")}; //!< never started: no worker threads
    std::unique_ptr<CCoinsViewDB> db;
    std::vector<std::unique_ptr<XCache>> layers;
    MDb mdb;
    std::vector<MLayer> ml;
    int next_block_id{0};
    int restarts{0};

    // crash bookkeeping (on-disk runs): model database state after every completed BatchWrite, and the I/O log window of each
    struct Win { size_t s, e; int idx; };
    std::vector<MDb> hist;
    std::vector<Win> wins;
    size_t k0{0};
    std::string live;
    const char* where{""};

    explicit Sim(Ctx& c)
        : ctx(c), nout((int)std::clamp<int64_t>(c.knob("nout", 6), 1, 24)), max_layers((int)std::clamp<int64_t>(c.knob("layers", 3), 1, MAX_LAYERS)),
          disk(c.knob("disk", 0) != 0), batch((uint64_t)std::max<int64_t>(1, c.knob("batch", 16 << 20))), obf(c.knob("obf", 0) != 0), crash_mode((int)c.knob("crash", 0)), whitebox(c.knob("whitebox", 1) != 0)
    {
        for (int i = 0; i < nout; ++i) {
            outs.push_back(Outpoint(i));
            out_index[outs.back()] = i;
        }
    }
    ~Sim()
    {
        while (!layers.empty()) layers.pop_back();
        db.reset();
        if (disk) simfs::Disarm();
    }

    // ---- model views
    MaybeCoin DbView(int k) const
    {
        auto it = mdb.coins.find(k);
        if (it == mdb.coins.end()) return std::nullopt;
        return it->second;
    }
    /** view of layer L (L = -1: the database) */
    MaybeCoin View(int L, int k) const
    {
        for (int l = L; l >= 0; --l) {
            auto it = ml[l].delta.find(k);
            if (it != ml[l].delta.end()) return it->second;
        }
        return DbView(k);
    }
    CCoinsView* RealView(int L) { return L < 0 ? static_cast<CCoinsView*>(db.get()) : static_cast<CCoinsView*>(layers[L].get()); }
    int Depth() const { return (int)layers.size(); }
    int Top() const { return (int)layers.size() - 1; }
    int LayerArg(const Op& op, size_t i) const { return Top() - (int)op.mod(i, Depth()); }

    // ---- real stack
    std::unique_ptr<CCoinsViewDB> OpenDb(const std::string& path)
    {
        DBParams params{.path = disk ? fs::PathFromString(path) : fs::path{}, .cache_bytes = 8 << 20, .memory_only = !disk, .wipe_data = false, .obfuscate = obf};
        CoinsViewOptions o;
        o.batch_write_bytes = batch;
        return std::make_unique<CCoinsViewDB>(std::move(params), o);
    }
    void PushLayer(bool overlay = false)
    {
        CCoinsView* base = RealView(Top());
        if (overlay) {
            layers.push_back(std::make_unique<CoinsViewOverlay>(base, pool, /*deterministic=*/true));
            ctx.probe("overlay_layer");
        } else {
            layers.push_back(std::make_unique<CCoinsViewCache>(base, /*deterministic=*/true));
        }
        ml.emplace_back();
        if (Depth() == 3) ctx.probe("three_layers");
    }
    void DropTop()
    {
        layers.pop_back();
        ml.pop_back();
    }

    DbImage ReadDb(CCoinsViewDB& d)
    {
        DbImage im;
        im.best = d.GetBestBlock();
        im.heads = d.GetHeadBlocks();
        std::unique_ptr<CCoinsViewCursor> cur = d.Cursor();
        for (; cur->Valid(); cur->Next()) {
            COutPoint key;
            Coin coin;
            if (!cur->GetKey(key) || !cur->GetValue(coin) || coin.IsSpent()) { ++im.unreadable; continue; }
            auto it = out_index.find(key);
            if (it == out_index.end()) { ++im.foreign; continue; }
            MCoin m;
            m.value = coin.out.nValue;
            m.height = coin.nHeight;
            m.cb = coin.fCoinBase;
            m.spk.assign(coin.out.scriptPubKey.begin(), coin.out.scriptPubKey.end());
            im.coins[it->second] = std::move(m);
        }
        return im;
    }

    /** the live database holds exactly the model's database state (complete enumeration through the cursor) */
    void CheckDbEquals(const char* cls, const char* when)
    {
        DbImage im = ReadDb(*db);
        if (!im.heads.empty()) ctx.failf(cls, "%s: GetHeadBlocks() is not empty after a completed BatchWrite", when);
        if (im.best != BlockHash(mdb.best)) ctx.failf(cls, "%s: database best block %s, model block id %d", when, im.best.ToString().substr(0, 12).c_str(), mdb.best);
        if (im.foreign || im.unreadable) ctx.failf(cls, "%s: database holds %d foreign and %d unreadable coin records", when, im.foreign, im.unreadable);
        for (int k = 0; k < nout; ++k) {
            auto it = im.coins.find(k);
            MaybeCoin got = it == im.coins.end() ? std::nullopt : MaybeCoin{it->second};
            MaybeCoin want = DbView(k);
            if (got != want) ctx.failf(cls, "%s: out#%d database has %s, model %s (%s)", when, k, CoinStr(got).c_str(), CoinStr(want).c_str(), !got ? "unspent coin dropped" : !want ? "spent coin present" : "wrong coin");
        }
    }

    // ---- the oracle that runs after every step
    void CheckAll()
    {
        for (int L = 0; L < Depth(); ++L) {
            const XCache& c = *layers[L];
            // (a) every outpoint of the domain, read without touching any cache: the layer's view is the model's
            for (int k = 0; k < nout; ++k) {
                std::optional<Coin> got = c.PeekCoin(outs[k]);
                MaybeCoin want = View(L, k);
                if (!SameMaybe(got, want)) {
                    const char* cls = !got ? "layer-view-lost-unspent-coin" : !want ? "layer-view-resurrected-spent-coin" : "layer-view-wrong-coin";
                    ctx.failf(cls, "after %s: layer %d/%d out#%d PeekCoin=%s model=%s", where, L, Depth(), k, CoinStr(got).c_str(), CoinStr(want).c_str());
                }
            }
            // (b) own recomputation of the accounting and the documented entry-state contract (coins.h), from the cache's map
            if (!whitebox) continue; // 1/8 of the runs: only what the public interface shows
            size_t usage = 0, ndirty = 0, nflagged = 0;
            for (const auto& [op, e] : Peek::Map(c)) {
                auto it = out_index.find(op);
                if (it == out_index.end()) ctx.failf("cache-foreign-entry", "after %s: layer %d holds an entry for an outpoint never used", where, L);
                const int k = it->second;
                const bool spent = e.coin.IsSpent(), dirty = e.IsDirty(), fresh = e.IsFresh();
                usage += e.coin.DynamicMemoryUsage();
                ndirty += dirty;
                nflagged += dirty || fresh;
                const MaybeCoin parent = View(L - 1, k), mine = View(L, k);
                if (spent && !(dirty && !fresh)) ctx.failf("entry-state-spent-not-dirty-or-fresh", "after %s: layer %d out#%d spent entry dirty=%d fresh=%d", where, L, k, dirty, fresh);
                if (fresh && !dirty) ctx.failf("entry-state-fresh-not-dirty", "after %s: layer %d out#%d", where, L, k);
                if (fresh && parent) ctx.failf("entry-fresh-but-parent-has-coin", "after %s: layer %d out#%d is FRESH but the parent view holds %s", where, L, k, CoinStr(parent).c_str());
                if (!dirty && !(parent && SameCoin(e.coin, *parent))) ctx.failf("entry-clean-but-differs-from-parent", "after %s: layer %d out#%d is not DIRTY but holds %s while the parent view holds %s", where, L, k, CoinStr(spent ? std::nullopt : std::optional<Coin>{e.coin}).c_str(), CoinStr(parent).c_str());
                if (spent ? mine.has_value() : !(mine && SameCoin(e.coin, *mine))) ctx.failf("entry-differs-from-model", "after %s: layer %d out#%d", where, L, k);
            }
            for (const auto& [k, v] : ml[L].delta) {
                if (!v) continue;
                auto it = Peek::Map(c).find(outs[k]);
                if (it == Peek::Map(c).end() || !it->second.IsDirty()) ctx.failf("modified-coin-not-dirty-in-cache", "after %s: layer %d out#%d was modified since the last flush but is %s", where, L, k, it == Peek::Map(c).end() ? "not cached" : "not DIRTY");
            }
            size_t nlinked = 0;
            for (const CoinsCachePair* p = Peek::Sentinel(c).second.Next(); p != &Peek::Sentinel(c); p = p->second.Next())
                if (++nlinked > Peek::Map(c).size() + 1) break;
            if (usage != Peek::CoinsUsage(c)) ctx.failf("accounting-coins-usage", "after %s: layer %d cachedCoinsUsage=%zu, recomputed %zu", where, L, Peek::CoinsUsage(c), usage);
            if (c.DynamicMemoryUsage() != memusage::DynamicUsage(Peek::Map(c)) + usage) ctx.failf("accounting-dynamic-memory-usage", "after %s: layer %d DynamicMemoryUsage=%zu, recomputed %zu", where, L, c.DynamicMemoryUsage(), memusage::DynamicUsage(Peek::Map(c)) + usage);
            if (ndirty != c.GetDirtyCount()) ctx.failf("accounting-dirty-count", "after %s: layer %d GetDirtyCount=%zu, recomputed %zu", where, L, c.GetDirtyCount(), ndirty);
            if (c.GetCacheSize() != Peek::Map(c).size()) ctx.failf("accounting-cache-size", "after %s: layer %d", where, L);
            if (nlinked != nflagged) ctx.failf("accounting-flagged-list", "after %s: layer %d flagged list has %zu entries, %zu entries are flagged", where, L, nlinked, nflagged);
            if (Peek::RawBest(c) != BlockHash(ml[L].best)) ctx.failf("best-block-mismatch", "after %s: layer %d best block %s, model id %d", where, L, Peek::RawBest(c).ToString().substr(0, 12).c_str(), ml[L].best);
            // (c) bitcoin's own consistency check, last (it aborts on failure; the runner reports the assertion)
            c.SanityCheck();
        }
        // the database itself, by point reads
        for (int k = 0; k < nout; ++k) {
            std::optional<Coin> got = db->GetCoin(outs[k]);
            MaybeCoin want = DbView(k);
            if (!SameMaybe(got, want) || db->HaveCoin(outs[k]) != want.has_value())
                ctx.failf(!got ? "db-lost-unspent-coin" : !want ? "db-resurrected-spent-coin" : "db-wrong-coin", "after %s: database out#%d GetCoin=%s model=%s", where, k, CoinStr(got).c_str(), CoinStr(want).c_str());
        }
        // fingerprint of the model state
        uint64_t h = mix64(Depth(), mdb.best >= 0);
        for (auto& [k, c] : mdb.coins) h = mix64(h, (uint64_t)k + 1);
        for (int L = 0; L < Depth(); ++L) {
            h = mix64(h, 0x1000 + L);
            for (auto& [k, v] : ml[L].delta) {
                auto it = Peek::Map(*layers[L]).find(outs[k]);
                int st = it == Peek::Map(*layers[L]).end() ? 0 : 1 + (it->second.IsDirty() ? 1 : 0) + (it->second.IsFresh() ? 2 : 0) + (it->second.coin.IsSpent() ? 4 : 0);
                h = mix64(h, (uint64_t)k * 64 + (v ? 32 : 0) + st);
            }
            h = mix64(h, layers[L]->GetCacheSize());
        }
        ctx.fingerprint(h);
    }

    // ---- best block helpers
    void DoSetBest(int L)
    {
        int id = next_block_id++;
        layers[L]->SetBestBlock(BlockHash(id));
        ml[L].best = id;
    }
    int ModelGetBest(int L)
    {
        if (L < 0) return mdb.best;
        if (ml[L].best < 0) ml[L].best = ModelGetBest(L - 1);
        return ml[L].best;
    }
    void DoGetBest(int L)
    {
        uint256 got = layers[L]->GetBestBlock();
        int want = ModelGetBest(L);
        if (got != BlockHash(want)) ctx.failf("best-block-mismatch", "layer %d GetBestBlock()=%s, model id %d", L, got.ToString().substr(0, 12).c_str(), want);
        if (want >= 0) ctx.probe("best_block_inherited_or_set");
    }
    void EnsureBest(int L)
    {
        if (ml[L].best >= 0) return;
        DoGetBest(L);
        if (ml[L].best < 0) DoSetBest(L);
    }

    // ---- push layer L into its parent (Flush or Sync) with the property's post-conditions
    void PushDown(int L, bool flush, bool realloc)
    {
        EnsureBest(L);
        XCache& c = *layers[L];
        // observations for the post-conditions / probes (before)
        std::vector<char> cached_before(nout), view_before_has(nout);
        size_t modified = 0;
        for (int k = 0; k < nout; ++k) cached_before[k] = c.HaveCoinInCache(outs[k]);
        for (auto& [k, v] : ml[L].delta) {
            ++modified;
            auto ce = Peek::Map(c).find(outs[k]);
            if (L > 0) {
                auto pe = Peek::Map(*layers[L - 1]).find(outs[k]);
                if (pe != Peek::Map(*layers[L - 1]).end()) {
                    ctx.probe("push_into_existing_parent_entry");
                    if (pe->second.IsFresh() && !v) ctx.probe("push_spent_into_fresh_parent_entry");
                    if (pe->second.coin.IsSpent() && v) ctx.probe("push_unspent_over_spent_parent_entry");
                } else if (ce != Peek::Map(c).end() && ce->second.IsFresh()) {
                    ctx.probe("push_fresh_entry_to_parent");
                }
            } else {
                if (!v && DbView(k)) ctx.probe("db_erase_coin");
                if (v && DbView(k)) ctx.probe("db_overwrite_coin");
            }
        }
        const size_t s = disk ? simfs::LogSize() : 0;
        if (flush) c.Flush(realloc); else c.Sync();
        const size_t e = disk ? simfs::LogSize() : 0;
        // model
        if (L == 0) {
            for (auto& [k, v] : ml[0].delta) {
                if (v) mdb.coins[k] = *v; else mdb.coins.erase(k);
            }
            mdb.best = ml[0].best;
            if (disk) {
                hist.push_back(mdb);
                wins.push_back(Win{s, e, (int)hist.size() - 1});
                size_t nw = 0;
                for (size_t i = s; i < e; ++i) nw += simfs::Log()[i].kind == simfs::OpKind::WRITE;
                if (nw > 1) ctx.probe("db_partial_batches");
            }
            ctx.probe("db_batchwrite");
        } else {
            for (auto& [k, v] : ml[L].delta) ml[L - 1].delta[k] = v;
            ml[L - 1].best = ml[L].best;
        }
        ml[L].delta.clear();
        if (modified) { ctx.nontrivial = true; ctx.probe(flush ? "flush_with_modifications" : "sync_with_modifications"); }
        // post-conditions stated by the property: the parent now equals the child's view (real against real), best block handed down
        for (int k = 0; k < nout; ++k) {
            std::optional<Coin> child = c.PeekCoin(outs[k]), parent = RealView(L - 1)->PeekCoin(outs[k]);
            bool same = (!child && !parent) || (child && parent && child->out == parent->out && child->nHeight == parent->nHeight && child->fCoinBase == parent->fCoinBase);
            if (!same) ctx.failf("parent-differs-from-child-after-push", "%s of layer %d: out#%d child view %s, parent view %s", flush ? "Flush" : "Sync", L, k, CoinStr(child).c_str(), CoinStr(parent).c_str());
        }
        uint256 pbest = L > 0 ? Peek::RawBest(*layers[L - 1]) : db->GetBestBlock();
        if (pbest != BlockHash(ml[L].best)) ctx.failf("best-block-not-handed-down", "%s of layer %d", flush ? "Flush" : "Sync", L);
        if (c.GetDirtyCount() != 0) ctx.failf("dirty-entries-left-after-push", "%s of layer %d: GetDirtyCount()=%zu", flush ? "Flush" : "Sync", L, c.GetDirtyCount());
        if (flush) {
            if (c.GetCacheSize() != 0) ctx.failf("flush-left-entries", "layer %d: GetCacheSize()=%u after Flush", L, c.GetCacheSize());
        } else {
            // Sync retains the contents except spent coins
            for (int k = 0; k < nout; ++k)
                if ((bool)cached_before[k] != c.HaveCoinInCache(outs[k])) ctx.failf("sync-changed-cached-unspent-set", "layer %d out#%d: cached before Sync %d, after %d", L, k, (int)cached_before[k], (int)c.HaveCoinInCache(outs[k]));
        }
        if (L == 0) CheckDbEquals("db-differs-after-batchwrite", flush ? "layer 0 Flush" : "layer 0 Sync");
    }

    void Restart(bool final_check)
    {
        size_t lost = 0;
        for (auto& l : ml) lost += l.delta.size();
        while (Depth() > 0) DropTop();
        if (disk && (final_check || restarts < 1)) {
            // at most one reopen in the middle of a run (plus the final one): LevelDB turns the log of every session into one more
            // level-0 table, and from two tables on point reads start feeding its seek-compaction heuristic, whose background
            // thread would write files concurrently with the recorded main thread.
            db.reset();
            db = OpenDb(live + "/db");
            if (!final_check) ++restarts;
            ctx.fault("dirty_restart_db_reopened");
            if (lost) ctx.probe("restart_lost_unflushed_modifications");
        } else {
            ctx.fault("dirty_restart_caches_dropped");
        }
        CheckDbEquals("restart-db-differs-from-last-batchwrite", "dirty restart");
        if (!final_check) PushLayer();
    }

    // ---- crash inside BatchWrite
    bool MatchesConsistent(const DbImage& im, int i) const
    {
        const MDb& st = hist[i];
        return im.heads.empty() && im.best == BlockHash(st.best) && im.coins == st.coins;
    }
    bool MatchesTransition(const DbImage& im, int i) const
    {
        if (i < 1) return false;
        const MDb &o = hist[i - 1], &n = hist[i];
        if (im.heads.size() != 2 || im.heads[0] != BlockHash(n.best) || im.heads[1] != BlockHash(o.best) || !im.best.IsNull()) return false;
        for (int k = 0; k < nout; ++k) {
            auto g = im.coins.find(k);
            auto a = o.coins.find(k);
            auto b = n.coins.find(k);
            if (g == im.coins.end()) {
                if (a != o.coins.end() && b != n.coins.end()) return false; // unspent in both, dropped
            } else {
                bool is_old = a != o.coins.end() && a->second == g->second, is_new = b != n.coins.end() && b->second == g->second;
                if (!is_old && !is_new) return false;
            }
        }
        return true;
    }

    void CrashOne(int n, const Win& w, size_t k, int mode, uint64_t jsel, bool torn, uint32_t torn_sel)
    {
        simfs::CrashSpec spec;
        spec.k = std::clamp(k, w.s, w.e);
        spec.powerloss = mode != 0;
        if (mode == 1) spec.j = w.s + (spec.k > w.s ? jsel % (spec.k - w.s + 1) : 0);
        else if (mode == 2) spec.j = k0 + (spec.k > k0 ? jsel % (spec.k - k0 + 1) : 0);
        spec.torn = spec.powerloss && torn && spec.j > k0;
        spec.torn_sel = torn_sel;
        std::string img = RunDir() + "/img" + std::to_string(n);
        simfs::ImageInfo ii;
        if (!simfs::Materialize(spec, img, &ii)) ctx.failf("sim-materialize-failed", "image %d", n);
        ctx.fault(spec.powerloss ? "crash_powerloss_in_batchwrite" : "crash_kill_in_batchwrite");
        if (ii.tore) ctx.fault("torn_write");
        if (ii.dropped) ctx.probe("unsynced_ops_dropped");
        char at[160];
        snprintf(at, sizeof at, "crash in BatchWrite #%d at io %zu of %zu, %s (log k=%zu j=%zu k0=%zu)", w.idx, spec.k - w.s, w.e - w.s, spec.powerloss ? "powerloss" : "kill", spec.k, spec.powerloss ? spec.j : spec.k, k0);
        DbImage im;
        try {
            std::unique_ptr<CCoinsViewDB> idb = OpenDb(img + "/db");
            im = ReadDb(*idb);
        } catch (const std::exception& ex) {
            ctx.failf("crash-image-unopenable", "%s: %s", at, ex.what());
        }
        std::error_code ec;
        std::filesystem::remove_all(img, ec);
        if (im.foreign || im.unreadable) ctx.failf("crash-left-garbage-records", "%s: %d foreign, %d unreadable coin records", at, im.foreign, im.unreadable);
        // acceptable outcomes. kill: the state before this BatchWrite, after it, or the marked transition between the two (exactly the old
        // state before the first write, exactly the new one after the last). power loss: additionally any earlier acknowledged state or marked
        // transition (bitcoin does not sync coins batches, so un-synced completed BatchWrites may be lost - never mixed up).
        const char* verdict = nullptr;
        int which = -1;
        if (!spec.powerloss) {
            // every LevelDB write batch is one write() of the log file: none applied = old, all applied = new, else the marked transition
            size_t applied = 0, total = 0;
            for (size_t i = w.s; i < w.e; ++i)
                if (simfs::Log()[i].kind == simfs::OpKind::WRITE) { ++total; applied += i < spec.k; }
            const bool at_start = applied == 0, at_end = applied == total;
            if (at_end && MatchesConsistent(im, w.idx)) { verdict = "new"; which = w.idx; }
            else if (at_start && !at_end && MatchesConsistent(im, w.idx - 1)) { verdict = "old"; which = w.idx - 1; }
            else if (!at_start && !at_end && MatchesTransition(im, w.idx)) { verdict = "transition"; which = w.idx; }
        } else {
            for (int i = w.idx; i >= 0 && !verdict; --i) {
                if (MatchesConsistent(im, i)) { verdict = i == w.idx ? "new" : i == w.idx - 1 ? "old" : "older"; which = i; }
                else if (MatchesTransition(im, i)) { verdict = i == w.idx ? "transition" : "older-transition"; which = i; }
            }
        }
        if (!verdict) {
            std::string s = "heads=" + std::to_string(im.heads.size()) + " best=" + im.best.ToString().substr(0, 8) + " coins:";
            for (auto& [kk, cc] : im.coins) s += " #" + std::to_string(kk) + CoinStr(MaybeCoin{cc});
            ctx.failf(spec.powerloss ? "crash-powerloss-db-not-an-acknowledged-state-or-marked-transition" : "crash-kill-db-not-old-new-or-marked-transition", "%s: %s", at, s.c_str());
        }
        if (!strcmp(verdict, "transition") || !strcmp(verdict, "older-transition")) {
            ctx.probe("crash_left_marked_transition");
            const MDb &o = hist[which - 1], &nn = hist[which];
            bool mixed_old = false, mixed_new = false;
            for (int kk = 0; kk < nout; ++kk) {
                MaybeCoin a = o.coins.count(kk) ? MaybeCoin{o.coins.at(kk)} : std::nullopt, b = nn.coins.count(kk) ? MaybeCoin{nn.coins.at(kk)} : std::nullopt;
                if (a == b) continue;
                MaybeCoin g = im.coins.count(kk) ? MaybeCoin{im.coins.at(kk)} : std::nullopt;
                (g == a ? mixed_old : mixed_new) = true;
            }
            if (mixed_old && mixed_new) ctx.probe("crash_left_mix_of_old_and_new_entries");
        } else {
            ctx.probe(!strcmp(verdict, "new") ? "crash_left_new_state" : !strcmp(verdict, "old") ? "crash_left_old_state" : "crash_left_older_state");
        }
        ctx.evf("crash w%d k%zu m%d -> %s", w.idx, spec.k - w.s, mode, verdict);
        ctx.fingerprint(mix64(mix64(0xc4a5, w.idx), mix64(spec.k - w.s, strhash(verdict) + mode)));
        ctx.nontrivial = true;
    }

    // ---- main loop
    void Run()
    {
        if (disk) {
            live = RunDir() + "/live";
            fs::create_directories(fs::PathFromString(live));
            simfs::Arm(live);
        }
        db = OpenDb(live + "/db");
        if (disk) {
            k0 = simfs::LogSize();
            hist.push_back(mdb);
        }
        PushLayer();
        where = "start";
        CheckAll();

        std::vector<const Op*> crashes;
        std::string desc;
        for (const Op& op : ctx.plan.ops) {
            if (op.kind == CRASH) { crashes.push_back(&op); continue; }
            desc = Describe(op);
            where = desc.c_str();
            try {
                Exec(op);
            } catch (const Violation&) {
                throw;
            } catch (const std::exception& ex) {
                ctx.failf("unexpected-exception", "%s: %s", where, ex.what());
            }
            CheckAll();
        }
        where = "final dirty restart";
        Restart(/*final_check=*/true);
        db.reset();
        if (!disk) return;
        if (simfs::OpsFromOtherThreads()) ctx.probe("io_from_background_thread", simfs::OpsFromOtherThreads());
        simfs::Disarm();
        if (wins.empty()) return;
        int n = 0;
        if (crash_mode == 2) {
            for (const Win& w : wins)
                for (size_t k = w.s; k <= w.e; ++k) {
                    CrashOne(n++, w, k, 0, 0, false, 0);
                    uint64_t r = mix64(k, w.idx);
                    CrashOne(n++, w, k, 1 + (int)(r & 1), r >> 8, (r >> 1) & 1, (uint32_t)(r >> 32));
                }
            ctx.probe("enumerated_every_io_index_of_every_batchwrite");
        } else if (crash_mode == 1) {
            for (const Op* op : crashes) {
                const Win& w = wins[op->mod(0, wins.size())];
                size_t span = w.e - w.s, k;
                switch (op->mod(1, 4)) {
                case 1: k = w.s; break;
                case 2: k = w.e; break;
                case 3: k = w.e - std::min<size_t>(1, span); break;
                default: k = w.s + op->mod(2, span + 1);
                }
                CrashOne(n++, w, k, (int)op->mod(3, 3), (uint64_t)op->arg(4), op->arg(5) & 1, (uint32_t)op->arg(6));
            }
        }
        if (n) ctx.probe("crash_images_checked", n);
    }

    void Exec(const Op& op)
    {
        switch (op.kind) {
        case ADD: {
            const int L = Top(), k = (int)op.mod(0, nout);
            XCache& c = *layers[L];
            const int variant = (int)op.arg(3);
            const MaybeCoin cur = View(L, k);
            MCoin coin = MakeCoin(op.arg(1), variant == 1);
            if (variant == 2 && cur && c.HaveCoinInCache(outs[k])) {
                // documented misuse: possible_overwrite=false on an unspent cached coin must throw and change nothing
                bool threw = false;
                try {
                    c.AddCoin(outs[k], RealCoin(coin), /*possible_overwrite=*/false);
                } catch (const std::logic_error&) {
                    threw = true;
                }
                if (threw) ctx.probe("illegal_overwrite_threw");
                else ml[L].delta[k] = coin; // not part of the property; follow the implementation
                ctx.evf("add! L%d k%d threw=%d", L, k, threw);
                break;
            }
            // the contract: the check may be skipped only if the view holds no unspent coin for the outpoint
            const bool po = cur.has_value() || (op.arg(2) & 1);
            auto before = Peek::Map(c).find(outs[k]);
            if (before != Peek::Map(c).end() && before->second.coin.IsSpent() && !po) ctx.probe("readd_over_spent_dirty_entry_without_overwrite");
            if (cur) ctx.probe("overwrite_unspent_coin");
            if (cur && *cur == coin) ctx.probe("overwrite_with_identical_coin");
            c.AddCoin(outs[k], RealCoin(coin), po);
            if (variant == 1) {
                ctx.probe("unspendable_add_ignored");
            } else {
                ml[L].delta[k] = coin;
                if (!c.HaveCoinInCache(outs[k])) ctx.failf("added-coin-not-in-cache", "layer %d out#%d", L, k);
            }
            ctx.evf("add L%d k%d po%d v%d %s", L, k, po, variant, CoinStr(MaybeCoin{coin}).c_str());
            break;
        }
        case SPEND: {
            const int L = Top(), k = (int)op.mod(0, nout);
            XCache& c = *layers[L];
            const MaybeCoin cur = View(L, k);
            auto before = Peek::Map(c).find(outs[k]);
            const bool was_cached = before != Peek::Map(c).end(), was_fresh = was_cached && before->second.IsFresh(), was_spent_entry = was_cached && before->second.coin.IsSpent();
            Coin moved;
            const bool use_moveto = op.arg(1) & 1;
            bool ret = c.SpendCoin(outs[k], use_moveto ? &moved : nullptr);
            if (cur) {
                if (!ret) ctx.failf("spend-of-unspent-coin-returned-false", "layer %d out#%d", L, k);
                if (use_moveto && !SameCoin(moved, *cur)) ctx.failf("spend-moveto-wrong-coin", "layer %d out#%d got %s model %s", L, k, CoinStr(std::optional<Coin>{moved}).c_str(), CoinStr(cur).c_str());
                ml[L].delta[k] = std::nullopt;
                if (was_fresh) ctx.probe("spend_fresh_entry_erased");
                else if (!was_cached) ctx.probe("spend_coin_fetched_from_parent");
                else ctx.probe("spend_cached_entry");
            } else {
                if (use_moveto && !moved.IsSpent()) ctx.failf("spend-of-missing-coin-returned-a-coin", "layer %d out#%d got %s", L, k, CoinStr(std::optional<Coin>{moved}).c_str());
                // The boolean is not part of the property. (It is `true` when the cache holds a spent DIRTY entry for the outpoint.)
                if (ret) ctx.probe(was_spent_entry ? "spend_of_spent_cached_entry_returned_true" : "spend_of_missing_coin_returned_true");
            }
            if (c.HaveCoinInCache(outs[k])) ctx.failf("spent-coin-still-in-cache", "layer %d out#%d", L, k);
            ctx.evf("spend L%d k%d ret%d had%d", L, k, ret, (int)cur.has_value());
            break;
        }
        case READ: {
            const int L = LayerArg(op, 0), k = (int)op.mod(1, nout), how = (int)op.mod(2, 6);
            XCache& c = *layers[L];
            const MaybeCoin want = View(L, k);
            std::vector<unsigned> sizes;
            for (auto& l : layers) sizes.push_back(l->GetCacheSize());
            bool found = false;
            if (how == 0 || how == 5) {
                std::optional<Coin> got = c.GetCoin(outs[k]);
                if (!SameMaybe(got, want)) ctx.failf("read-getcoin-mismatch", "layer %d out#%d got %s model %s", L, k, CoinStr(got).c_str(), CoinStr(want).c_str());
                found = got.has_value();
            }
            if (how == 1 || how == 5) {
                const Coin& got = c.AccessCoin(outs[k]);
                if (want ? !SameCoin(got, *want) : !got.IsSpent()) ctx.failf("read-accesscoin-mismatch", "layer %d out#%d got %s model %s", L, k, CoinStr(std::optional<Coin>{got}).c_str(), CoinStr(want).c_str());
                found = !got.IsSpent();
            }
            if (how == 2 || how == 5) {
                bool got = c.HaveCoin(outs[k]);
                if (got != want.has_value()) ctx.failf("read-havecoin-mismatch", "layer %d out#%d got %d model %d", L, k, got, (int)want.has_value());
                found = got;
            }
            if (how == 3 || how == 5) {
                // no calls to the backing view: may be false for a coin that exists below, never true for a coin the view does not hold,
                // always true for an unspent coin modified in this layer since its last Flush
                bool got = c.HaveCoinInCache(outs[k]);
                if (got && !want) ctx.failf("read-havecoinincache-true-for-missing-coin", "layer %d out#%d", L, k);
                auto it = ml[L].delta.find(k);
                if (!got && it != ml[L].delta.end() && it->second) ctx.failf("read-havecoinincache-false-for-modified-coin", "layer %d out#%d", L, k);
                if (how == 3) found = got;
            }
            if (how == 4) {
                std::optional<Coin> got = c.PeekCoin(outs[k]);
                if (!SameMaybe(got, want)) ctx.failf("read-peekcoin-mismatch", "layer %d out#%d got %s model %s", L, k, CoinStr(got).c_str(), CoinStr(want).c_str());
                for (size_t i = 0; i < layers.size(); ++i)
                    if (layers[i]->GetCacheSize() != sizes[i]) ctx.failf("peekcoin-changed-a-cache", "layer %zu", i);
                found = got.has_value();
            }
            if (how != 3 && how != 4) {
                bool grew = false;
                for (size_t i = 0; i < layers.size(); ++i) grew |= layers[i]->GetCacheSize() > sizes[i];
                if (grew) ctx.probe("read_populated_cache");
            }
            ctx.probe(found ? "read_hit" : "read_miss");
            ctx.evf("read L%d k%d how%d -> %d", L, k, how, found);
            break;
        }
        case UNCACHE: {
            const int L = LayerArg(op, 0), k = (int)op.mod(1, nout);
            XCache& c = *layers[L];
            const bool was = c.HaveCoinInCache(outs[k]);
            const bool modified = ml[L].delta.count(k) > 0;
            c.Uncache(outs[k]);
            const bool is = c.HaveCoinInCache(outs[k]);
            if (modified) {
                if (was != is) ctx.failf("uncache-dropped-modified-entry", "layer %d out#%d", L, k);
                if (was) ctx.probe("uncache_refused_dirty_entry");
            } else {
                if (is) ctx.failf("uncache-kept-unmodified-entry", "layer %d out#%d", L, k);
                if (was) ctx.probe("uncache_removed_clean_entry");
            }
            ctx.evf("uncache L%d k%d %d->%d", L, k, was, is);
            break;
        }
        case SYNC: {
            const int L = LayerArg(op, 0);
            PushDown(L, false, false);
            ctx.evf("sync L%d", L);
            break;
        }
        case FLUSH: {
            const int L = LayerArg(op, 0);
            PushDown(L, true, op.arg(1) & 1);
            ctx.evf("flush L%d", L);
            break;
        }
        case PUSH:
            if (Depth() < max_layers) PushLayer(op.arg(0) & 1);
            ctx.evf("push%d -> %d", (int)(op.arg(0) & 1), Depth());
            break;
        case POP: {
            if (Depth() < 2) { ctx.ev("pop noop"); break; }
            int mode = (int)op.mod(0, 3);
            if (mode == 1) PushDown(Top(), true, true);
            else if (mode == 2) PushDown(Top(), false, false);
            else if (!ml[Top()].delta.empty()) ctx.probe("pop_discarded_modifications");
            DropTop();
            ctx.evf("pop m%d -> %d", mode, Depth());
            break;
        }
        case RESET: {
            const int L = LayerArg(op, 0);
            while (Top() > L) DropTop();
            XCache& c = *layers[L];
            if (!ml[L].delta.empty()) ctx.probe("reset_discarded_modifications");
            {
                auto guard{c.CreateResetGuard()};
            }
            ml[L].delta.clear();
            ml[L].best = -1;
            if (c.GetCacheSize() != 0 || c.GetDirtyCount() != 0) ctx.failf("reset-left-entries", "layer %d size=%u dirty=%zu", L, c.GetCacheSize(), c.GetDirtyCount());
            ctx.probe("reset");
            ctx.evf("reset L%d", L);
            break;
        }
        case SETBEST: {
            const int L = LayerArg(op, 0);
            DoSetBest(L);
            ctx.evf("setbest L%d id%d", L, ml[L].best);
            break;
        }
        case GETBEST: {
            const int L = LayerArg(op, 0);
            DoGetBest(L);
            ctx.evf("getbest L%d id%d", L, ml[L].best);
            break;
        }
        case RESTART:
            Restart(false);
            ctx.evf("restart");
            break;
        }
    }
};

void Run(Ctx& ctx)
{
    Sim s(ctx);
    s.Run();
}

Engine MakeEngine()
{
    Engine e;
    e.prop = "C15";
    e.name = "compsim/coins-layers";
    e.level = "fault_enumeration";
    e.gen = Gen;
    e.run = Run;
    e.describe = Describe;
    // harness-side only: every cache layer allocates (and Flush/ReallocateCache releases) a 256 KiB pool chunk; keep those on the heap
    // instead of one mmap/munmap pair (plus page faults) each
    e.init = [] { mallopt(M_MMAP_THRESHOLD, 64 << 20); mallopt(M_TRIM_THRESHOLD, 256 << 20); };
    e.chunk = 400;
    e.quick_runs = 80000;
    e.thorough_runs = 1300000;
    e.quick_budget_s = 50;
    e.thorough_budget_s = 900;
    e.rule = "seeded histories over 1-3 CCoinsViewCache layers on a CCoinsViewDB: three populations per seed - small scope (1-2 outpoints, 3-14 operations), dense (6-12 outpoints, "
             "15-300 operations, 10% long runs of 200-2500) on an in-memory LevelDB, and on-disk (6-12 outpoints, 12-90 operations, LevelDB on simfs). Operations with per-run weights: "
             "AddCoin (possible_overwrite per the API contract, identical re-adds, unspendable scripts, the documented illegal overwrite), SpendCoin (with/without moveto), "
             "GetCoin/AccessCoin/HaveCoin/HaveCoinInCache/PeekCoin on any layer, Uncache on any layer, Sync/Flush of any layer, push/pop of layers (new layer = CCoinsViewCache or, 1 in 4, CoinsViewOverlay without workers; pop = discard, Flush or Sync into the parent), "
             "Reset via ResetGuard, SetBestBlock/GetBestBlock, dirty restart (drop every cache unflushed; on disk close and reopen the database, once in the middle of a run and once at its end). "
             "Knobs: batch_write_bytes 1-400 B (every coin its own partial batch) or 16 MiB, value obfuscation on/off, max depth, whitebox (7/8 of the runs also check the entry flags and accounting from the cache map and call SanityCheck; 1/8 judge only what the public read interface returns). On-disk runs end with crash points inside the recorded "
             "I/O windows of the database BatchWrites: 4-24 seeded points (first/last/inside) or, thorough tier in 1/3 of on-disk runs, EVERY I/O index of EVERY BatchWrite, each as process kill "
             "and as power loss (suffix of un-synced operations dropped, cut inside the window or anywhere since the database was created). non-trivial = a Flush/Sync moved at least one modified "
             "entry to its parent, or a crash image was checked; distinct = distinct fingerprints of (database key set, per layer: modified outpoints with spent/unspent and the real entry's "
             "DIRTY/FRESH/spent state, cache size) after an operation, and (window, crash point, semantics, outcome) per crash image (first 64 per run). "
             "The probe `crash_images_checked` counts evaluated crash images.";
    e.real_components = {"CCoinsViewCache (AddCoin, SpendCoin, FetchCoin, GetCoin/AccessCoin/HaveCoin/HaveCoinInCache/PeekCoin, BatchWrite, Flush, Sync, Uncache, Reset via ResetGuard, SetBestBlock/GetBestBlock, SanityCheck)",
                         "CoinsViewOverlay (no workers: FetchCoinFromBase through PeekCoin, Flush/Reset overrides)", "CoinsViewCacheCursor", "CCoinsViewDB (GetCoin, HaveCoin, BatchWrite with partial batches, GetBestBlock, GetHeadBlocks, Cursor)", "CDBWrapper / CDBBatch incl. obfuscation, Coin serialization and TxOutCompression",
                         "LevelDB (memenv, or posix env: log, manifest, table files, recovery)"};
    e.stub_components = {"disk and page cache (simfs: recorded pass-through to tmpfs; crash = log cut + rebuild)", "process crash / restart (objects destroyed without flushing; never a real kill)", "callers of the cache (scripted; they follow the documented API contract)"};
    e.assumptions = {"workload stays inside the documented contract: only the top cache of a stack is modified, possible_overwrite=false only when the view holds no unspent coin, a layer has a non-null best block before Flush/Sync",
                     "entry-state checks use the contract written in coins.h (valid DIRTY/FRESH/spent combinations, FRESH => parent has no unspent coin, not DIRTY => equal to the parent) evaluated against the model's parent view",
                     "power-loss model: a suffix of not-yet-synced operations is discarded, fsync makes earlier writes of the inode durable; after power loss any earlier acknowledged state (or its marked transition) is accepted because coins batches are written without sync",
                     "SpendCoin's boolean result for an outpoint without an unspent coin is not judged (see probe spend_of_spent_cached_entry_returned_true)"};
    e.expected_probes = {"flush_with_modifications", "sync_with_modifications", "spend_fresh_entry_erased", "spend_coin_fetched_from_parent", "readd_over_spent_dirty_entry_without_overwrite",
                         "overwrite_unspent_coin", "push_into_existing_parent_entry", "push_spent_into_fresh_parent_entry", "push_unspent_over_spent_parent_entry", "push_fresh_entry_to_parent",
                         "uncache_refused_dirty_entry", "uncache_removed_clean_entry", "reset", "three_layers", "db_batchwrite", "db_partial_batches", "db_erase_coin", "db_overwrite_coin",
                         "dirty_restart_db_reopened", "restart_lost_unflushed_modifications", "crash_kill_in_batchwrite", "crash_powerloss_in_batchwrite", "crash_left_marked_transition",
                         "crash_left_mix_of_old_and_new_entries", "crash_left_old_state", "crash_left_new_state", "illegal_overwrite_threw", "unspendable_add_ignored", "overlay_layer"};
    return e;
}
Engine g_engine = MakeEngine();
SIM_REGISTER_ENGINE(g_engine);

} // namespace
