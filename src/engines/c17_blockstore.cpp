// C17 — stored blocks and undo data read back intact or fail loudly.
// crashsim without crashes + stored-data faults: an on-disk regtest node with -fastprune block files (64 KiB) and the
// blocksdir XOR obfuscation receives seeded batches of blocks of very different sizes in shuffled arrival order (headers
// first, so undo data is written later and in another order than block data), reorg branches, flushes, clean restarts,
// manual pruning and re-delivery of pruned blocks. After every operation index entries are read back through
// BlockManager::ReadBlock (by index and by position), ReadRawBlock (whole and parts) and ReadBlockUndo and compared with
// the generator's serialisation / the model's spent coins, and the raw files are decoded by the harness itself (own XOR,
// own framing and checksum arithmetic). Then stored-data faults are applied to the files, one at a time (bit flip /
// zeroed 512-byte sector / truncation, aimed at magic, size field, header, transaction bytes, undo framing, undo body,
// undo checksum), everything is read again, and the damage is repaired; for one record per run the faults are enumerated
// (every byte of framing, header and checksum, every field boundary, every overlapping sector); blocks with damaged records
// are forced to be re-connected (invalidateblock -> damage -> reconsiderblock). Write-side faults (ENOSPC/EIO/short write/failed sync or
// fallocate during a block or undo write, or during the flush) are injected through simfs in a forked copy of the
// harness process (a failed write may legitimately end in std::terminate), after which the parent restarts the node on
// the directory the child left and reads every index entry again.
#include "../core/sim.h"
#include "../nodesim/chainsim.h"
#include "../simfs/simfs.h"

#include <chain.h>
#include <coins.h>
#include <hash.h>
#include <node/blockstorage.h>
#include <serialize.h>
#include <streams.h>
#include <undo.h>
#include <util/fs.h>
#include <util/time.h>
#include <validation.h>

#include <csignal>
#include <cstdio>
#include <fcntl.h>
#include <sys/stat.h>
#include <sys/wait.h>
#include <unistd.h>

using namespace sim;
using namespace nodesim;

namespace {

enum { K_BATCH = 100, K_FLUSH, K_RESTART, K_PRUNE, K_REDELIVER, K_DAMAGE, K_RECONNECT, K_WRITEFAULT, K_READALL, K_ENUMERATE };

// offset classes of a read-side fault
enum { R_MAGIC = 0, R_SIZE, R_HEADER, R_TX, R_UNDO_BODY, R_UNDO_CHECKSUM, R_UNDO_FRAMING, R_ANYWHERE, R_NCLASSES };
const char* kRegionNames[R_NCLASSES] = {"magic", "size-field", "header", "tx-bytes", "undo-body", "undo-checksum", "undo-framing", "anywhere-in-file"};
enum { D_BITFLIP = 0, D_ZERO_SECTOR, D_TRUNCATE, D_NKINDS };
const char* kDamageNames[D_NKINDS] = {"flip-bit", "zero-512B-sector", "truncate-file"};
const char* kWriteFaultNames[] = {"ENOSPC(write)", "EIO(write)", "short-write", "EIO(fsync)", "ENOSPC(fallocate)"};
const simfs::FaultKind kWriteFaultKinds[] = {simfs::FaultKind::ENOSPC_WRITE, simfs::FaultKind::EIO_WRITE, simfs::FaultKind::SHORT_WRITE, simfs::FaultKind::EIO_SYNC, simfs::FaultKind::ENOSPC_FALLOC};

std::string Describe(const Op& op)
{
    char b[420];
    switch (op.kind) {
    case K_BATCH: {
        static const char* arrival[] = {"in-order", "reversed", "shuffled", "odd-then-even"};
        snprintf(b, sizeof b, "batch(n=%ld, seed=%ld, arrival=%s, fork_depth=%ld, max_tx=%ld, size_profile=%ld)", (long)op.arg(0), (long)op.arg(1), arrival[op.mod(2, 4)], (long)op.arg(3), (long)op.arg(4), (long)op.arg(5));
        break;
    }
    case K_FLUSH: snprintf(b, sizeof b, "flush(mode=%ld)", (long)op.mod(0, 3)); break;
    case K_RESTART: snprintf(b, sizeof b, "restart(clean)"); break;
    case K_PRUNE:
        if (op.arg(0) < 0) snprintf(b, sizeof b, "pruneblockchain(tip height)");
        else snprintf(b, sizeof b, "pruneblockchain(height#%ld)", (long)op.arg(0));
        break;
    case K_REDELIVER: snprintf(b, sizeof b, "redeliver(block#%ld, prefer_pruned=%ld)", (long)op.arg(0), (long)op.arg(1)); break;
    case K_DAMAGE:
        snprintf(b, sizeof b, "FAULT stored-data %s at %s of record#%ld (offset#%ld, bit %ld)%s", kDamageNames[op.mod(2, D_NKINDS)], kRegionNames[op.mod(1, R_NCLASSES)], (long)op.arg(0), (long)op.arg(3),
                 (long)op.mod(4, 8), op.arg(5) ? " on the stopped node, then restart" : " under the running node");
        break;
    case K_RECONNECT:
        snprintf(b, sizeof b, "FAULT force-reconnect: invalidateblock(depth=%ld); %s at %s of victim#%ld (offset#%ld, bit %ld)%s; reconsiderblock; repair", (long)op.arg(0), kDamageNames[op.mod(3, D_NKINDS)],
                 kRegionNames[op.mod(2, R_NCLASSES)], (long)op.arg(1), (long)op.arg(4), (long)op.mod(5, 8), op.arg(6) ? "; restart while damaged" : "");
        (void)op.arg(7);
        break;
    case K_WRITEFAULT:
        snprintf(b, sizeof b, "FAULT write-side %s at tracked op +%ld during %s of new block %ld/%ld (seed=%ld, shutdown=%s)", kWriteFaultNames[op.mod(0, 5)], (long)op.arg(1), op.arg(5) ? "the flush after" : "ProcessNewBlock",
                 (long)op.arg(3), (long)op.arg(2), (long)op.arg(4), op.arg(6) ? "flush" : "kill");
        break;
    case K_READALL: snprintf(b, sizeof b, "read back every index entry (part seed %ld)", (long)op.arg(0)); break;
    case K_ENUMERATE:
        snprintf(b, sizeof b, "FAULT enumerate record#%ld: one bit flip (bit seed %ld) at EVERY byte of magic, size field, header, undo framing and undo checksum, at %ld spread tx bytes and undo body bytes, truncation at every field boundary, every overlapping sector zeroed", (long)op.arg(0), (long)op.arg(1), (long)op.arg(2));
        break;
    default: snprintf(b, sizeof b, "?");
    }
    return b;
}

Plan Gen(uint64_t seed, Tier tier)
{
    Rng rng(seed);
    Plan p;
    const bool thorough = tier == Tier::THOROUGH;
    const bool prune = rng.chance(1, 6);
    const bool faults = rng.chance(7, 8);
    p.knobs["on_disk"] = 1;
    p.knobs["prune"] = prune;
    p.knobs["base"] = prune ? rng.range(292, 306) : rng.range(101, 118);
    p.knobs["coins_cache_kb"] = 8192;
    p.knobs["batch_bytes"] = 16 << 20;
    p.knobs["ibd"] = 1;
    p.knobs["faults"] = faults;
    // The two statement-to-the-letter clauses that the unchanged tree does not meet (see the final report / known findings);
    // they are evaluated last in a run so that they never mask another clause.
    p.knobs["undo_heavy"] = 0;
    p.knobs["strict_size_field"] = 1;
    p.knobs["strict_witness_only"] = 1;

    auto batch = [&](int nmax, bool allow_fork) {
        Op op;
        op.kind = K_BATCH;
        int fork = allow_fork && rng.chance(1, 4) ? (int)rng.skewed(1, 5) : 0;
        int n = fork ? (int)rng.range(1, 2) : (int)rng.range(2, nmax);
        op.a = {n, (int64_t)(rng.next() >> 16), (int64_t)rng.pick({2, 2, 5, 1}), fork, (int64_t)rng.range(0, 4), (int64_t)rng.pick({3, 4, 2, thorough ? 1u : 0u})};
        return op;
    };
    auto damage = [&] {
        Op op;
        op.kind = K_DAMAGE;
        op.a = {(int64_t)rng.below(100000), (int64_t)rng.pick({10, 14, 14, 12, 12, 10, 5, 8}), (int64_t)rng.pick({6, 2, 2}), (int64_t)(rng.next() >> 24), (int64_t)rng.below(8), rng.chance(1, 5) ? 1 : 0};
        return op;
    };
    auto reconnect = [&] {
        Op op;
        op.kind = K_RECONNECT;
        op.a = {(int64_t)rng.skewed(1, 5), (int64_t)rng.below(1000), (int64_t)rng.pick({3, 5, 4, 30, 0, 0, 0, 3}), (int64_t)rng.pick({8, 1, 1}), (int64_t)(rng.next() >> 24), (int64_t)rng.below(8), rng.chance(1, 6) ? 1 : 0,
                (int64_t)rng.pick({4, 1, 1})};
        return op;
    };
    auto writefault = [&] {
        Op op;
        op.kind = K_WRITEFAULT;
        int nb = (int)rng.range(1, 4);
        op.a = {(int64_t)rng.pick({4, 3, 3, 2, 1}), (int64_t)rng.skewed(0, 7), nb, (int64_t)rng.below(nb), (int64_t)(rng.next() >> 16), rng.chance(1, 5) ? 1 : 0, rng.chance(1, 2) ? 1 : 0};
        return op;
    };
    // workload phase: out-of-order batches across file boundaries, reorgs, flushes, restarts, pruning
    p.ops.push_back(batch(thorough ? 60 : 30, false));
    int nwork = (int)rng.range(3, thorough ? 14 : 8);
    for (int i = 0; i < nwork; ++i) {
        Op op;
        switch (rng.pick({10, 3, 3, (uint32_t)(prune ? 5 : 0), (uint32_t)(prune ? 4 : 1), 2})) {
        case 0: op = batch(thorough ? 40 : 20, true); break;
        case 1: op.kind = K_FLUSH; op.a = {(int64_t)rng.below(3)}; break;
        case 2: op.kind = K_RESTART; break;
        case 3: op.kind = K_PRUNE; op.a = {(int64_t)rng.below(100000)}; break;
        case 4: op.kind = K_REDELIVER; op.a = {(int64_t)rng.below(100000), 1}; break;
        default: op.kind = K_READALL; op.a = {(int64_t)(rng.next() >> 24)}; break;
        }
        p.ops.push_back(op);
    }
    if (prune) {
        // make sure every pruning run prunes as far as allowed, stores a pruned block again and reads everything
        Op op;
        op.kind = K_PRUNE;
        op.a = {-1};
        p.ops.push_back(op);
        op.kind = K_REDELIVER;
        op.a = {(int64_t)rng.below(100000), 1};
        p.ops.push_back(op);
        op.a = {(int64_t)rng.below(100000), 1};
        p.ops.push_back(op);
        op.kind = K_PRUNE;
        op.a = {(int64_t)rng.below(100000)};
        p.ops.push_back(op);
    }
    if (faults && rng.chance(thorough ? 3 : 1, 3)) {
        Op op;
        op.kind = K_ENUMERATE;
        op.a = {(int64_t)rng.below(100000), (int64_t)rng.below(8), thorough ? 96 : 32};
        p.ops.push_back(op);
    }
    if (faults) {
        int nf = (int)rng.range(6, thorough ? 40 : 16);
        for (int i = 0; i < nf; ++i) {
            switch (rng.pick({14, 4, 1, 2, 1})) {
            case 0: p.ops.push_back(damage()); break;
            case 1: p.ops.push_back(reconnect()); break;
            case 2: p.ops.push_back(writefault()); break;
            case 3: p.ops.push_back(batch(8, true)); break;
            default: { Op op; op.kind = K_RESTART; p.ops.push_back(op); break; }
            }
        }
    }
    // drawn last so that the rest of the plan does not depend on it
    p.knobs["undo_heavy"] = rng.chance(1, 4) ? 1 : 0;
    return p;
}

using Bytes = std::vector<unsigned char>;

Bytes SerBlock(const CBlock& b)
{
    DataStream s;
    s << TX_WITH_WITNESS(b);
    Bytes out(s.size());
    if (!out.empty()) memcpy(out.data(), s.data(), out.size());
    return out;
}
Bytes SerUndo(const CBlockUndo& u)
{
    DataStream s;
    s << u;
    Bytes out(s.size());
    if (!out.empty()) memcpy(out.data(), s.data(), out.size());
    return out;
}

bool LoadFile(const std::string& path, Bytes& out, size_t max_len = SIZE_MAX)
{
    out.clear();
    int fd = ::open(path.c_str(), O_RDONLY);
    if (fd < 0) return false;
    struct stat st;
    if (fstat(fd, &st) != 0) { ::close(fd); return false; }
    out.resize(std::min((size_t)st.st_size, max_len));
    size_t off = 0;
    while (off < out.size()) {
        ssize_t n = ::read(fd, out.data() + off, out.size() - off);
        if (n <= 0) break;
        off += (size_t)n;
    }
    ::close(fd);
    return off == out.size();
}
bool StoreFile(const std::string& path, const Bytes& data)
{
    int fd = ::open(path.c_str(), O_WRONLY | O_CREAT | O_TRUNC, 0600);
    if (fd < 0) return false;
    size_t off = 0;
    while (off < data.size()) {
        ssize_t n = ::write(fd, data.data() + off, data.size() - off);
        if (n <= 0) break;
        off += (size_t)n;
    }
    ::close(fd);
    return off == data.size();
}

/** One stored-data fault: the raw (obfuscated) bytes of one blk/rev file before and after. */
struct Damage {
    bool undo_file{false};
    int nfile{-1};
    std::string path;
    Bytes before, after;
    /** did any byte of [off, off+len) change (bytes cut off by a truncation count as changed)? */
    bool Changed(size_t off, size_t len) const
    {
        for (size_t i = off; i < off + len && i < before.size(); ++i)
            if (i >= after.size() || after[i] != before[i]) return true;
        return false;
    }
    bool AnyChange() const { return after.size() != before.size() || after != before; }
};

struct ChildReport {
    int32_t status{0}; //!< 0 finished, 1 node start failed, 2 exception escaped
    int32_t nblocks{0};
    int32_t fired_block{0}, fired_flush{0};
    int32_t errors_after_block_fault{0}; //!< fatal+flush notifications seen right after the faulted ProcessNewBlock
    int32_t accepted_faulted{0};
    int32_t errors_total{0};
    int32_t accepted[8]{};
    int32_t newblock[8]{};
};

struct Store {
    Ctx& ctx;
    ChainSim cs;
    std::string dir, blocks_dir;
    unsigned char key[8]{};
    std::vector<char> stored;          //!< per ref block: the node reported it as newly written at least once
    std::map<int, Bytes> ser_cache;    //!< generator's serialisation
    std::map<int, std::shared_ptr<CBlockUndo>> undo_cache;
    int max_tip_height{0};
    bool prune_mode{false};
    std::vector<std::pair<std::string, std::string>> deferred; //!< statement-to-the-letter findings, raised at the end of the run
    bool dead{false};                  //!< the data directory became unusable after a failed flush (see OpWriteFault)
    uint64_t reads{0};

    explicit Store(Ctx& c) : ctx(c), cs(c, ChainSimConfig{}) {}

    node::BlockManager& bm() { return cs.node->cm().m_blockman; }

    // -------------------------------------------------------------------------------------------------------------
    // model side

    const Bytes& BlockBytes(int i)
    {
        auto it = ser_cache.find(i);
        if (it == ser_cache.end()) it = ser_cache.emplace(i, SerBlock(*cs.ref->blocks[i].block)).first;
        return it->second;
    }

    /** The model's undo data of block i: the coins its inputs spend, taken from the model's UTXO(parent) advanced through the block. */
    const CBlockUndo& ModelUndo(int i)
    {
        auto it = undo_cache.find(i);
        if (it != undo_cache.end()) return *it->second;
        auto u = std::make_shared<CBlockUndo>();
        const RefBlock& B = cs.ref->blocks[i];
        const CBlock& blk = *B.block;
        if (blk.vtx.size() > 1) {
            RefUtxo view = *cs.ref->blocks[B.parent].utxo;
            RefApplyTx(view, *blk.vtx[0], B.height);
            for (size_t t = 1; t < blk.vtx.size(); ++t) {
                CTxUndo tu;
                for (auto& in : blk.vtx[t]->vin) {
                    auto c = view.find(in.prevout);
                    if (c == view.end()) ctx.failf("sim-model-undo-missing-coin", "block #%d tx %zu", i, t);
                    tu.vprevout.emplace_back(CTxOut(c->second.value, c->second.spk), c->second.height, c->second.coinbase);
                }
                u->vtxundo.push_back(std::move(tu));
                RefApplyTx(view, *blk.vtx[t], B.height);
            }
        }
        return *undo_cache.emplace(i, u).first->second;
    }

    static bool UndoEqual(const CBlockUndo& a, const CBlockUndo& b)
    {
        if (a.vtxundo.size() != b.vtxundo.size()) return false;
        for (size_t t = 0; t < a.vtxundo.size(); ++t) {
            if (a.vtxundo[t].vprevout.size() != b.vtxundo[t].vprevout.size()) return false;
            for (size_t k = 0; k < a.vtxundo[t].vprevout.size(); ++k) {
                const Coin& x = a.vtxundo[t].vprevout[k];
                const Coin& y = b.vtxundo[t].vprevout[k];
                if (x.out.nValue != y.out.nValue || x.out.scriptPubKey != y.out.scriptPubKey || x.nHeight != y.nHeight || x.fCoinBase != y.fCoinBase) return false;
            }
        }
        return true;
    }

    bool Prunable(int i) const { return prune_mode && cs.ref->blocks[i].height <= max_tip_height - 288; }

    std::string FilePath(bool undo, int nfile) const
    {
        char name[64];
        snprintf(name, sizeof name, "/%s%05d.dat", undo ? "rev" : "blk", nfile);
        return blocks_dir + name;
    }
    unsigned char Plain(const Bytes& disk, size_t off) const { return disk[off] ^ key[off % 8]; }
    uint32_t PlainLE32(const Bytes& disk, size_t off) const { return Plain(disk, off) | (Plain(disk, off + 1) << 8) | (Plain(disk, off + 2) << 16) | ((uint32_t)Plain(disk, off + 3) << 24); }

    void NoteTip()
    {
        max_tip_height = std::max(max_tip_height, cs.node->Height());
        if (stored.size() < cs.ref->blocks.size()) stored.resize(cs.ref->blocks.size(), 0);
    }

    // -------------------------------------------------------------------------------------------------------------
    // generator: blocks of very different sizes

    int Mine(int parent, int max_tx, uint64_t seed, int size_profile)
    {
        const Consensus::Params& cp = cs.node->params->GetConsensus();
        const Keyring& kr = Keys();
        const uint256 prev_hash = cs.ref->blocks[parent].hash;
        const int height = cs.ref->blocks[parent].height + 1;
        const int64_t mtp = cs.ref->MTP(parent);
        Rng r(mix64(seed, 0x63313762));
        int64_t time = std::max<int64_t>(mtp + 1, cs.ref->blocks[parent].time + r.range(1, 400));
        if (time > cs.now) { cs.now = time; SetMockTime(std::chrono::seconds{cs.now}); }
        BlockLabel label;
        BlockExtras ex;
        ex.cb_extranonce = (uint32_t)(++cs.cb_nonce);
        ex.coinbase_spk = kr.Spk((SK)r.below((int)SK::NKINDS), (int)r.below(N_KEYS));
        std::vector<CTransactionRef> txs;
        CAmount fees = 0;
        {
            const RefUtxo& view = *cs.ref->blocks[parent].utxo;
            struct Cand { COutPoint op; RefCoin coin; };
            std::vector<Cand> cands;
            for (auto& [op, c] : view)
                if (kr.CanSpend(c.spk) && (!c.coinbase || height - c.height >= cs.ref->maturity)) cands.push_back({op, c});
            // "undo heavy" runs alternate between stretches of blocks that CREATE outputs with 10,000-byte scripts (large blocks, tiny
            // undo) and stretches that only SPEND them (tiny blocks, large undo), so that rev files outgrow their blk files
            const bool undo_heavy = ctx.knob("undo_heavy", 0) != 0;
            const bool spend_phase = undo_heavy && (height / 8) % 2 == 1;
            int ntx = (int)r.range(undo_heavy ? 1 : 0, std::max(max_tx, undo_heavy ? 3 : 0));
            for (int t = 0; t < ntx && !cands.empty(); ++t) {
                int nin = (int)std::min<size_t>(cands.size(), (size_t)r.range(1, 3));
                std::vector<TxIn> ins;
                CAmount tot = 0;
                for (int k = 0; k < nin; ++k) {
                    size_t pick = r.below(cands.size());
                    if (spend_phase) {
                        std::vector<size_t> big;
                        for (size_t q = 0; q < cands.size(); ++q)
                            if (cands[q].coin.spk.size() >= 9999) big.push_back(q);
                        if (!big.empty()) { pick = big[r.below(big.size())]; ctx.probe("spent_output_with_script_at_size_limit"); }
                    }
                    Cand c = cands[pick];
                    cands.erase(cands.begin() + pick);
                    ins.push_back({c.op, c.coin, 0xffffffffu});
                    tot += c.coin.value;
                }
                CAmount fee = (CAmount)r.below((uint64_t)std::min<CAmount>(tot, 50000) + 1);
                fees += fee;
                CAmount left = tot - fee;
                int nout = (int)r.range(1, 3);
                std::vector<CTxOut> outs;
                for (int o = 0; o < nout; ++o) {
                    CAmount v = o + 1 == nout ? left : (CAmount)r.below((uint64_t)left + 1);
                    left -= v;
                    if (undo_heavy && !spend_phase && r.chance(7, 10)) outs.emplace_back(v, kr.BigTrue(r.chance(1, 4) ? 9999 : 10000, (int)r.below(N_KEYS)));
                    else outs.emplace_back(v, kr.Spk((SK)r.below((int)SK::NKINDS), (int)r.below(N_KEYS)));
                }
                bool ok = true;
                CTransactionRef tx = BuildTx(ins, outs, 0, r.chance(1, 2) ? 1 : 2, SigDefect::NONE, 0, ok);
                if (!ok) label.scripts_ok = false;
                txs.push_back(tx);
                for (size_t o = 0; o < tx->vout.size(); ++o)
                    if (r.chance(1, 2)) cands.push_back({COutPoint(tx->GetHash(), (uint32_t)o), RefCoin{tx->vout[o].nValue, tx->vout[o].scriptPubKey, height, false}});
            }
        }
        // padding: unspendable data outputs of the coinbase; the size class decides how the block sits in the 64 KiB files
        size_t pad = 0;
        if (ctx.knob("undo_heavy", 0)) size_profile = 4;
        switch (size_profile == 0 ? r.pick({60, 25, 12, 3, 0, 0}) : size_profile == 1 ? r.pick({35, 25, 22, 12, 6, 0}) : size_profile == 2 ? r.pick({15, 15, 25, 25, 20, 0}) : size_profile == 3 ? r.pick({20, 20, 20, 20, 17, 3}) : r.pick({40, 45, 15, 0, 0, 0})) {
        case 0: pad = 0; break;
        case 1: pad = (size_t)r.range(60, 3000); break;
        case 2: pad = (size_t)r.range(3000, 30000); break;
        case 3: pad = (size_t)r.range(30000, 66000); break; // around the 64 KiB file limit
        case 4: pad = (size_t)r.range(66000, 260000); break; // larger than a whole -fastprune file
        default: pad = (size_t)r.range(500000, 940000); break;
        }
        while (pad > 0) {
            size_t n = r.chance(1, 2) ? pad : std::max<size_t>(1, (size_t)r.below(pad + 1));
            std::vector<unsigned char> data(n);
            r.fill(data.data(), n);
            ex.extra_coinbase_outputs.emplace_back(0, CScript() << OP_RETURN << data);
            pad -= n;
            if (ex.extra_coinbase_outputs.size() >= 3) break;
        }
        CAmount cb_value = RefSubsidy(height, cs.ref->halving_interval) + fees;
        if (r.chance(1, 4)) cb_value -= (CAmount)r.below(5000);
        auto block = BuildBlock(prev_hash, height, time, txs, cb_value, ex, cp);
        int idx = cs.ref->Add(block, parent, label);
        cs.delivered.push_back(0);
        cs.header_given.push_back(0);
        stored.resize(cs.ref->blocks.size(), 0);
        const RefBlock& B = cs.ref->blocks[idx];
        if (B.verdict != Verdict::VALID) ctx.failf("sim-generator-produced-invalid-block", "block #%d: %s", idx, B.reason.c_str());
        ctx.evf("mine #%d h=%d on #%d txs=%zu bytes=%zu", idx, height, parent, block->vtx.size(), BlockBytes(idx).size());
        if (BlockBytes(idx).size() >= 0x10000) ctx.probe("block_larger_than_blockfile");
        return idx;
    }

    void FailIfFatal(const char* where)
    {
        if (cs.node->Fatal())
            ctx.failf("node-fatal-error-without-fault", "%s: %s", where, cs.node->notifications->fatal_errors.empty() ? cs.node->notifications->flush_errors[0].c_str() : cs.node->notifications->fatal_errors[0].c_str());
    }

    SimNode::BlockResult Deliver(int idx)
    {
        auto res = cs.node->ProcessBlock(cs.ref->blocks[idx].block, /*force_processing=*/true);
        cs.delivered[idx] = 1;
        if (res.new_block && res.accepted) stored[idx] = 1;
        ctx.evf("deliver #%d -> accepted=%d new=%d tip_h=%d", idx, res.accepted, res.new_block, cs.node->Height());
        return res;
    }

    // -------------------------------------------------------------------------------------------------------------
    // oracle: one index entry

    void Defer(const char* cls, const std::string& detail)
    {
        if (deferred.size() < 4) deferred.emplace_back(cls, detail);
        ctx.probe(cls);
    }

    void CheckEntry(int i, const Damage* dmg, uint64_t part_seed, std::map<std::pair<bool, int>, Bytes>& files, const char* where)
    {
        LOCK(cs_main);
        const RefBlock& B = cs.ref->blocks[i];
        const CBlockIndex* pi = bm().LookupBlockIndex(B.hash);
        if (!pi) {
            if (stored[i]) ctx.failf("index-entry-lost", "%s: block #%d (h=%d) was stored but has no index entry", where, i, B.height);
            return;
        }
        const bool have_data = pi->nStatus & BLOCK_HAVE_DATA;
        const bool have_undo = pi->nStatus & BLOCK_HAVE_UNDO;
        const bool in_chain = cs.node->cm().ActiveChain().Contains(*pi);
        if (stored[i] && !have_data && !Prunable(i)) ctx.failf("stored-block-lost-data-flag", "%s: block #%d (h=%d) was written by the node and cannot have been pruned, but its index entry has no data", where, i, B.height);
        if (in_chain && B.height > 0 && !Prunable(i) && !(have_data && have_undo))
            ctx.failf("active-block-without-data-or-undo", "%s: block #%d (h=%d) is in the active chain and cannot have been pruned, flags data=%d undo=%d", where, i, B.height, have_data, have_undo);
        auto file_of = [&](bool undo, int nfile) -> const Bytes& {
            auto key2 = std::make_pair(undo, nfile);
            auto it = files.find(key2);
            if (it == files.end()) {
                Bytes b;
                // undo files are pre-allocated in 1 MiB chunks: only the accounted part is of interest
                LoadFile(FilePath(undo, nfile), b, undo ? (size_t)bm().GetBlockFileInfo(nfile)->nUndoSize : SIZE_MAX);
                it = files.emplace(key2, std::move(b)).first;
            }
            return it->second;
        };
        ++reads;
        if (!have_data) {
            CBlock blk;
            if (bm().ReadBlock(blk, *pi)) ctx.failf("read-of-absent-block-succeeded", "%s: block #%d has no stored data but ReadBlock returned a block", where, i);
            if (Prunable(i) && stored[i]) ctx.probe("pruned_entry_read_fails");
        } else {
            const FlatFilePos pos{pi->nFile, pi->nDataPos};
            const Bytes& exp = BlockBytes(i);
            const size_t S = exp.size();
            bool m = false, sz = false, hd = false, tx = false;
            if (dmg && !dmg->undo_file && dmg->nfile == pos.nFile && pos.nPos >= 8) {
                m = dmg->Changed(pos.nPos - 8, 4);
                sz = dmg->Changed(pos.nPos - 4, 4);
                hd = dmg->Changed(pos.nPos, 80);
                tx = dmg->Changed(pos.nPos + 80, S - 80);
            }
            CBlock b1, b2;
            const bool r1 = bm().ReadBlock(b1, *pi);
            const bool r2 = bm().ReadBlock(b2, pos, B.hash);
            auto raw = bm().ReadRawBlock(pos);
            // equality through the header hash and every transaction's txid and wtxid (all computed from the bytes that were read)
            auto same = [&](const CBlock& b) {
                const CBlock& o = *B.block;
                if (b.GetHash() != B.hash || b.vtx.size() != o.vtx.size()) return false;
                for (size_t k = 0; k < o.vtx.size(); ++k)
                    if (b.vtx[k]->GetHash() != o.vtx[k]->GetHash() || b.vtx[k]->GetWitnessHash() != o.vtx[k]->GetWitnessHash()) return false;
                return true;
            };
            auto raw_same = [&] { return raw && raw->size() == S && memcmp(raw->data(), exp.data(), S) == 0; };
            if (!(m || sz || hd || tx)) {
                // (A) intact record: byte-for-byte, at the recorded position, through every read path
                if (pos.nPos < 8) ctx.failf("block-position-invalid", "%s: block #%d nDataPos=%u", where, i, pos.nPos);
                if (!r1 || !same(b1)) ctx.failf("block-readback-mismatch", "%s: ReadBlock(index) of intact block #%d (h=%d, %zu bytes, blk%05d.dat:%u) %s", where, i, B.height, S, pos.nFile, pos.nPos, r1 ? "returned different bytes" : "failed");
                if (!r2 || !same(b2)) ctx.failf("block-readback-mismatch", "%s: ReadBlock(position, hash) of intact block #%d (blk%05d.dat:%u) %s", where, i, pos.nFile, pos.nPos, r2 ? "returned different bytes" : "failed");
                if (!raw_same()) ctx.failf("raw-block-readback-mismatch", "%s: ReadRawBlock of intact block #%d (blk%05d.dat:%u) %s", where, i, pos.nFile, pos.nPos, raw ? "returned different bytes" : "failed");
                CBlock b3;
                if (!bm().ReadBlock(b3, pos, std::nullopt) || !same(b3)) ctx.failf("block-readback-mismatch", "%s: ReadBlock(position) of intact block #%d failed or differs", where, i);
                // parts
                Rng pr(mix64(part_seed, (uint64_t)i));
                for (int k = 0; k < 3; ++k) {
                    size_t off = k == 0 ? 0 : k == 1 ? S - 1 : (size_t)pr.below(S);
                    size_t len = k == 0 ? S : k == 1 ? 1 : 1 + (size_t)pr.below(S - off);
                    auto part = bm().ReadRawBlock(pos, std::make_pair(off, len));
                    if (!part || part->size() != len || memcmp(part->data(), exp.data() + off, len) != 0)
                        ctx.failf("raw-block-part-mismatch", "%s: ReadRawBlock(part offset=%zu size=%zu) of block #%d (%zu bytes) %s", where, off, len, i, S, part ? "returned different bytes" : "failed");
                }
                {
                    auto bad1 = bm().ReadRawBlock(pos, std::make_pair((size_t)pr.below(S + 1), (size_t)0));
                    size_t off = (size_t)pr.below(S + 1);
                    auto bad2 = bm().ReadRawBlock(pos, std::make_pair(off, S - off + 1));
                    if (bad1 || bad2) ctx.failf("raw-block-part-out-of-range-returned", "%s: ReadRawBlock with an empty or out-of-range part of block #%d returned data", where, i);
                }
                // the harness' own decoding of the file: XOR key by absolute file offset, magic, little-endian size, bytes
                const Bytes& f = file_of(false, pos.nFile);
                if (f.size() < pos.nPos + S) ctx.failf("block-record-beyond-file", "%s: block #%d at blk%05d.dat:%u+%zu but the file has %zu bytes", where, i, pos.nFile, pos.nPos, S, f.size());
                const auto& magic = cs.node->params->MessageStart();
                for (int k = 0; k < 4; ++k)
                    if (Plain(f, pos.nPos - 8 + k) != magic[k]) ctx.failf("block-record-framing-wrong-on-disk", "%s: block #%d: no network magic 8 bytes before blk%05d.dat:%u", where, i, pos.nFile, pos.nPos);
                if (PlainLE32(f, pos.nPos - 4) != S) ctx.failf("block-record-framing-wrong-on-disk", "%s: block #%d: size field %u != %zu", where, i, PlainLE32(f, pos.nPos - 4), S);
                for (size_t k = 0; k < S; ++k)
                    if (Plain(f, pos.nPos + k) != exp[k]) ctx.failf("block-bytes-wrong-on-disk", "%s: block #%d: byte %zu of the record at blk%05d.dat:%u differs from the generator's serialisation (own XOR decoding)", where, i, k, pos.nFile, pos.nPos);
                const node::CBlockFileInfo* fi = bm().GetBlockFileInfo(pos.nFile);
                if (pos.nPos + S > fi->nSize) ctx.failf("block-record-beyond-fileinfo", "%s: block #%d ends at %zu but blk%05d.dat is accounted with %u bytes", where, i, pos.nPos + S, pos.nFile, fi->nSize);
            } else {
                ctx.probe("damaged_block_record_read");
                const char* what = m ? "magic" : hd ? "header" : sz ? "size field" : "tx bytes";
                if (r1 && !tx && !hd && !same(b1)) ctx.failf("damaged-read-returned-different-block", "%s: block #%d with damaged %s: ReadBlock returned a block that differs from the stored one", where, i, what);
                if (m) {
                    // (B) framing: the record no longer starts with the network magic
                    if (r1 || r2 || raw) ctx.failf("magic-damage-not-reported", "%s: block #%d (blk%05d.dat:%u) has a damaged magic but ReadBlock(index)=%d ReadBlock(pos)=%d ReadRawBlock=%d", where, i, pos.nFile, pos.nPos, r1, r2, (bool)raw);
                    ctx.probe("magic_damage_reported");
                } else if (hd) {
                    // (B) the header no longer hashes to the indexed block
                    if (r1 || r2) ctx.failf("header-damage-block-returned", "%s: block #%d (blk%05d.dat:%u) has a damaged header but ReadBlock(index)=%d ReadBlock(pos,hash)=%d", where, i, pos.nFile, pos.nPos, r1, r2);
                    ctx.probe("header_damage_reported");
                } else if (sz) {
                    // (B) framing: the size field. A smaller size cuts the block (deserialisation must fail), a size beyond the file or MAX_SIZE
                    // cannot be read. A larger size that still fits into the file is the case the unchanged tree does not report.
                    uint64_t S2 = UINT64_MAX;
                    if (dmg->after.size() >= pos.nPos) S2 = PlainLE32(dmg->after, pos.nPos - 4);
                    bool fits = S2 != UINT64_MAX && S2 > S && S2 <= MAX_SIZE && pos.nPos + S2 <= dmg->after.size();
                    if (!fits) {
                        if (r1 || r2) ctx.failf("size-field-damage-not-reported", "%s: block #%d (%zu bytes) has size field %llu but ReadBlock(index)=%d ReadBlock(pos,hash)=%d", where, i, S, (unsigned long long)S2, r1, r2);
                        ctx.probe("size_damage_reported");
                    } else {
                        ctx.probe("size_increase_fits_in_file");
                        if (!tx && r1 && !same(b1)) ctx.failf("damaged-read-returned-different-block", "%s: block #%d with enlarged size field: different block returned", where, i);
                    }
                    // To the letter of the statement a record with a damaged size field must not be returned at all. The unchanged tree has nothing to
                    // check the size field against: ReadRawBlock returns a shorter or longer byte string, ReadBlock succeeds when the size grew.
                    if ((r1 || r2 || raw) && ctx.knob("strict_size_field", 1)) {
                        char d[400];
                        snprintf(d, sizeof d, "%s: the size field of block #%d (blk%05d.dat:%u) was changed from %zu to %llu (%s): ReadBlock(index)=%d ReadBlock(pos,hash)=%d, ReadRawBlock %s", where, i, pos.nFile, pos.nPos, S,
                                 (unsigned long long)S2, fits ? "still inside the file" : "smaller, or beyond the file", r1, r2, raw ? (raw->size() == S ? "returned the original bytes" : "returned a byte string that was never written") : "failed");
                        Defer("framing-size-damage-not-reported", d);
                    }
                } else {
                    // only transaction bytes damaged: the statement makes no claim about the read itself (clause C is checked by the reconnect op)
                    if (r1 && !same(b1)) ctx.probe("tx_damage_read_returns_altered_block");
                    if (!r1) ctx.probe("tx_damage_read_fails");
                }
            }
        }
        if (have_undo) {
            if (B.verdict != Verdict::VALID || B.height == 0) ctx.failf("undo-for-unconnectable-block", "%s: block #%d has undo data", where, i);
            const FlatFilePos upos{pi->nFile, pi->nUndoPos};
            const CBlockUndo& model = ModelUndo(i);
            const Bytes& before = (dmg && dmg->undo_file && dmg->nfile == upos.nFile) ? dmg->before : file_of(true, upos.nFile);
            bool uf = false, ub = false, uc = false;
            size_t L = 0;
            if (upos.nPos >= 8 && before.size() >= upos.nPos) L = PlainLE32(before, upos.nPos - 4);
            if (dmg && dmg->undo_file && dmg->nfile == upos.nFile && upos.nPos >= 8) {
                uf = dmg->Changed(upos.nPos - 8, 8);
                ub = dmg->Changed(upos.nPos, L);
                uc = dmg->Changed(upos.nPos + L, 32);
            }
            CBlockUndo got;
            const bool ru = bm().ReadBlockUndo(got, *pi);
            if (!(uf || ub || uc)) {
                if (!ru) ctx.failf("undo-readback-failed", "%s: ReadBlockUndo of intact undo record of block #%d (rev%05d.dat:%u) failed", where, i, upos.nFile, upos.nPos);
                if (!UndoEqual(got, model)) ctx.failf("undo-readback-mismatch", "%s: undo data of block #%d (h=%d) differs from the coins the model says it spent", where, i, B.height);
                // own decoding of the record: magic, size, body, checksum = SHA256d(prev block hash || body)
                const Bytes& f = before;
                if (upos.nPos < 8 || f.size() < upos.nPos + L + 32) ctx.failf("undo-record-beyond-file", "%s: undo of block #%d at rev%05d.dat:%u+%zu+32 but the file has %zu bytes", where, i, upos.nFile, upos.nPos, L, f.size());
                const auto& magic = cs.node->params->MessageStart();
                for (int k = 0; k < 4; ++k)
                    if (Plain(f, upos.nPos - 8 + k) != magic[k]) ctx.failf("undo-record-framing-wrong-on-disk", "%s: undo of block #%d: no network magic 8 bytes before rev%05d.dat:%u", where, i, upos.nFile, upos.nPos);
                Bytes body(L);
                for (size_t k = 0; k < L; ++k) body[k] = Plain(f, upos.nPos + k);
                if (SerUndo(got) != body) ctx.failf("undo-bytes-wrong-on-disk", "%s: undo of block #%d: the %zu body bytes on disk are not the serialisation of what ReadBlockUndo returned", where, i, L);
                uint256 want;
                {
                    HashWriter h{};
                    h << cs.ref->blocks[B.parent].hash;
                    h.write(MakeByteSpan(body));
                    want = h.GetHash();
                }
                for (int k = 0; k < 32; ++k)
                    if (Plain(f, upos.nPos + L + k) != *(want.begin() + k)) ctx.failf("undo-checksum-wrong-on-disk", "%s: undo of block #%d: stored checksum is not SHA256d(hashPrevBlock || undo bytes)", where, i);
                const node::CBlockFileInfo* fi = bm().GetBlockFileInfo(upos.nFile);
                if (upos.nPos + L + 32 > fi->nUndoSize) ctx.failf("undo-record-beyond-fileinfo", "%s: undo of block #%d ends at %zu but rev%05d.dat is accounted with %u bytes", where, i, upos.nPos + L + 32, upos.nFile, fi->nUndoSize);
                if (!model.vtxundo.empty()) ctx.probe("nonempty_undo_compared");
            } else {
                ctx.probe("damaged_undo_record_read");
                if (ub || uc) {
                    // (B) body or checksum damaged: the checksum cannot match
                    if (ru) ctx.failf("undo-damage-not-reported", "%s: undo record of block #%d (rev%05d.dat:%u, %zu bytes) has a damaged %s but ReadBlockUndo returned data", where, i, upos.nFile, upos.nPos, L, ub ? "body" : "checksum");
                    ctx.probe(ub ? "undo_body_damage_reported" : "undo_checksum_damage_reported");
                } else if (ru && !UndoEqual(got, model)) {
                    ctx.failf("undo-readback-mismatch", "%s: undo of block #%d with damaged framing only: different data returned", where, i);
                }
            }
        }
    }

    /** Read back entries: all of them, or those of `only` plus those stored in file `nfile` plus a seeded sample. */
    void ReadBack(const char* where, const Damage* dmg, uint64_t part_seed, bool full, const std::vector<int>& only = {}, int sample = 6)
    {
        std::map<std::pair<bool, int>, Bytes> files;
        const int n = (int)cs.ref->blocks.size();
        std::set<int> todo;
        if (full) {
            for (int i = 0; i < n; ++i) todo.insert(i);
        } else {
            for (int i : only) todo.insert(i);
            if (dmg) {
                LOCK(cs_main);
                for (int i = 0; i < n; ++i) {
                    const CBlockIndex* pi = bm().LookupBlockIndex(cs.ref->blocks[i].hash);
                    if (pi && (pi->nStatus & (BLOCK_HAVE_DATA | BLOCK_HAVE_UNDO)) && pi->nFile == dmg->nfile) todo.insert(i);
                }
            }
            Rng r(mix64(part_seed, 0x73616d70));
            for (int k = 0; k < sample; ++k) todo.insert((int)r.below(n));
        }
        for (int i : todo) CheckEntry(i, dmg, part_seed, files, where);
        if (full) ctx.probe("full_readback");
    }

    // -------------------------------------------------------------------------------------------------------------
    // stored-data faults

    struct Target { bool ok{false}; bool undo{false}; int nfile{0}; size_t rec_start{0}, off{0}; int block{-1}; };

    /** Locate the byte to damage: `sel`-th (mod) suitable index entry, region class, offset inside the region. */
    Target Locate(uint64_t sel, int region, uint64_t offsel, const std::vector<int>* among)
    {
        Target t;
        LOCK(cs_main);
        const bool want_undo = region == R_UNDO_BODY || region == R_UNDO_CHECKSUM || region == R_UNDO_FRAMING;
        std::vector<int> cands;
        const int n = (int)cs.ref->blocks.size();
        auto suitable = [&](int i) {
            const CBlockIndex* pi = bm().LookupBlockIndex(cs.ref->blocks[i].hash);
            return pi && (pi->nStatus & (want_undo ? BLOCK_HAVE_UNDO : BLOCK_HAVE_DATA));
        };
        if (among) {
            for (int i : *among)
                if (suitable(i)) cands.push_back(i);
        } else {
            for (int i = 0; i < n; ++i)
                if (suitable(i)) cands.push_back(i);
        }
        if (cands.empty()) return t;
        t.block = cands[sel % cands.size()];
        const CBlockIndex* pi = bm().LookupBlockIndex(cs.ref->blocks[t.block].hash);
        t.nfile = pi->nFile;
        t.undo = want_undo;
        Bytes f;
        if (!LoadFile(FilePath(t.undo, t.nfile), f)) return t;
        if (want_undo) {
            size_t p = pi->nUndoPos;
            if (p < 8 || f.size() < p) return t;
            size_t L = PlainLE32(f, p - 4);
            t.rec_start = p - 8;
            if (region == R_UNDO_FRAMING) t.off = p - 8 + offsel % 8;
            else if (region == R_UNDO_CHECKSUM) t.off = p + L + offsel % 32;
            else if (L == 0) t.off = p + L + offsel % 32;
            else t.off = p + offsel % L;
        } else {
            size_t p = pi->nDataPos;
            size_t S = BlockBytes(t.block).size();
            if (p < 8) return t;
            t.rec_start = p - 8;
            switch (region) {
            case R_MAGIC: t.off = p - 8 + offsel % 4; break;
            case R_SIZE: t.off = p - 4 + offsel % 4; break;
            case R_HEADER: t.off = p + offsel % 80; break;
            case R_TX: t.off = p + 80 + offsel % (S - 80); break;
            default: t.off = f.empty() ? 0 : offsel % f.size(); break;
            }
        }
        t.ok = t.off < f.size() || region == R_ANYWHERE;
        return t;
    }

    bool Apply(const Target& t, int kind, int bit, Damage& d)
    {
        d.undo_file = t.undo;
        d.nfile = t.nfile;
        d.path = FilePath(t.undo, t.nfile);
        if (!LoadFile(d.path, d.before)) return false;
        d.after = d.before;
        if (kind == D_BITFLIP) {
            if (t.off >= d.after.size()) return false;
            d.after[t.off] ^= (unsigned char)(1u << bit);
        } else if (kind == D_ZERO_SECTOR) {
            size_t s = t.off / 512 * 512;
            for (size_t k = s; k < s + 512 && k < d.after.size(); ++k) d.after[k] = 0;
        } else {
            d.after.resize(std::min(t.off, d.after.size()));
        }
        if (!StoreFile(d.path, d.after)) ctx.failf("sim-cannot-write-damage", "%s", d.path.c_str());
        return true;
    }
    void Repair(const Damage& d)
    {
        if (!StoreFile(d.path, d.before)) ctx.failf("sim-cannot-repair-damage", "%s", d.path.c_str());
    }
    void CountFault(int kind, int region)
    {
        ctx.fault(kind == D_BITFLIP ? "stored_bit_flip" : kind == D_ZERO_SECTOR ? "stored_sector_zeroed" : "stored_file_truncated");
        char name[64];
        snprintf(name, sizeof name, "damage_at_%s", kRegionNames[region]);
        ctx.probe(name);
    }
    void ClearNodeErrors()
    {
        cs.node->notifications->fatal_errors.clear();
        cs.node->notifications->flush_errors.clear();
    }
    void StartOrFail(const char* where)
    {
        if (!cs.node->Start()) {
            ctx.failf("restart-failed", "%s: %s", where, cs.node->last_error.c_str());
        }
        NoteTip();
    }

    void OpDamage(const Op& op)
    {
        if (!ctx.knob("faults", 1)) return;
        const int region = (int)op.mod(1, R_NCLASSES), kind = (int)op.mod(2, D_NKINDS), bit = (int)op.mod(4, 8);
        const bool offline = op.arg(5) != 0;
        Target t = Locate((uint64_t)op.arg(0), region, (uint64_t)op.arg(3), nullptr);
        if (!t.ok) { ctx.ev("damage: no target"); return; }
        if (offline) cs.node->Stop(/*clean=*/true);
        Damage d;
        if (!Apply(t, kind, bit, d)) { if (offline) StartOrFail("after skipped damage"); ctx.ev("damage: not applicable"); return; }
        const bool changed = d.AnyChange();
        if (changed) CountFault(kind, region); else ctx.probe("damage_was_a_no_op");
        ctx.evf("damage %s %s of #%d %s%05d.dat off=%zu (record+%zu) changed=%d offline=%d", kDamageNames[kind], kRegionNames[region], t.block, t.undo ? "rev" : "blk", t.nfile, t.off, t.off - std::min(t.off, t.rec_start), changed, offline);
        bool running = true;
        if (offline) {
            running = cs.node->Start();
            if (!running) {
                // refusing to start on a damaged store is a loud failure; on an undamaged one it is not acceptable
                if (!changed) ctx.failf("restart-failed", "start failed although the damage operation changed nothing: %s", cs.node->last_error.c_str());
                ctx.probe("start_refused_on_damaged_store");
                ctx.evf("start refused: %s", cs.node->last_status == node::ChainstateLoadStatus::FAILURE ? "failure" : "other");
                cs.node->Stop(false);
            }
        }
        if (running) {
            ReadBack("while damaged", &d, (uint64_t)op.arg(3), /*full=*/false, {t.block});
            ctx.nontrivial = true;
            if (offline) cs.node->Stop(false);
        }
        Repair(d);
        if (offline) StartOrFail("after repairing the damage");
        ClearNodeErrors();
        ReadBack("after repair", nullptr, (uint64_t)op.arg(3) + 1, /*full=*/false, {t.block}, 2);
    }

    /** Every framing/header/checksum byte of one record (and a spread of body bytes), every field boundary, every overlapping sector. */
    void OpEnumerate(const Op& op)
    {
        if (!ctx.knob("faults", 1)) return;
        // a record of moderate size (every evaluation reads the record and its neighbours several times)
        std::vector<int> moderate;
        for (int i = 0; i < (int)cs.ref->blocks.size(); ++i)
            if (BlockBytes(i).size() <= 20000) moderate.push_back(i);
        Target t0 = Locate((uint64_t)op.arg(0), R_MAGIC, 0, &moderate);
        if (!t0.ok) return;
        const int b = t0.block;
        const size_t spread = (size_t)std::clamp<int64_t>(op.arg(2), 4, 256);
        uint64_t nfaults = 0;
        for (int pass = 0; pass < 2; ++pass) {
            const bool undo = pass == 1;
            size_t start, len_framing = 8, len_fixed, len_body, len_tail;
            int nfile;
            {
                LOCK(cs_main);
                const CBlockIndex* pi = bm().LookupBlockIndex(cs.ref->blocks[b].hash);
                if (!pi || !(pi->nStatus & (undo ? BLOCK_HAVE_UNDO : BLOCK_HAVE_DATA))) continue;
                nfile = pi->nFile;
                start = (undo ? pi->nUndoPos : pi->nDataPos) - 8;
            }
            Damage d;
            d.undo_file = undo;
            d.nfile = nfile;
            d.path = FilePath(undo, nfile);
            if (!LoadFile(d.path, d.before) || d.before.size() < start + 8) continue;
            if (undo) {
                len_fixed = 0;
                len_body = PlainLE32(d.before, start + 4);
                len_tail = 32;
            } else {
                len_fixed = 80;
                len_body = BlockBytes(b).size() - 80;
                len_tail = 0;
            }
            const size_t total = len_framing + len_fixed + len_body + len_tail;
            if (d.before.size() < start + total) continue;
            // neighbours in the same file are read as well: damage to one record must not show in another
            std::vector<int> group{b};
            {
                LOCK(cs_main);
                int prev = -1, next = -1;
                size_t prev_pos = 0, next_pos = SIZE_MAX;
                for (int i = 0; i < (int)cs.ref->blocks.size(); ++i) {
                    const CBlockIndex* pi = bm().LookupBlockIndex(cs.ref->blocks[i].hash);
                    if (i == b || !pi || pi->nFile != nfile || !(pi->nStatus & (undo ? BLOCK_HAVE_UNDO : BLOCK_HAVE_DATA))) continue;
                    size_t p = undo ? pi->nUndoPos : pi->nDataPos;
                    if (p < start + 8 && p >= prev_pos) { prev = i; prev_pos = p; }
                    if (p > start + 8 && p < next_pos) { next = i; next_pos = p; }
                }
                if (prev >= 0) group.push_back(prev);
                if (next >= 0) group.push_back(next);
            }
            std::vector<size_t> offs;
            for (size_t k = 0; k < len_framing + len_fixed; ++k) offs.push_back(k);
            for (size_t k = 0; k < spread && len_body > 0; ++k) offs.push_back(len_framing + len_fixed + (size_t)((unsigned __int128)k * len_body / spread));
            for (size_t k = 0; k < std::min<size_t>(8, len_body); ++k) offs.push_back(len_framing + len_fixed + len_body - 1 - k);
            for (size_t k = 0; k < len_tail; ++k) offs.push_back(len_framing + len_fixed + len_body + k);
            std::sort(offs.begin(), offs.end());
            offs.erase(std::unique(offs.begin(), offs.end()), offs.end());
            auto evaluate = [&](const char* where) {
                std::map<std::pair<bool, int>, Bytes> files;
                for (int i : group) CheckEntry(i, &d, (uint64_t)op.arg(1), files, where);
                ++nfaults;
            };
            int fd = ::open(d.path.c_str(), O_RDWR);
            if (fd < 0) ctx.failf("sim-cannot-write-damage", "%s", d.path.c_str());
            d.after = d.before;
            for (size_t k : offs) {
                const size_t off = start + k;
                d.after[off] ^= (unsigned char)(1u << ((op.arg(1) + k) % 8));
                if (::pwrite(fd, &d.after[off], 1, (off_t)off) != 1) ctx.failf("sim-cannot-write-damage", "%s", d.path.c_str());
                evaluate("enumerated bit flip");
                d.after[off] = d.before[off];
                if (::pwrite(fd, &d.after[off], 1, (off_t)off) != 1) ctx.failf("sim-cannot-repair-damage", "%s", d.path.c_str());
            }
            ::close(fd);
            ctx.fault("stored_bit_flip", offs.size());
            // truncation at every field boundary (and inside the fields)
            std::vector<size_t> cuts{0, 2, 4, 6, 8};
            if (!undo) { cuts.push_back(8 + 40); cuts.push_back(8 + 80); }
            cuts.push_back(len_framing + len_fixed + len_body / 2);
            cuts.push_back(len_framing + len_fixed + len_body);
            cuts.push_back(total - 1);
            for (size_t c : cuts) {
                if (c >= total) continue;
                d.after.assign(d.before.begin(), d.before.begin() + start + c);
                if (!StoreFile(d.path, d.after)) ctx.failf("sim-cannot-write-damage", "%s", d.path.c_str());
                evaluate("enumerated truncation");
                ctx.fault("stored_file_truncated");
            }
            // every 512-byte sector that overlaps the record
            for (size_t sct = start / 512; sct * 512 < start + total && sct < start / 512 + 6; ++sct) {
                d.after = d.before;
                for (size_t k = sct * 512; k < (sct + 1) * 512 && k < d.after.size(); ++k) d.after[k] = 0;
                if (!StoreFile(d.path, d.after)) ctx.failf("sim-cannot-write-damage", "%s", d.path.c_str());
                evaluate("enumerated zeroed sector");
                ctx.fault("stored_sector_zeroed");
            }
            Repair(d);
            ctx.probe(undo ? "undo_record_enumerated" : "block_record_enumerated");
        }
        ctx.evf("enumerate #%d: %lu faults", b, (unsigned long)nfaults);
        ctx.probe("enumerated_faults", nfaults);
        ReadBack("after the enumeration", nullptr, (uint64_t)op.arg(1), /*full=*/false, {b}, 2);
        if (nfaults) ctx.nontrivial = true;
    }

    /** Clause C: a block whose stored bytes were corrupted is never connected. */
    void OpReconnect(const Op& op)
    {
        if (!ctx.knob("faults", 1)) return;
        int tip = cs.TipIdx();
        if (tip <= 0) return;
        const int base = (int)ctx.knob("base", 101);
        int depth = (int)std::clamp<int64_t>(op.arg(0), 1, 6);
        depth = std::min(depth, cs.ref->blocks[tip].height - base);
        if (depth < 1) { ctx.ev("reconnect: chain too short"); return; }
        if (!cs.manual_invalid.empty()) return;
        std::vector<int> branch; // T .. old tip
        for (int a = tip, k = 0; k < depth; ++k, a = cs.ref->blocks[a].parent) branch.insert(branch.begin(), a);
        const int T = branch.front();
        {
            // persist the block index first: the repair below may follow an unclean stop, which must not forget the blocks themselves
            LOCK(cs_main);
            cs.node->cs().ForceFlushStateToDisk(false);
        }
        CBlockIndex* pT = WITH_LOCK(cs_main, return bm().LookupBlockIndex(cs.ref->blocks[T].hash));
        if (!pT) ctx.failf("index-entry-lost", "block #%d is the ancestor of the tip but has no index entry", T);
        {
            BlockValidationState st;
            bool ok = cs.node->cs().InvalidateBlock(st, pT);
            BlockValidationState st2;
            cs.node->cs().ActivateBestChain(st2);
            cs.node->DrainSignals();
            FailIfFatal("invalidateblock on the intact store");
            if (!ok) ctx.failf("invalidate-failed-on-intact-store", "invalidateblock(#%d) failed: %s", T, st.ToString().c_str());
            cs.manual_invalid.insert(T);
        }
        ctx.probe("invalidateblock");
        int t_now = cs.TipIdx();
        if (t_now >= 0 && cs.ref->IsAncestor(T, t_now)) ctx.failf("tip-still-on-invalidated-block", "after invalidateblock(#%d)", T);
        // damage one of the disconnected blocks
        const int region = (int)op.mod(2, R_NCLASSES), kind = (int)op.mod(3, D_NKINDS), bit = (int)op.mod(5, 8);
        std::vector<int> victims{branch[op.mod(1, branch.size())]};
        Target t = Locate(0, region == R_UNDO_BODY || region == R_UNDO_CHECKSUM || region == R_UNDO_FRAMING ? R_TX : region, (uint64_t)op.arg(4), &victims);
        Damage d;
        bool applied = t.ok && Apply(t, kind, bit, d);
        const int V = victims[0];
        // what did the damage do to V's record (and to the records of the other blocks of the branch)?
        struct Hit { int idx; bool framing_only_size_fits{false}; bool witness_only{false}; bool changed{false}; };
        std::vector<Hit> hits;
        if (applied) {
            LOCK(cs_main);
            for (int b : branch) {
                const CBlockIndex* pi = bm().LookupBlockIndex(cs.ref->blocks[b].hash);
                if (!pi || !(pi->nStatus & BLOCK_HAVE_DATA) || pi->nFile != d.nfile) continue;
                const size_t p = pi->nDataPos, S = BlockBytes(b).size();
                Hit h{b};
                bool m = d.Changed(p - 8, 4), sz = d.Changed(p - 4, 4), body = d.Changed(p, S);
                h.changed = m || sz || body;
                if (!h.changed) continue;
                if (!m && !body && sz && d.after.size() >= p) {
                    uint64_t S2 = PlainLE32(d.after, p - 4);
                    h.framing_only_size_fits = S2 > S && S2 <= MAX_SIZE && p + S2 <= d.after.size();
                }
                if (!m && !sz && body && d.after.size() >= p + S) {
                    // does the damaged record still deserialise to a block with the same header and the same txids (witness bytes only)?
                    Bytes plain(S);
                    for (size_t k = 0; k < S; ++k) plain[k] = Plain(d.after, p + k);
                    try {
                        CBlock nb;
                        SpanReader{std::span<const unsigned char>{plain}} >> TX_WITH_WITNESS(nb);
                        const CBlock& ob = *cs.ref->blocks[b].block;
                        bool same_ids = nb.GetHash() == ob.GetHash() && nb.vtx.size() == ob.vtx.size();
                        for (size_t k = 0; same_ids && k < nb.vtx.size(); ++k) same_ids = nb.vtx[k]->GetHash() == ob.vtx[k]->GetHash();
                        h.witness_only = same_ids;
                    } catch (const std::exception&) {
                    }
                }
                hits.push_back(h);
            }
            if (d.AnyChange()) CountFault(kind, t.undo ? R_UNDO_BODY : region); else ctx.probe("damage_was_a_no_op");
        }
        ctx.evf("reconnect: invalidated #%d (depth %d), victim #%d %s %s applied=%d records_hit=%zu", T, depth, V, kDamageNames[kind], kRegionNames[region], applied, hits.size());
        bool running = true;
        if (op.arg(6)) {
            cs.node->Stop(/*clean=*/true);
            running = cs.node->Start();
            if (!running) {
                if (!applied || !d.AnyChange()) ctx.failf("restart-failed", "start failed on an undamaged store: %s", cs.node->last_error.c_str());
                ctx.probe("start_refused_on_damaged_store");
                cs.node->Stop(false);
            } else {
                pT = WITH_LOCK(cs_main, return bm().LookupBlockIndex(cs.ref->blocks[T].hash));
            }
        }
        if (running) {
            {
                LOCK(cs_main);
                cs.node->cs().ResetBlockFailureFlags(pT);
                cs.node->cm().RecalculateBestHeader();
            }
            BlockValidationState st;
            cs.node->cs().ActivateBestChain(st);
            cs.node->DrainSignals();
            ctx.probe("reconsiderblock");
            const bool fatal = cs.node->Fatal();
            {
                LOCK(cs_main);
                for (const Hit& h : hits) {
                    const CBlockIndex* pi = bm().LookupBlockIndex(cs.ref->blocks[h.idx].hash);
                    const bool connected = pi && cs.node->cm().ActiveChain().Contains(*pi);
                    if (!connected) { ctx.probe("damaged_block_not_connected"); continue; }
                    if (h.framing_only_size_fits) { ctx.probe("block_with_enlarged_size_field_connected_intact"); continue; }
                    if (h.witness_only) {
                        if (ctx.knob("strict_witness_only", 1)) {
                            char dt[300];
                            snprintf(dt, sizeof dt, "block #%d (h=%d) was re-connected from a record whose witness bytes were damaged (%s at blk%05d.dat:%zu); all txids and the merkle root still match, the witness commitment is not re-checked when connecting",
                                     h.idx, cs.ref->blocks[h.idx].height, kDamageNames[kind], d.nfile, t.off);
                            Defer("witness-only-damage-connected", dt);
                        }
                        continue;
                    }
                    ctx.failf("damaged-block-connected", "block #%d (h=%d) is part of the active chain although its stored record was damaged (%s at %s, blk%05d.dat:%zu); fatal error raised=%d", h.idx, cs.ref->blocks[h.idx].height,
                              kDamageNames[kind], kRegionNames[region], d.nfile, t.off, fatal);
                }
            }
            if (fatal) ctx.probe("fatal_error_raised_on_damaged_block");
            // (the damage may also have hit a record of the competing branch that became active after the invalidation: then the
            // reorganisation back fails loudly with "Failed to disconnect block")
            if (fatal && !(applied && d.AnyChange())) FailIfFatal("reconsiderblock on an undamaged store");
            ctx.evf("reconsider -> tip_h=%d fatal=%d", cs.node->Height(), fatal);
            if (!hits.empty()) ctx.nontrivial = true;
        }
        cs.manual_invalid.erase(T);
        // repair; the real node would have shut down after the fatal error (flushing its state, arg7=1), or be killed (arg7=2); arg7=0 repairs
        // the file under the running node
        const int64_t how = op.arg(7);
        if (running && how != 0) cs.node->Stop(/*clean=*/how == 1);
        if (applied) Repair(d);
        if (!running || how != 0) StartOrFail("after repairing the damage");
        ClearNodeErrors();
        {
            // a block judged invalid because of damaged bytes is reconsidered once the bytes are intact again
            pT = WITH_LOCK(cs_main, return bm().LookupBlockIndex(cs.ref->blocks[T].hash));
            if (!pT) ctx.failf("index-entry-lost", "block #%d has no index entry after the restart although the index had been flushed", T);
            LOCK(cs_main);
            cs.node->cs().ResetBlockFailureFlags(pT);
            cs.node->cm().RecalculateBestHeader();
        }
        BlockValidationState st;
        cs.node->cs().ActivateBestChain(st);
        cs.node->DrainSignals();
        FailIfFatal("reconnecting after the repair");
        cs.CheckAll("after repairing the damaged record and reconsidering");
        NoteTip();
        ReadBack("after reconnect", nullptr, (uint64_t)op.arg(4), /*full=*/false, branch, 2);
        ctx.probe("reconnected_after_repair");
    }

    // -------------------------------------------------------------------------------------------------------------
    // write-side faults (in a forked copy of the process)

    void OpWriteFault(const Op& op)
    {
        if (!ctx.knob("faults", 1)) return;
        int tip = cs.TipIdx();
        if (tip < 0) return;
        const int kind = (int)op.mod(0, 5);
        const int nb = (int)std::clamp<int64_t>(op.arg(2), 1, 4);
        const int at = (int)op.mod(3, nb);
        const bool during_flush = op.arg(5) != 0;
        std::vector<int> fresh;
        Rng r(mix64((uint64_t)op.arg(4), 0x7772));
        int parent = tip;
        for (int k = 0; k < nb; ++k) {
            parent = Mine(parent, 3, r.next(), (int)r.below(3));
            fresh.push_back(parent);
        }
        cs.node->Stop(/*clean=*/true);
        int pfd[2];
        if (pipe(pfd) != 0) ctx.failf("sim-pipe-failed", "pipe");
        fflush(nullptr);
        pid_t pid = fork();
        if (pid < 0) ctx.failf("sim-fork-failed", "fork");
        if (pid == 0) {
            // child: never returns into the runner
            for (int s : {SIGABRT, SIGSEGV, SIGBUS, SIGFPE, SIGILL}) signal(s, SIG_DFL);
            ::close(pfd[0]);
            ::close(4);
            alarm(120);
            ChildReport rep;
            rep.nblocks = nb;
            auto c0 = std::chrono::steady_clock::now();
            auto lap = [&](const char* what) { if (getenv("VERIF_TIMING")) fprintf(stderr, "timing:   child %7.1f ms %s\n", std::chrono::duration<double, std::milli>(std::chrono::steady_clock::now() - c0).count(), what); };
            try {
                simfs::Arm(dir);
                // never destroyed: the forked process did not inherit LevelDB's background thread (it starts its own only if the
                // parent had not started one yet), so closing a database that has scheduled a compaction could wait forever; the
                // process ends with _exit like a killed node. simfs faults only hit the arming (this) thread's operations.
                SimNode& child = *new SimNode(cs.node->opts);
                bool started = child.Start();
                lap("started");
                if (!started) {
                    rep.status = 1;
                } else {
                    auto errors = [&] { return (int)(child.notifications->fatal_errors.size() + child.notifications->flush_errors.size()); };
                    for (int k = 0; k < nb; ++k) {
                        if (k == at && !during_flush) simfs::SetFault(kWriteFaultKinds[kind], (uint64_t)std::clamp<int64_t>(op.arg(1), 0, 40));
                        auto res = child.ProcessBlock(cs.ref->blocks[fresh[k]].block, true);
                        rep.accepted[k] = res.accepted;
                        rep.newblock[k] = res.new_block;
                        if (k == at && !during_flush) {
                            rep.fired_block = simfs::FaultFired();
                            simfs::ClearFault();
                            rep.errors_after_block_fault = errors();
                            rep.accepted_faulted = res.accepted;
                            if (rep.fired_block) break; // the real node shuts down after a fatal error
                        }
                    }
                    if (during_flush) {
                        simfs::SetFault(kWriteFaultKinds[kind], (uint64_t)std::clamp<int64_t>(op.arg(1), 0, 40));
                        {
                            LOCK(cs_main);
                            child.cs().ForceFlushStateToDisk(false);
                        }
                        rep.fired_flush = simfs::FaultFired();
                        simfs::ClearFault();
                    }
                    if (op.arg(6)) {
                        LOCK(cs_main);
                        child.cs().ForceFlushStateToDisk(false); // orderly shutdown writes the block index
                    }
                    rep.errors_total = errors();
                    if (getenv("VERIF_SIMFS_DUMP")) {
                        const auto& log = simfs::Log();
                        std::map<uint32_t, std::string> names;
                        for (size_t i = 0; i < log.size(); ++i) {
                            if (log[i].kind == simfs::OpKind::CREATE) names[log[i].ino] = log[i].path;
                            fprintf(stderr, "io[%zu] %s ino=%u(%s) off=%lu len=%lu %s %s\n", i, simfs::KindName(log[i].kind), log[i].ino, names[log[i].ino].c_str(), (unsigned long)log[i].off, (unsigned long)log[i].len, log[i].path.c_str(), log[i].path2.c_str());
                        }
                        for (auto& e : child.notifications->fatal_errors) fprintf(stderr, "fatal: %s\n", e.c_str());
                        for (auto& e : child.notifications->flush_errors) fprintf(stderr, "flusherr: %s\n", e.c_str());
                    }
                }
            } catch (const std::exception&) {
                rep.status = 2;
            }
            lap("done");
            ssize_t w = ::write(pfd[1], &rep, sizeof rep);
            (void)w;
            _exit(0);
        }
        ::close(pfd[1]);
        auto p0 = std::chrono::steady_clock::now();
        auto plap = [&](const char* what) { if (getenv("VERIF_TIMING")) fprintf(stderr, "timing:   parent %7.1f ms %s\n", std::chrono::duration<double, std::milli>(std::chrono::steady_clock::now() - p0).count(), what); };
        ChildReport rep;
        size_t got = 0;
        while (got < sizeof rep) {
            ssize_t n = ::read(pfd[0], (char*)&rep + got, sizeof rep - got);
            if (n <= 0) break;
            got += (size_t)n;
        }
        ::close(pfd[0]);
        int status = 0;
        while (waitpid(pid, &status, 0) < 0 && errno == EINTR) {}
        plap("child reaped");
        const bool reported = got == sizeof rep;
        const bool aborted = WIFSIGNALED(status) && WTERMSIG(status) == SIGABRT;
        if (WIFSIGNALED(status) && WTERMSIG(status) == SIGALRM) ctx.failf("sim-write-fault-child-stalled", "the forked node did not finish within 120 s");
        if (WIFSIGNALED(status) && !aborted) ctx.failf("write-fault-crashed-node", "the node died with signal %d after %s", WTERMSIG(status), kWriteFaultNames[kind]);
        if (!reported && !aborted) ctx.failf("sim-write-fault-child-lost", "no report from the forked node (exit status %d)", status);
        if (aborted) {
            ctx.probe("write_fault_ended_in_terminate");
            ctx.fault(kind == 0 ? "write_enospc" : kind == 1 ? "write_eio" : kind == 2 ? "write_short" : kind == 3 ? "sync_eio" : "fallocate_enospc");
            ctx.evf("writefault %s: node terminated (SIGABRT)", kWriteFaultNames[kind]);
        } else {
            if (rep.status == 1) ctx.failf("restart-failed", "the forked node could not start on the cleanly stopped directory");
            const bool fired = rep.fired_block || rep.fired_flush;
            if (fired) ctx.fault(kind == 0 ? "write_enospc" : kind == 1 ? "write_eio" : kind == 2 ? "write_short" : kind == 3 ? "sync_eio" : "fallocate_enospc");
            ctx.evf("writefault %s: fired_block=%d fired_flush=%d errors=%d/%d accepted_faulted=%d exception=%d", kWriteFaultNames[kind], rep.fired_block, rep.fired_flush, rep.errors_after_block_fault, rep.errors_total, rep.accepted_faulted, rep.status == 2);
            // error surfaced: a failed write/short write of block or undo data must not pass silently (failed fsync of the directory and a failed
            // fallocate are advisory in the code under test, so nothing is demanded for those)
            if (rep.fired_block && kind <= 2 && rep.status != 2 && rep.errors_after_block_fault == 0 && rep.accepted_faulted)
                ctx.failf("write-error-not-surfaced", "%s hit a block/undo file write during ProcessNewBlock, the block was accepted and no fatal/flush error was raised", kWriteFaultNames[kind]);
            if (rep.fired_block && rep.errors_after_block_fault) ctx.probe("write_error_surfaced");
            if (rep.status == 2) ctx.probe("write_fault_exception_escaped");
        }
        // restart on whatever the faulted node left: no index entry may point at a partial record
        if (!aborted && rep.fired_flush && !rep.fired_block) {
            // The fault hit the flush itself (block index / coins database write or a file sync), not a block or undo record. The unchanged tree
            // forgets its dirty index entries when the index write fails, so a later successful flush (orderly shutdown) can leave a coins database
            // whose best block the index does not know: the node then refuses to start ("Error initializing block database"). That is a loud
            // failure and outside the statement of C17 (it is reported, see the probe); the directory is unusable, so the run ends here.
            if (!cs.node->Start()) {
                ctx.probe("start_refused_after_failed_index_flush");
                ctx.evf("start refused after a failed flush: %s", cs.node->last_error.c_str());
                cs.node->Stop(false);
                dead = true;
                return;
            }
            NoteTip();
        } else {
            StartOrFail("after a write-side fault");
        }
        ClearNodeErrors();
        plap("restarted");
        cs.CheckAll("after a write-side fault and restart");
        ReadBack("after a write-side fault and restart", nullptr, (uint64_t)op.arg(4), /*full=*/true);
        plap("read back");
        // faults are over: the blocks can be stored now
        for (int b : fresh) Deliver(b);
        FailIfFatal("re-delivery after a write-side fault");
        cs.CheckAll("after re-delivering the blocks of the faulted writes");
        NoteTip();
        {
            LOCK(cs_main);
            for (int b : fresh) {
                const CBlockIndex* pi = bm().LookupBlockIndex(cs.ref->blocks[b].hash);
                if (!pi || !(pi->nStatus & BLOCK_HAVE_DATA)) ctx.failf("block-not-stored-after-faults-ended", "block #%d", b);
                stored[b] = 1;
            }
        }
        ReadBack("after re-delivering the blocks of the faulted writes", nullptr, (uint64_t)op.arg(4) + 1, /*full=*/false, fresh, 3);
        ctx.nontrivial = true;
    }

    // -------------------------------------------------------------------------------------------------------------

    void OpBatch(const Op& op)
    {
        int tip = cs.TipIdx();
        if (tip < 0) return;
        const int fork_depth = (int)std::clamp<int64_t>(op.arg(3), 0, 8);
        int n = (int)std::clamp<int64_t>(op.arg(0), 1, 80);
        int parent = tip;
        if (fork_depth > 0) {
            int fh = std::max((int)ctx.knob("base", 101) - 1, cs.ref->blocks[tip].height - fork_depth);
            parent = cs.ref->Ancestor(tip, fh);
            n = cs.ref->blocks[tip].height - cs.ref->blocks[parent].height + std::min(n, 2);
            ctx.probe("reorg_branch");
        }
        Rng r(mix64((uint64_t)op.arg(1), 0x6261));
        std::vector<int> blocks;
        for (int k = 0; k < n; ++k) {
            parent = Mine(parent, (int)std::clamp<int64_t>(op.arg(4), 0, 6), r.next(), (int)op.mod(5, 4));
            blocks.push_back(parent);
        }
        std::vector<CBlockHeader> headers;
        for (int b : blocks) { headers.push_back(*cs.ref->blocks[b].block); cs.header_given[b] = 1; }
        BlockValidationState st;
        bool hok = cs.node->ProcessHeaders(headers, st);
        ctx.evf("headers x%zu -> %d", headers.size(), hok);
        std::vector<int> order = blocks;
        switch (op.mod(2, 4)) {
        case 1: std::reverse(order.begin(), order.end()); break;
        case 2:
            for (size_t k = order.size(); k > 1; --k) std::swap(order[k - 1], order[r.below(k)]);
            break;
        case 3: {
            std::vector<int> o2;
            for (size_t k = 1; k < order.size(); k += 2) o2.push_back(order[k]);
            for (size_t k = 0; k < order.size(); k += 2) o2.push_back(order[k]);
            order = o2;
            break;
        }
        default: break;
        }
        if (order != blocks) ctx.probe("out_of_order_arrival");
        for (int b : order) Deliver(b);
        FailIfFatal("batch");
        cs.CheckAll("after a batch");
        NoteTip();
        ReadBack("after a batch", nullptr, (uint64_t)op.arg(1), /*full=*/false, blocks);
        ctx.nontrivial = true;
    }

    uint64_t Fingerprint()
    {
        uint64_t h = mix64(cs.node->Running() ? cs.node->TipHash().GetUint64(0) : 0, cs.ref->blocks.size());
        uint64_t s = 0;
        for (size_t i = 0; i < stored.size(); ++i) s = s * 3 + stored[i];
        return mix64(mix64(h, s), mix64((uint64_t)max_tip_height, ctx.faults.size() * 131 + deferred.size()));
    }

    void Run()
    {
        prune_mode = ctx.knob("prune", 0) != 0;
        cs.tweak_opts = [&](NodeOpts& o) {
            o.coins_db_in_memory = false;
            o.block_tree_db_in_memory = false;
            o.fast_prune = true;
            o.regtest.fastprune = true;
            o.prune_target = prune_mode ? node::BlockManager::PRUNE_TARGET_MANUAL : 0;
            o.check_level = 3;
            o.check_blocks = 6;
            o.mempool_check_ratio = 0;
            o.sigcache_bytes = 1 << 16; // the node is restarted many times per run; the tables are zeroed at every start
            o.scriptcache_bytes = 1 << 16;
            // stay in initial-block-download mode: no asynchronous chainstate compaction thread (see c16_crash.cpp)
            if (ctx.knob("ibd", 1)) o.max_tip_age = std::chrono::seconds{-86400};
        };
        auto t_setup = std::chrono::steady_clock::now();
        cs.StartNode();
        stored.assign(1, 1);
        {
            // base chain: in pruning runs the blocks are padded so that the low heights spread over many 64 KiB files
            Rng r(mix64(ctx.plan.seed, 0xba5e17));
            const int base = (int)std::clamp<int64_t>(ctx.knob("base", 101), 1, 400);
            int tip = 0;
            for (int i = 0; i < base; ++i) {
                tip = Mine(tip, 0, r.next(), prune_mode ? 4 : 0);
                Deliver(tip);
            }
            FailIfFatal("base chain");
            if (cs.node->Height() != base) ctx.failf("base-chain-not-connected", "height %d after %d base blocks", cs.node->Height(), base);
            cs.CheckAll("after the base chain");
            cs.start_time = cs.now;
        }
        if (getenv("VERIF_TIMING")) fprintf(stderr, "timing: %7.1f ms setup (base chain)\n", std::chrono::duration<double, std::milli>(std::chrono::steady_clock::now() - t_setup).count());
        dir = cs.node->opts.dir;
        blocks_dir = dir + "/blocks";
        {
            Bytes k;
            if (!LoadFile(blocks_dir + "/xor.dat", k) || k.size() != 8) ctx.failf("sim-no-xor-key", "blocks/xor.dat missing or not 8 bytes");
            memcpy(key, k.data(), 8);
            bool nonzero = false;
            for (auto c : key) nonzero |= c != 0;
            if (nonzero) ctx.probe("xor_key_nonzero");
        }
        NoteTip();
        ReadBack("after the base chain", nullptr, ctx.plan.seed, /*full=*/true);
        ctx.fingerprint(Fingerprint());
        const bool timing = getenv("VERIF_TIMING") != nullptr;
        for (const Op& op : ctx.plan.ops) {
            auto t0 = std::chrono::steady_clock::now();
            struct Timer {
                bool on; std::chrono::steady_clock::time_point t0; const Op& op;
                ~Timer() { if (on) fprintf(stderr, "timing: %7.1f ms %s\n", std::chrono::duration<double, std::milli>(std::chrono::steady_clock::now() - t0).count(), Describe(op).substr(0, 90).c_str()); }
            } timer{timing, t0, op};
            switch (op.kind) {
            case K_BATCH: OpBatch(op); break;
            case K_FLUSH: {
                LOCK(cs_main);
                BlockValidationState st;
                int mode = (int)op.mod(0, 3);
                if (mode == 0) cs.node->cs().ForceFlushStateToDisk(true);
                else if (mode == 1) cs.node->cs().ForceFlushStateToDisk(false);
                else cs.node->cs().FlushStateToDisk(st, FlushStateMode::PERIODIC);
                ctx.evf("flush %d", mode);
                break;
            }
            case K_RESTART:
                cs.node->Stop(/*clean=*/true);
                StartOrFail("clean restart");
                ctx.probe("clean_restart");
                ctx.evf("restart tip_h=%d", cs.node->Height());
                cs.CheckAll("after a clean restart");
                ReadBack("after a clean restart", nullptr, ctx.plan.seed + 1, /*full=*/true);
                break;
            case K_PRUNE: {
                if (!prune_mode) break;
                int h = op.arg(0) < 0 ? cs.node->Height() : 1 + (int)op.mod(0, (uint64_t)std::max(1, cs.node->Height()));
                PruneBlockFilesManual(cs.node->cs(), h);
                bool pruned = WITH_LOCK(cs_main, return bm().m_have_pruned);
                if (pruned) ctx.probe("pruned_files");
                ctx.evf("prune to %d -> have_pruned=%d", h, pruned);
                ReadBack("after pruning", nullptr, (uint64_t)op.arg(0), /*full=*/true);
                break;
            }
            case K_REDELIVER: {
                int n = (int)cs.ref->blocks.size();
                std::vector<int> cands;
                if (op.arg(1)) {
                    LOCK(cs_main);
                    for (int i = 1; i < n; ++i) {
                        const CBlockIndex* pi = bm().LookupBlockIndex(cs.ref->blocks[i].hash);
                        if (pi && !(pi->nStatus & BLOCK_HAVE_DATA)) cands.push_back(i);
                    }
                }
                int idx = cands.empty() ? 1 + (int)op.mod(0, (uint64_t)std::max(1, n - 1)) : cands[op.mod(0, cands.size())];
                if (idx >= n) break;
                auto res = Deliver(idx);
                if (!cands.empty() && res.new_block) ctx.probe("pruned_block_stored_again");
                ReadBack("after re-delivery", nullptr, (uint64_t)op.arg(0), /*full=*/false, {idx}, 2);
                break;
            }
            case K_DAMAGE: OpDamage(op); break;
            case K_ENUMERATE: OpEnumerate(op); break;
            case K_RECONNECT: OpReconnect(op); break;
            case K_WRITEFAULT: OpWriteFault(op); break;
            case K_READALL: ReadBack("explicit read-back", nullptr, (uint64_t)op.arg(0), /*full=*/true); break;
            default: break;
            }
            if (op.kind != K_WRITEFAULT && op.kind != K_DAMAGE && op.kind != K_RECONNECT && op.kind != K_ENUMERATE) FailIfFatal(Describe(op).c_str());
            ctx.fingerprint(Fingerprint());
            if (dead) break;
        }
        if (dead) {
            ctx.sim_ms = (uint64_t)(cs.now - cs.start_time) * 1000;
            if (!deferred.empty()) ctx.fail(deferred[0].first, deferred[0].second);
            return;
        }
        // final: orderly restart, everything read back once more
        cs.node->Stop(/*clean=*/true);
        StartOrFail("final restart");
        cs.CheckAll("after the final restart");
        ReadBack("after the final restart", nullptr, ctx.plan.seed + 2, /*full=*/true);
        ctx.probe("index_entries_read", reads);
        ctx.sim_ms = (uint64_t)(cs.now - cs.start_time) * 1000;
        cs.node->Stop(true);
        if (!deferred.empty()) ctx.fail(deferred[0].first, deferred[0].second);
    }
};

void Run(Ctx& ctx)
{
    Store s(ctx);
    s.Run();
}

Engine MakeEngine()
{
    Engine e;
    e.prop = "C17";
    e.name = "crashsim/blockstore";
    e.level = "fault_enumeration";
    e.gen = Gen;
    e.run = Run;
    e.describe = Describe;
    e.chunk = 1;
    e.quick_runs = 280;
    e.thorough_runs = 2500;
    e.quick_budget_s = 50;
    e.thorough_budget_s = 900;
    e.run_timeout_s = 400;
    e.rule = "each run = one on-disk regtest node with 64 KiB -fastprune block files and a random blocksdir XOR key: base chain (101-118 blocks; 292-306 padded blocks in the 1/6 of runs with manual pruning), then 4-15 workload "
             "operations (batches of 2-60 generated blocks of 200 B - 260 KB (thorough: - 940 KB) with 0-4 signed transactions, announced by headers and delivered in order / reversed / shuffled / odd-then-even so that undo data is "
             "written later and in another order than block data; reorg branches; flushes; clean restarts; pruneblockchain; re-delivery of pruned blocks), then in 7/8 of the runs (knob faults): [1/3 of quick runs, every thorough run] "
             "the enumeration of one record - one bit flip at EVERY byte of magic, size field, header, undo framing and undo checksum, at 32 (thorough 96) spread transaction bytes and undo body bytes, a truncation at every field "
             "boundary and the zeroing of every overlapping 512-byte sector - and 6-40 seeded fault operations: a stored-data fault {flip one bit, zero a 512-byte sector, truncate the file} aimed at {magic, size field, header, "
             "transaction bytes, undo framing, undo body, undo checksum, anywhere} of a seeded record, applied under the running node or on the stopped node followed by a restart, read back and repaired; invalidateblock -> damage a "
             "disconnected block -> reconsiderblock (forced re-connection from the damaged record) -> repair -> reconnect; a write-side fault {ENOSPC, EIO, short write, EIO on fsync, ENOSPC on fallocate} at the n-th file operation "
             "of a ProcessNewBlock or of the flush, executed in a forked copy of the process, followed by a restart of the parent's node on the directory left behind. After every operation the touched index entries, every entry "
             "sharing a file with a fault and a seeded sample (after restarts, pruning and write faults: every entry) are read back through ReadBlock(index), ReadBlock(position), ReadRawBlock (whole, 3 parts, 2 illegal parts) and "
             "ReadBlockUndo and decoded from the raw file by the harness. The probes index_entries_read and enumerated_faults count the evaluations inside the runs. non-trivial = at least one batch was stored and read back; "
             "distinct = distinct (tip, #blocks, stored set, highest tip, fault kinds so far) fingerprints (first 64 per run).";
    e.real_components = {"BlockManager: WriteBlock/ReadBlock/ReadRawBlock/WriteBlockUndo/ReadBlockUndo, FindNextBlockPos/FindUndoPos, FlushBlockFile, PruneOneBlockFile/UnlinkPrunedFiles, block index DB", "FlatFileSeq (Open/Allocate/Flush)",
                         "AutoFile/BufferedWriter/BufferedReader/HashVerifier with Obfuscation", "CBlockUndo/TxInUndoFormatter/TxOutCompression serialisation",
                         "Chainstate: AcceptBlock, ConnectTip/ConnectBlock/DisconnectTip from stored records, InvalidateBlock/ResetBlockFailureFlags, FlushStateToDisk, LoadChainstate + VerifyDB level 3 on restart", "LevelDB"};
    e.stub_components = {"disk: tmpfs files; read-side faults are edits of the blk/rev files by the harness, write-side faults come from simfs (interposed libc file calls) inside a forked copy of the process", "peers (headers and blocks handed to ProcessNewBlockHeaders/ProcessNewBlock)",
                         "clock (SetMockTime)", "ValidationSignals task runner (immediate)"};
    e.assumptions = {"documented record formats: block record = magic(4) | size(4, LE) | block, position = first byte of the block; undo record = magic | size | CBlockUndo | SHA256d(hashPrevBlock || CBlockUndo bytes); file bytes = plain XOR key[file offset mod 8]",
                     "RefChain's UTXO(parent) advanced through the block gives the spent coins (model of the undo data); block bytes = bitcoin's own serialisation of the generated CBlock",
                     "for damaged transaction bytes the statement makes no claim about ReadBlock (the unchanged tree returns the altered block when the header is intact); clause C is decided by forcing the re-connection",
                     "a write-side fault that ends in std::terminate counts as a loud failure; 'error surfaced' is demanded only for failed/short writes hitting a block or undo file during ProcessNewBlock"};
    e.expected_probes = {"full_readback", "out_of_order_arrival", "reorg_branch", "block_larger_than_blockfile", "nonempty_undo_compared", "clean_restart", "pruned_files", "pruned_block_stored_again", "xor_key_nonzero",
                         "magic_damage_reported", "header_damage_reported", "size_damage_reported", "size_increase_fits_in_file", "undo_body_damage_reported", "undo_checksum_damage_reported", "tx_damage_read_returns_altered_block",
                         "damaged_block_not_connected", "fatal_error_raised_on_damaged_block", "reconnected_after_repair", "start_refused_on_damaged_store", "write_error_surfaced", "stored_bit_flip", "stored_sector_zeroed",
                         "stored_file_truncated", "write_enospc", "write_eio", "write_short", "block_record_enumerated", "undo_record_enumerated", "pruned_entry_read_fails"};
    return e;
}
Engine g_engine = MakeEngine();
SIM_REGISTER_ENGINE(g_engine);

} // namespace
