// C16 — the node recovers a consistent chainstate after a crash at any point.
// crashsim = nodesim chain workload on an on-disk node recorded by simfs; afterwards the recorded I/O log is cut at
// chosen operation indices (biased to sync/rename/unlink boundaries, or every index in the thorough tier) and a
// fresh node is started on each reconstructed directory: process-kill semantics and power-loss semantics
// (suffix of not-yet-synced operations discarded, optional torn tail).
#include "../core/sim.h"
#include "../nodesim/chainsim.h"
#include "../simfs/simfs.h"

#include <chain.h>
#include <coins.h>
#include <txdb.h>
#include <util/fs.h>
#include <util/time.h>
#include <validation.h>

#include <filesystem>

using namespace sim;
using namespace nodesim;

namespace {

enum { OP_CRASH = 100, OP_PRUNE = 101, OP_IOFAULT = 102 };

// Records which blocks became the tip, stamped with the I/O log index at which the harness operation that connected
// them STARTED. (ConnectTip flushes the coins view - possibly all the way to disk - before it calls SetTip and long before
// BlockConnected is delivered, so the notification time is too late to serve as "was connected before the crash".)
struct TipRecorder : public CValidationInterface {
    std::vector<std::pair<uint256, size_t>>* out;
    const size_t* op_start;
    TipRecorder(std::vector<std::pair<uint256, size_t>>* o, const size_t* s) : out(o), op_start(s) {}
    void BlockConnected(const kernel::ChainstateRole&, const std::shared_ptr<const CBlock>& block, const CBlockIndex*) override { out->emplace_back(block->GetHash(), *op_start); }
    void BlockDisconnected(const std::shared_ptr<const CBlock>& block, const CBlockIndex*) override { out->emplace_back(block->hashPrevBlock, *op_start); }
};

std::string Describe(const Op& op)
{
    if (op.kind == OP_CRASH) {
        char b[200];
        static const char* sel[] = {"uniform", "boundary", "burst-edge", "inside-coins-flush", "before-first-full-flush(kill)"};
        static const char* mode[] = {"kill", "powerloss(j=k)", "powerloss(j=last sync)", "powerloss(j seeded)"};
        snprintf(b, sizeof b, "FAULT crash at io[%s#%ld] %s torn=%ld", sel[op.mod(0, 5)], (long)op.arg(1), mode[op.mod(2, 4)], (long)(op.arg(4) & 1));
        return b;
    }
    if (op.kind == OP_PRUNE) return "pruneblockchain(height#" + std::to_string(op.arg(0)) + ")";
    if (op.kind == OP_IOFAULT) {
        static const char* k[] = {"ENOSPC on write", "EIO on write", "EIO on fsync/fdatasync", "ENOSPC on posix_fallocate"};
        return std::string("FAULT ") + k[op.mod(0, 4)] + " at the " + std::to_string(op.mod(1, 400)) + "-th next such call";
    }
    return DescribeChainOp(op);
}

Plan Gen(uint64_t seed, Tier tier)
{
    Rng rng(seed);
    Plan p = GenChainPlan(rng.next(), tier, "crash");
    // crashsim-specific knobs
    p.knobs["on_disk"] = 1;
    p.knobs["base"] = rng.range(101, 112);
    p.knobs["coins_cache_kb"] = rng.chance(1, 2) ? rng.range(4, 48) : 8192;
    p.knobs["batch_bytes"] = rng.chance(2, 3) ? rng.range(100, 3000) : (16 << 20);
    p.knobs["fast_prune"] = rng.chance(1, 2);
    p.knobs["prune"] = 0;
    p.knobs["redeliver_pct"] = 25;
    // rebuild the op list: crash workloads want flushes, reorgs straddling flushes, restarts; no manual invalidation
    p.ops.clear();
    int nops = (int)rng.range(12, tier == Tier::THOROUGH ? 60 : 36);
    int restarts = 0;
    for (int i = 0; i < nops; ++i) {
        Op op;
        int k = (int)rng.pick({40, 8, 2, 0, 0, 4, 22, 4, 0, 10});
        op.kind = k;
        switch (k) {
        case OP_MINE: {
            bool fork = rng.chance(30, 100);
            int defect = rng.chance(8, 100) ? (int)rng.range(1, D_NDEFECTS - 1) : D_NONE;
            op.a = {fork ? 1 : 0, (int64_t)(fork ? rng.below(1000) : rng.skewed(0, 3)), (int64_t)rng.range(0, 5), (int64_t)(rng.next() >> 16), defect, 0, (int64_t)rng.below(3), rng.chance(85, 100) ? 1 : 0};
            break;
        }
        case OP_DELIVER: op.a = {(int64_t)rng.below(2), (int64_t)rng.below(1000), 1, 1}; break;
        case OP_HEADER: op.a = {(int64_t)rng.below(2), (int64_t)rng.below(1000)}; break;
        case OP_RESTART:
            if (++restarts > 2) { op.kind = OP_FLUSH; op.a = {(int64_t)rng.below(4)}; }
            break;
        case OP_FLUSH: op.a = {(int64_t)rng.below(4)}; break;
        case OP_CLOCK: op.a = {(int64_t)rng.skewed(600, 7200)}; break; // long enough to pass m_next_write
        case OP_REORG: op.a = {(int64_t)rng.skewed(1, 5), (int64_t)rng.range(1, 2), (int64_t)rng.range(0, 4), (int64_t)(rng.next() >> 16), 0}; break;
        }
        if (op.kind == OP_REORG && rng.chance(2, 3)) {
            // flush, reorg, flush: the second flush has to move the on-disk coins across a fork (ReplayBlocks must roll back AND forward
            // if the crash lands inside it)
            Op f;
            f.kind = OP_FLUSH;
            f.a = {(int64_t)rng.below(2)};
            p.ops.push_back(f);
            p.ops.push_back(op);
            f.a = {(int64_t)rng.below(2)};
            p.ops.push_back(f);
            continue;
        }
        p.ops.push_back(op);
    }
    if (rng.chance(1, 4)) {
        // prune configuration: long padded base chain over 64 KiB block files, manual prune operations in the workload
        p.knobs["prune"] = 1;
        p.knobs["fast_prune"] = 1;
        p.knobs["base"] = rng.range(395, 430);
        p.knobs["pad_min"] = 1500;
        p.knobs["pad_max"] = rng.range(2500, 6000);
        int nprune = (int)rng.range(2, 5);
        for (int i = 0; i < nprune; ++i) {
            Op f;
            f.kind = OP_PRUNE;
            f.a = {(int64_t)rng.below(60)};
            p.ops.insert(p.ops.begin() + rng.below(p.ops.size() + 1), f);
        }
    }
    if (rng.chance(1, 4) && !p.ops.empty()) {
        // storage-fault configuration (kept apart from the fault-free ones by this knob)
        p.knobs["io_faults"] = 1;
        Op f;
        f.kind = OP_IOFAULT;
        f.a = {(int64_t)rng.below(4), (int64_t)rng.skewed(0, 120)};
        p.ops.insert(p.ops.begin() + rng.below(p.ops.size()), f);
    }
    if (tier == Tier::THOROUGH && rng.chance(1, 3)) {
        p.knobs["enumerate"] = 1;
    } else {
        int ncrash = (int)rng.range(20, tier == Tier::THOROUGH ? 120 : 50);
        for (int i = 0; i < ncrash; ++i) {
            Op op;
            op.kind = OP_CRASH;
            op.a = {(int64_t)rng.pick({3, 4, 2, 5, 2}), (int64_t)(rng.next() >> 20), (int64_t)rng.pick({3, 1, 4, 3}), (int64_t)(rng.next() >> 20), (int64_t)rng.below(4), (int64_t)(rng.next() >> 20)};
            p.ops.push_back(op);
        }
    }
    // crash during recovery: a share of the crash images is restarted under the recorder and cut a second time
    {
        static const int64_t kPct[] = {15, 30, 60};
        p.knobs["nested_pct"] = rng.chance(1, 2) ? 0 : kPct[rng.below(3)];
    }
    return p;
}

struct CrashSim {
    Ctx& ctx;
    ChainSim cs;
    std::vector<std::pair<uint256, size_t>> tips;         //!< (tip hash, log index when it became the tip)
    std::vector<std::pair<size_t, int>> flush_marks;      //!< (log index when a full flush had returned, tip idx then)
    std::shared_ptr<TipRecorder> recorder;
    size_t op_start{0};
    std::string live_root;
    size_t end{0};
    int images{0};

    explicit CrashSim(Ctx& c) : ctx(c), cs(c, ChainSimConfig{}) {}

    NodeOpts BaseOpts(const std::string& dir)
    {
        NodeOpts o;
        o.dir = dir;
        o.coins_db_in_memory = false;
        o.block_tree_db_in_memory = false;
        o.with_mempool = true;
        o.mempool_check_ratio = 0;
        o.fast_prune = ctx.knob("fast_prune", 0) != 0;
        o.prune_target = ctx.knob("prune", 0) ? node::BlockManager::PRUNE_TARGET_MANUAL : 0;
        o.regtest.fastprune = o.fast_prune;
        // Keep the node in initial-block-download mode: outside IBD every full flush starts, with probability 1/320, the
        // asynchronous "utxocompact" thread (CCoinsViewDB::CompactFullAsync), whose I/O would interleave with the main
        // thread's at the OS scheduler's discretion and make the recorded log (hence crash indices) irreproducible.
        if (ctx.knob("ibd", 1)) o.max_tip_age = std::chrono::seconds{-86400};
        return o;
    }

    void Recover(const simfs::CrashSpec& spec, int n)
    {
        std::string img = RunDir() + "/img" + std::to_string(n);
        simfs::ImageInfo ii;
        auto T0 = std::chrono::steady_clock::now();
        if (!simfs::Materialize(spec, img, &ii)) ctx.failf("sim-materialize-failed", "image %d", n);
        auto T1 = std::chrono::steady_clock::now();
        if (ii.tore) ctx.fault("torn_write");
        ctx.fault(spec.powerloss ? "crash_powerloss" : "crash_kill");
        if (ii.dropped) ctx.probe("unsynced_ops_dropped", ii.dropped);
        const size_t k = spec.k;
        char where[200];
        snprintf(where, sizeof where, "crash at io %zu/%zu %s j=%zu torn=%d", k, end, spec.powerloss ? "powerloss" : "kill", spec.j, (int)ii.tore);
        const int nested_pct = (int)ctx.knob("nested_pct", 0);
        const bool nest = nested_pct > 0 && (int)(mix64(mix64(k, spec.j) + spec.powerloss, (uint64_t)n + 0x51ed) % 100) < nested_pct;
        if (!nest) {
            // Reach probe: did the crash leave a torn coins flush (DB_HEAD_BLOCKS), and does repairing it need a rollback?
            // (Opening the database here does what the node's own start does first anyway: LevelDB log recovery.)
            try {
                CCoinsViewDB peek(DBParams{.path = fs::PathFromString(img + "/node0/chainstate"), .cache_bytes = 1 << 20}, CoinsViewOptions{});
                std::vector<uint256> heads = peek.GetHeadBlocks();
                if (heads.size() == 2) {
                    ctx.probe("torn_coins_flush_left");
                    int hn = cs.ref->Find(heads[0]), ho = heads[1].IsNull() ? 0 : cs.ref->Find(heads[1]);
                    if (hn >= 0 && ho >= 0 && !cs.ref->IsAncestor(ho, hn)) ctx.probe("replay_needs_rollback");
                }
            } catch (const std::exception&) {
                // an unopenable database is reported by the node start below
            }
        }
        RecoverImage(img, where, k, n, spec.powerloss, nest ? 1 : 0, nullptr);
        std::error_code ec;
        std::filesystem::remove_all(img, ec);
        ++images;
    }

    /** Start a fresh node on the directory `img` and judge what it recovers. With nest_depth > 0 the restart itself is recorded
     *  (the image is adopted as a durable log prefix) and cut once more: a crash DURING recovery (ReplayBlocks, reconnecting stored
     *  blocks, their flushes), again under kill or power-loss semantics, followed by a second restart judged by the same oracle.
     *  `lineage_tips`: blocks an earlier recovery of this lineage connected (they count as connected before the later crash). */
    void RecoverImage(const std::string& img, const char* where, size_t k, int n, bool powerloss, int nest_depth, const std::vector<uint256>* lineage_tips)
    {
        NodeOpts o = BaseOpts(img + "/node0");
        o.check_level = 4;
        o.check_blocks = 0;
        o.total_cache_bytes = 64 << 20;
        o.batch_write_bytes = nest_depth > 0 && ctx.knob("batch_bytes", 16 << 20) < (16 << 20) ? (uint64_t)ctx.knob("batch_bytes", 16 << 20) : (16 << 20);
        simfs::SavedLog saved;
        size_t nested_base = 0, nested_end = 0;
        std::vector<std::pair<uint256, size_t>> rtips;
        const size_t zero = 0;
        if (nest_depth > 0) {
            saved = simfs::TakeLog();
            nested_base = simfs::ArmAdopt(img);
            o.listeners.push_back(std::make_shared<TipRecorder>(&rtips, &zero));
        }
        SimNode rec(o);
        ctx.evf("recover %s", where);
        int R_idx = -2;
        rec.opts.after_load = [&] {
            LOCK(cs_main);
            Chainstate& c = rec.cs();
            if (!c.CoinsDB().GetHeadBlocks().empty()) ctx.failf("head-blocks-left-after-replay", "%s: DB_HEAD_BLOCKS still present after ReplayBlocks", where);
            uint256 R = c.CoinsDB().GetBestBlock();
            const RefUtxo* want = nullptr;
            static const RefUtxo kEmpty;
            if (R.IsNull()) {
                want = &kEmpty;
                R_idx = -1;
                ctx.probe("recovered_empty_chainstate");
            } else {
                R_idx = cs.ref->Find(R);
                if (R_idx < 0) ctx.failf("recovered-tip-unknown", "%s: coins DB best block %s is not a generated block", where, R.ToString().c_str());
                if (cs.ref->blocks[R_idx].verdict != Verdict::VALID) ctx.failf("recovered-tip-invalid", "%s: coins DB best block #%d is not valid per the model", where, R_idx);
                bool was_tip = R_idx == 0;
                for (auto& [h, at] : tips)
                    if (h == R && at <= k) { was_tip = true; break; }
                if (!was_tip && lineage_tips)
                    for (const uint256& h : *lineage_tips)
                        if (h == R) { was_tip = true; break; }
                if (!was_tip) ctx.failf("recovered-tip-never-connected", "%s: coins DB best block #%d (h=%d) was not being or had not been connected before the crash", where, R_idx, cs.ref->blocks[R_idx].height);
                want = cs.ref->blocks[R_idx].utxo.get();
            }
            std::unique_ptr<CCoinsViewCursor> cur = c.CoinsDB().Cursor();
            size_t ncoins = 0;
            for (; cur->Valid(); cur->Next()) {
                COutPoint key;
                Coin coin;
                if (!cur->GetKey(key) || !cur->GetValue(coin)) ctx.failf("recovered-utxo-unreadable", "%s", where);
                ++ncoins;
                auto it = want->find(key);
                if (it == want->end()) ctx.failf("recovered-utxo-extra-coin", "%s: recovered set (best block #%d) has a coin the model's UTXO of that block lacks", where, R_idx);
                const RefCoin& w = it->second;
                if (coin.out.nValue != w.value || coin.out.scriptPubKey != w.spk || (int)coin.nHeight != w.height || (bool)coin.fCoinBase != w.coinbase)
                    ctx.failf("recovered-utxo-coin-differs", "%s: coin differs from the model (best block #%d)", where, R_idx);
            }
            if (ncoins != want->size()) ctx.failf("recovered-utxo-missing-coin", "%s: recovered set has %zu coins, the model's UTXO(#%d) has %zu", where, ncoins, R_idx, want->size());
        };
        auto T1 = std::chrono::steady_clock::now();
        bool ok = rec.Start();
        auto T2 = std::chrono::steady_clock::now();
        if (nest_depth > 0) {
            nested_end = simfs::LogSize();
            simfs::Disarm();
            if (getenv("VERIF_C16_NESTLOG")) {
                const auto& log = simfs::Log();
                for (size_t i = nested_base; i < nested_end; ++i)
                    ctx.evf("nio[%zu] %s ino=%u off=%lu len=%lu %s %s mt=%d", i - nested_base, simfs::KindName(log[i].kind), log[i].ino, (unsigned long)log[i].off, (unsigned long)log[i].len, log[i].path.c_str(), log[i].path2.c_str(), (int)log[i].main_thread);
            }
        }
        if (getenv("VERIF_TIMING")) fprintf(stderr, "timing: start %.1f ms (k=%zu)\n", std::chrono::duration<double, std::milli>(T2 - T1).count(), k);
        if (!ok && getenv("VERIF_SIMFS_DUMP")) {
            const auto& log = simfs::Log();
            for (size_t i = 0; i < std::min(k, log.size()); ++i)
                fprintf(stderr, "io[%zu] %s ino=%u off=%lu len=%lu %s %s\n", i, simfs::KindName(log[i].kind), log[i].ino, (unsigned long)log[i].off, (unsigned long)log[i].len, log[i].path.c_str(), log[i].path2.c_str());
        }
        if (!ok) {
            std::string st = rec.last_status == node::ChainstateLoadStatus::FAILURE ? "needs-reindex" : "failed";
            ctx.failf(("recovery-" + st).c_str(), "%s: %s", where, rec.last_error.c_str());
        }
        // (3) tip work after reconnecting stored blocks >= work of the tip at the last completed full flush
        int F = 0;
        for (auto& [at, tipidx] : flush_marks)
            if (at <= k) F = tipidx;
        int t = cs.ref->Find(rec.TipHash());
        if (t < 0) ctx.failf("recovered-tip-unknown", "%s: tip after restart is not a generated block", where);
        if (cs.ref->blocks[t].verdict != Verdict::VALID) ctx.failf("invalid-block-in-active-chain", "%s: tip #%d after recovery is invalid per the model", where, t);
        if (cs.ref->Work(t) < cs.ref->Work(F)) ctx.failf("recovered-tip-behind-last-flush", "%s: tip after recovery #%d (h=%d) has less work than the tip at the last completed full flush #%d (h=%d)", where, t, cs.ref->blocks[t].height, F, cs.ref->blocks[F].height);
        if (R_idx >= 0 && t != R_idx) ctx.probe("rolled_forward_from_stored_blocks");
        if (R_idx >= 0 && F > 0 && cs.ref->Work(R_idx) < cs.ref->Work(F)) ctx.probe("coins_behind_last_flush");
        // (which of several equal-work stored tips gets activated after a restart is decided by CBlockIndex pointer order in
        // CBlockIndexWorkComparator, i.e. by heap layout: the trace records the tip's work, not its identity)
        ctx.evf("recovered R=#%d tip_work=%d F=#%d", R_idx, cs.ref->Work(t), F);
        ctx.fingerprint(mix64(mix64((uint64_t)R_idx + 7, cs.ref->Work(t)), mix64(powerloss + 2 * (lineage_tips != nullptr), cs.ref->blocks.size())));
        // (4) bounded liveness after faults stop: re-deliver everything, end in a legal most-work state with the model's UTXO
        if ((int)(mix64(k, n) % 100) < ctx.knob("redeliver_pct", 25)) {
            // temporarily point the chain oracle at the recovered node (non-owning: released again in the guard)
            struct Swap {
                ChainSim& c;
                std::unique_ptr<SimNode> live;
                Swap(ChainSim& cc, SimNode* rec) : c(cc), live(std::move(cc.node)) { c.node.reset(rec); }
                ~Swap() { c.node.release(); c.node = std::move(live); }
            } swap(cs, &rec);
            for (int i = 1; i < (int)cs.ref->blocks.size(); ++i)
                if (cs.delivered[i]) cs.node->ProcessBlock(cs.ref->blocks[i].block, true);
            cs.CheckAll("after re-delivery to the recovered node");
            cs.CheckUtxo("after re-delivery to the recovered node");
            ctx.probe("redelivered_after_recovery");
        }
        rec.Stop(false);
        if (nest_depth > 0) {
            // the crash during recovery: cut the recorded restart, rebuild, restore the outer log, recover once more
            const std::string img2 = img + "n";
            bool have2 = false;
            char where2[420];
            bool pl2 = false;
            if (nested_end > nested_base) {
                const auto& log = simfs::Log();
                const uint64_t r = mix64(mix64(k, n), nested_end);
                simfs::CrashSpec s2;
                s2.k = nested_base + 1 + (size_t)(r % (nested_end - nested_base));
                if (((r >> 20) & 3) == 0) {
                    // bias: right after a sync/rename/unlink of the restart
                    for (size_t i = s2.k; i > nested_base; --i)
                        if (log[i - 1].kind == simfs::OpKind::SYNC || log[i - 1].kind == simfs::OpKind::RENAME || log[i - 1].kind == simfs::OpKind::UNLINK) { s2.k = i - ((r >> 24) & 1); break; }
                    s2.k = std::clamp(s2.k, nested_base, nested_end);
                }
                const int mode = (int)((r >> 32) % 3);
                s2.powerloss = pl2 = mode != 0;
                s2.j = s2.k;
                if (mode == 2) {
                    size_t lo = nested_base;
                    for (size_t i = s2.k; i > nested_base; --i)
                        if (log[i - 1].kind == simfs::OpKind::SYNC || log[i - 1].kind == simfs::OpKind::SYNCDIR) { lo = i; break; }
                    s2.j = lo + (size_t)((r >> 40) % (s2.k - lo + 1));
                }
                s2.torn = s2.powerloss && ((r >> 52) & 1) && s2.j > nested_base;
                s2.torn_sel = (uint32_t)(r >> 8);
                simfs::ImageInfo i2;
                if (!simfs::Materialize(s2, img2, &i2)) ctx.failf("sim-materialize-failed", "nested image %d", n);
                ctx.fault(s2.powerloss ? "nested_crash_powerloss" : "nested_crash_kill");
                if (i2.tore) ctx.fault("torn_write");
                if (i2.dropped) ctx.probe("nested_unsynced_ops_dropped", i2.dropped);
                ctx.probe("recovery_io_ops_recorded", nested_end - nested_base);
                snprintf(where2, sizeof where2, "%s, then crash during the restart at its io %zu/%zu %s j=%zu torn=%d", where, s2.k - nested_base, nested_end - nested_base, s2.powerloss ? "powerloss" : "kill", s2.j - nested_base, (int)i2.tore);
                have2 = true;
            } else {
                ctx.probe("restart_wrote_nothing");
            }
            simfs::RestoreLog(std::move(saved));
            if (have2) {
                std::vector<uint256> lt;
                if (lineage_tips) lt = *lineage_tips;
                for (auto& [h, at] : rtips) lt.push_back(h);
                RecoverImage(img2, where2, k, n, pl2, nest_depth - 1, &lt);
                std::error_code ec;
                std::filesystem::remove_all(img2, ec);
                ctx.probe("nested_recoveries");
            }
        }
    }

    void Run()
    {
        live_root = RunDir() + "/live";
        fs::create_directories(fs::PathFromString(live_root));
        simfs::Arm(live_root);
        recorder = std::make_shared<TipRecorder>(&tips, &op_start);
        cs.tweak_opts = [&](NodeOpts& o) {
            NodeOpts b = BaseOpts(live_root + "/node0");
            b.coins_cache_bytes = o.coins_cache_bytes;
            b.batch_write_bytes = o.batch_write_bytes;
            b.check_level = o.check_level;
            b.check_blocks = o.check_blocks;
            b.listeners.push_back(recorder);
            o = b;
        };
        // TipIdx() needs a running node; for the clean-restart hook the node is stopped, so remember the tip separately
        int last_tip = 0;
        cs.on_full_flush = [&](int) {
            if (cs.node->Fatal()) return; // the flush reported an error (injected I/O fault): it did not complete
            flush_marks.emplace_back(simfs::LogSize(), cs.node->Running() ? cs.TipIdx() : last_tip);
        };
        // Process kills are also placed between the creation of the databases and the first completed full flush (the very first
        // coins flush has no old tip); power-loss cuts are not, because LevelDB's NewDB() itself is not power-loss safe (see DESIGN 11.2).
        size_t k_created = 0;
        bool created_seen = false;
        cs.on_node_started = [&] { if (!created_seen) { created_seen = true; k_created = simfs::LogSize(); } };
        cs.coinbase_pad_min = (int)ctx.knob("pad_min", 0);
        cs.coinbase_pad_max = (int)ctx.knob("pad_max", 0);
        cs.Setup();
        {
            LOCK(cs_main);
            cs.node->cs().ForceFlushStateToDisk(false);
        }
        flush_marks.emplace_back(simfs::LogSize(), cs.TipIdx());
        // Crash points and power-loss cuts start here: the property speaks of crashes while connecting blocks, flushing,
        // reorganizing or pruning; the one-time creation of the data directory and databases is outside it.
        const size_t k0 = simfs::LogSize();
        std::vector<Op> crashes;
        bool io_fault_stopped = false;
        for (const Op& op : ctx.plan.ops) {
            if (op.kind == OP_CRASH) { crashes.push_back(op); continue; }
            if (op.kind == OP_INVALIDATE || op.kind == OP_RECONSIDER) continue;
            if (op.kind == OP_PRUNE) {
                if (!ctx.knob("prune", 0)) continue;
                int tip_h = cs.node->Height();
                int target = tip_h - 288 - (int)op.mod(0, 60);
                if (target < 1) continue;
                op_start = simfs::LogSize();
                {
                    LOCK(cs_main);
                    PruneBlockFilesManual(cs.node->cs(), target);
                }
                bool pruned = WITH_LOCK(cs_main, return cs.node->cm().m_blockman.m_have_pruned);
                if (pruned) ctx.probe("manual_prune_deleted_files");
                ctx.evf("prune up to %d (tip %d) have_pruned=%d", target, tip_h, (int)pruned);
                if (cs.node->Fatal()) {
                    if (!simfs::FaultFired()) ctx.failf("node-fatal-error", "after manual prune");
                    // the injected I/O error surfaced in the prune's flush: the node stops here (see below)
                    ctx.fault("io_error_node_stopped");
                    ctx.evf("node stopped after injected I/O error: manual prune");
                    io_fault_stopped = true;
                    break;
                }
                continue;
            }
            if (op.kind == OP_IOFAULT) {
                // storage fault: the n-th next write / sync / fallocate fails with ENOSPC or EIO (armed once per run)
                static const simfs::FaultKind kinds[] = {simfs::FaultKind::ENOSPC_WRITE, simfs::FaultKind::EIO_WRITE, simfs::FaultKind::EIO_SYNC, simfs::FaultKind::ENOSPC_FALLOC};
                if (!simfs::FaultFired()) {
                    simfs::SetFault(kinds[op.mod(0, 4)], (uint64_t)op.mod(1, 400));
                    // A write that stdio issues from inside fwrite() of a block/undo record fails inside ~BufferedWriter, where the
                    // node's reaction is std::terminate (DESIGN 11.4): loud, but this in-process harness cannot continue from it,
                    // so those writes are passed over; the part of the record written at fclose and every other write can still fail.
                    simfs::SetFwriteFaultExempt(".dat");
                }
                continue;
            }
            last_tip = std::max(0, cs.TipIdx());
            op_start = simfs::LogSize();
            try {
                cs.ExecOp(op);
            } catch (const sim::Violation& v) {
                // After an injected I/O error the node is expected to stop with a fatal/flush error (or a failed restart);
                // what it leaves on disk is then judged exactly like a process kill at this point.
                // (A clean shutdown whose final flush hit the error comes back at the last state that did reach the disk.)
                if (!simfs::FaultFired() || (v.cls != "node-fatal-error" && v.cls != "restart-failed" && v.cls != "restart-lost-work")) throw;
                ctx.fault("io_error_node_stopped");
                ctx.evf("node stopped after injected I/O error: %s", v.cls.c_str());
                io_fault_stopped = true;
                break;
            }
            if (simfs::FaultFired() && !io_fault_stopped) {
                // the error may also surface as a notification without the operation failing: stop like the real node would
                if (cs.node->Fatal()) { ctx.fault("io_error_node_stopped"); io_fault_stopped = true; break; }
                ctx.probe("io_error_absorbed_by_operation");
            }
        }
        simfs::ClearFault();
        end = simfs::LogSize();
        if (io_fault_stopped) {
            // the stop itself is the crash: recover from the kill image at the end of the log (plus the seeded points before it)
            Op stop;
            stop.kind = OP_CRASH;
            stop.a = {0, (int64_t)(end >= k0 ? end - k0 : 0), 0, 0, 0, 0};
            crashes.push_back(stop);
        }
        if (simfs::OpsFromOtherThreads()) ctx.probe("io_from_background_thread", simfs::OpsFromOtherThreads());
        ctx.probe("io_ops_recorded", end);
        // stop the live node without flushing (its state does not matter any more) and stop recording
        simfs::Disarm();
        const auto& log = simfs::Log();
        std::vector<size_t> boundaries = simfs::BoundaryPoints();
        std::vector<size_t> burst_edges; // first and last write of consecutive write runs to one inode
        for (size_t i = 0; i < end; ++i) {
            if (log[i].kind != simfs::OpKind::WRITE) continue;
            bool first = i == 0 || log[i - 1].kind != simfs::OpKind::WRITE || log[i - 1].ino != log[i].ino;
            bool last = i + 1 >= end || log[i + 1].kind != simfs::OpKind::WRITE || log[i + 1].ino != log[i].ino;
            if (first) burst_edges.push_back(i + 1);
            if (last && !first) burst_edges.push_back(i);
        }
        // crash points strictly inside multi-write coins-DB flushes (partial batches between the DB_HEAD_BLOCKS marker and the final batch)
        std::map<uint32_t, bool> is_coins_ino;
        for (size_t i = 0; i < end; ++i)
            if (log[i].kind == simfs::OpKind::CREATE) is_coins_ino[log[i].ino] = log[i].path.find("chainstate/") != std::string::npos;
        std::vector<size_t> inside_coins_flush;
        for (size_t i = k0; i + 1 < end; ++i)
            if (log[i].kind == simfs::OpKind::WRITE && log[i + 1].kind == simfs::OpKind::WRITE && log[i].ino == log[i + 1].ino && is_coins_ino[log[i].ino]) inside_coins_flush.push_back(i + 1);
        auto last_sync_before = [&](size_t k) {
            for (size_t i = k; i-- > 0;)
                if (log[i].kind == simfs::OpKind::SYNC || log[i].kind == simfs::OpKind::SYNCDIR) return i + 1;
            return (size_t)0;
        };
        int n = 0;
        auto one = [&](size_t k, int mode, uint64_t jsel, bool torn, uint32_t torn_sel) {
            simfs::CrashSpec spec;
            spec.k = std::clamp(k, mode == 0 ? k_created : k0, end);
            spec.powerloss = mode != 0;
            if (mode == 1) spec.j = spec.k;
            else if (mode == 2) spec.j = last_sync_before(spec.k);
            else if (mode == 3) { size_t lo = last_sync_before(spec.k); spec.j = lo + (spec.k > lo ? jsel % (spec.k - lo + 1) : 0); if (jsel & 1) spec.j = jsel % (spec.k + 1); }
            spec.j = std::clamp(spec.j, std::min(k0, spec.k), spec.k);
            if (spec.k < k0) ctx.probe("crash_before_first_full_flush");
            spec.torn = torn && spec.j > k0; // the torn write must lie inside the crash window
            spec.torn_sel = torn_sel;
            Recover(spec, n++);
        };
        if (ctx.knob("enumerate", 0)) {
            for (size_t k = k_created; k < k0; ++k) one(k, 0, 0, false, 0);
            for (size_t k = k0; k <= end; ++k) {
                one(k, 0, 0, false, 0);
                one(k, 2, 0, (k & 1), (uint32_t)k);
                if (k % 3 == 0) one(k, 3, mix64(k, ctx.plan.seed), true, (uint32_t)mix64(k, 5));
            }
            ctx.probe("enumerated_every_io_index");
        } else {
            for (const Op& op : crashes) {
                size_t k;
                int sel = (int)op.mod(0, 5);
                if (sel == 4) { one(k_created + op.mod(1, k0 - k_created + 1), 0, 0, false, 0); continue; }
                if (sel == 3 && !inside_coins_flush.empty()) k = inside_coins_flush[op.mod(1, inside_coins_flush.size())];
                else if (sel == 1 && !boundaries.empty()) k = boundaries[op.mod(1, boundaries.size())];
                else if (sel == 2 && !burst_edges.empty()) k = burst_edges[op.mod(1, burst_edges.size())];
                else k = k0 + op.mod(1, end - k0 + 1);
                one(k, (int)op.mod(2, 4), (uint64_t)op.arg(3), op.arg(4) & 1, (uint32_t)op.arg(5));
            }
        }
        ctx.probe("recoveries", images);
        if (images) ctx.nontrivial = true;
        ctx.sim_ms = (uint64_t)(cs.now - cs.start_time) * 1000;
        cs.node->Stop(false);
    }
};

void Run(Ctx& ctx)
{
    CrashSim s(ctx);
    s.Run();
}

Engine MakeEngine()
{
    Engine e;
    e.prop = "C16";
    e.name = "crashsim/chainstate";
    e.level = "fault_enumeration";
    e.gen = Gen;
    e.run = Run;
    e.describe = Describe;
    e.chunk = 1;
    e.quick_runs = 160;
    e.thorough_runs = 400;
    e.quick_budget_s = 80;
    e.thorough_budget_s = 1500;
    e.run_timeout_s = 900;
    e.rule = "each run = one recorded workload on an on-disk regtest node (base chain 101-112 blocks, then 12-60 operations: blocks with transactions, forks/reorgs, forced and periodic flushes, clock "
             "jumps past the periodic-write interval, clean restarts; knobs: coins cache 4 KiB-8 MiB, coins batch 100 B-16 MiB so partial batches with DB_HEAD_BLOCKS are dense, -fastprune file size) "
             "followed by 20-120 crash points (or, thorough tier in 1/3 of runs, EVERY I/O index) x {process kill, power loss with cut j=k / j=last sync / seeded j, optional torn last append}; a fresh node "
             "is started on each reconstructed directory; in half of the runs 15-60 % of those restarts are themselves recorded and cut once more (crash during recovery), followed by a second restart under the same oracle. non-trivial = at least one recovery ran; distinct = distinct (recovered coins best block, tip after restart, semantics, #blocks) fingerprints. "
             "The probe `recoveries` counts crash images recovered (the evaluations of the fault space); `evaluations` counts workloads.";
    e.real_components = {"ChainstateManager/Chainstate incl. FlushStateToDisk, ReplayBlocks, LoadChainstate, VerifyDB level 4", "BlockManager flat files + block index DB", "CCoinsViewDB partial batches", "LevelDB (log, manifest, table files, recovery)", "glibc stdio buffering above the recorded file layer"};
    e.stub_components = {"disk and page cache (simfs: recorded pass-through to tmpfs; crash = log cut + rebuild)", "process crash (never a real kill)", "peers", "clock (SetMockTime)", "LevelDB background compaction thread: real, not scheduled by the simulator (counted by probe io_from_background_thread)"};
    e.assumptions = {"power-loss model: a suffix of not-yet-synced operations is discarded; an fsync/fdatasync of an inode makes all its earlier writes and its directory entry durable; rename/unlink/mkdir become durable with an fsync of the parent directory; torn writes only at 512-byte boundaries of an unsynced append",
                     "RefChain model is correct (see C08)", "oracle (3) uses the tip at the last forced full flush (or clean shutdown) that returned before the crash index"};
    e.expected_probes = {"recoveries", "crash_kill", "crash_powerloss", "torn_write", "unsynced_ops_dropped", "rolled_forward_from_stored_blocks", "redelivered_after_recovery", "reorg", "clean_restart", "torn_coins_flush_left", "replay_needs_rollback", "io_error_node_stopped", "nested_recoveries", "nested_crash_kill", "nested_crash_powerloss"};
    return e;
}
Engine g_engine = MakeEngine();
SIM_REGISTER_ENGINE(g_engine);

} // namespace
