// C27 — mempool resource and topology limits always hold.
// nodesim mempool module (real regtest node, shared mempool-history workload with bias "c27") plus operations of this
// engine that aim at the limits: coin splitting (so that a small mempool can be filled), bursts of independent
// transactions with many feerates (TrimToSize fires), chains and fan-outs driven into the cluster count / size limit,
// cluster merges, TRUC (version 3) families at every topology limit (second child with sibling eviction, grandchild,
// two parents, oversize child, mixed versions, packages), ephemeral-dust packages (dust at the threshold boundary, child not
// sweeping the dust, prioritised dusty parent, second child, replacement of the sweeping child).
// The oracle runs after every ProcessTransaction / ProcessNewPackage call on the snapshots taken around the call and is
// written from the property statement: it shares no code with txmempool.cpp / truc_policy.cpp / ephemeral_policy.cpp
// (own connected components, own dust threshold, own TRUC topology recomputation, exact integer feerate comparison).
#include "../core/sim.h"
#include "../nodesim/mempoolsim.h"

#include <consensus/validation.h>
#include <kernel/mempool_removal_reason.h>
#include <policy/policy.h>
#include <txmempool.h>
#include <util/time.h>
#include <validationinterface.h>

#include <algorithm>
#include <map>
#include <optional>
#include <set>

using namespace sim;
using namespace nodesim;

namespace {

enum OwnOp { C27_SPLIT = 300, C27_FILL, C27_CHAIN, C27_FANOUT, C27_MERGE, C27_TRUC, C27_DUST, C27_NOPS_END };

constexpr int kNTrucModes = 12;
constexpr int kNDustModes = 12;
const int64_t kRate[8] = {0, 100, 150, 500, 1000, 3000, 10000, 50000}; // sat per 1000 vB
const char* kTrucModeNames[kNTrucModes] = {"sibling(high fee)", "grandchild", "non-v3 child", "second unconfirmed parent", "oversize child", "package child with mempool+package parent",
                                           "sibling that also conflicts with the child", "sibling as 1-tx package", "v3 child of non-v3 parent", "package with two v3 parents", "two successive siblings", "sibling whose only direct conflict is an unrelated transaction"};
const char* kDustModeNames[kNDustModes] = {"package parent+sweeping child", "child does not sweep", "prioritised dusty parent", "second child not sweeping", "replace sweeping child by non-sweeping",
                                           "replace sweeping child by sweeping", "dusty tx with fee, alone", "two dust outputs", "prioritised +x then -x", "zero-fee dusty parent alone, then package", "child with own dust and fee", "fee-paying dusty parent prioritised by minus its fee"};

std::string Describe(const Op& op)
{
    char b[256];
    switch (op.kind) {
    case C27_SPLIT: snprintf(b, sizeof b, "split_confirmed_coin(seed=%ld, outputs=%ld, then_mine=%ld)", (long)op.arg(0), (long)op.arg(1), (long)(op.arg(2) & 1)); break;
    case C27_FILL: snprintf(b, sizeof b, "fill_burst(seed=%ld, count=%ld, max_outputs=%ld, rate_mode=%ld)", (long)op.arg(0), (long)op.arg(1), (long)op.arg(2), (long)op.arg(3)); break;
    case C27_CHAIN: snprintf(b, sizeof b, "chain_burst(seed=%ld, length=%ld, flags=%ld[1=start unconfirmed,2=v3], rate_mode=%ld)", (long)op.arg(0), (long)op.arg(1), (long)op.arg(2), (long)op.arg(3)); break;
    case C27_FANOUT: snprintf(b, sizeof b, "fanout_children(seed=%ld, children=%ld, rate_mode=%ld)", (long)op.arg(0), (long)op.arg(1), (long)op.arg(2)); break;
    case C27_MERGE: snprintf(b, sizeof b, "merge_clusters(seed=%ld, inputs=%ld, rate=%ld sat/kvB, avoid_v3=%ld)", (long)op.arg(0), (long)op.arg(1), (long)kRate[op.mod(2, 8)], (long)(op.arg(3) & 1)); break;
    case C27_TRUC: snprintf(b, sizeof b, "truc_family(seed=%ld, mode=%s, parent=%ld child=%ld third=%ld sat/kvB)", (long)op.arg(0), kTrucModeNames[op.mod(1, kNTrucModes)], (long)kRate[op.mod(2, 8)], (long)kRate[op.mod(3, 8)], (long)kRate[op.mod(4, 8)]); break;
    case C27_DUST: snprintf(b, sizeof b, "dust_family(seed=%ld, mode=%s, child=%ld sat/kvB, v3=%ld, dust_value_sel=%ld)", (long)op.arg(0), kDustModeNames[op.mod(1, kNDustModes)], (long)kRate[op.mod(2, 8)], (long)(op.arg(3) & 1), (long)op.mod(4, 5)); break;
    default: return DescribeMempoolOp(op);
    }
    return b;
}

Plan Gen(uint64_t seed, Tier tier)
{
    Plan p = GenMempoolPlan(seed, tier, "c27");
    Rng rng(mix64(seed, strhash("c27-own-ops")));
    // limits configuration: small cluster counts are common so that chains, fan-outs and merges reach them
    p.knobs["cluster_count"] = rng.chance(1, 2) ? rng.range(2, 10) : rng.chance(1, 2) ? rng.range(11, 25) : 64;
    const bool small_pool = p.knobs["mempool_kb"] < 300000;
    std::vector<uint32_t> w(C27_NOPS_END - C27_SPLIT, 0);
    auto W = [&](int k) -> uint32_t& { return w[k - C27_SPLIT]; };
    W(C27_SPLIT) = 2; W(C27_FILL) = small_pool ? 7 : 1; W(C27_CHAIN) = 4; W(C27_FANOUT) = 3; W(C27_MERGE) = 3; W(C27_TRUC) = 6; W(C27_DUST) = 5;
    auto make = [&](int kind) {
        Op op;
        op.kind = kind;
        int64_t s = (int64_t)(rng.next() >> 16);
        switch (kind) {
        case C27_SPLIT: op.a = {s, rng.range(6, 24), (int64_t)rng.chance(1, 2)}; break;
        case C27_FILL: op.a = {s, rng.range(4, 28), rng.range(1, 12), (int64_t)rng.below(4)}; break;
        case C27_CHAIN: op.a = {s, rng.range(2, 28), (int64_t)((rng.chance(1, 3) ? 1 : 0) | (rng.chance(1, 6) ? 2 : 0)), (int64_t)rng.below(4)}; break;
        case C27_FANOUT: op.a = {s, rng.range(2, 14), (int64_t)rng.below(4)}; break;
        case C27_MERGE: op.a = {s, rng.range(2, 8), (int64_t)rng.pick({0, 1, 1, 2, 6, 4, 2, 1}), (int64_t)rng.chance(2, 3)}; break;
        case C27_TRUC: op.a = {s, (int64_t)rng.below(kNTrucModes), (int64_t)rng.pick({1, 2, 2, 4, 6, 4, 1, 0}), (int64_t)rng.pick({0, 1, 2, 4, 6, 4, 2, 0}), (int64_t)rng.pick({0, 1, 1, 2, 3, 5, 6, 3})}; break;
        case C27_DUST: op.a = {s, (int64_t)rng.below(kNDustModes), (int64_t)rng.pick({0, 1, 1, 3, 6, 5, 3, 1}), (int64_t)rng.below(2), (int64_t)rng.below(5), (int64_t)rng.below(4)}; break;
        }
        return op;
    };
    // coins first: the base chain only has a handful of mature coinbases
    std::vector<Op> ops;
    int nsplit = (int)rng.range(1, 3);
    for (int i = 0; i < nsplit; ++i) {
        Op s = make(C27_SPLIT);
        s.a[2] = 1;
        ops.push_back(s);
    }
    int extra = (int)p.ops.size() / 3 + (int)rng.range(2, 8);
    std::vector<Op> own;
    for (int i = 0; i < extra; ++i) own.push_back(make(C27_SPLIT + (int)rng.pick(w)));
    // merge: keep the generator's order, own ops at random positions
    size_t oi = 0;
    for (size_t i = 0; i < p.ops.size(); ++i) {
        while (oi < own.size() && rng.chance(own.size() - oi, p.ops.size() - i + own.size() - oi)) ops.push_back(own[oi++]);
        ops.push_back(p.ops[i]);
    }
    while (oi < own.size()) ops.push_back(own[oi++]);
    p.ops = std::move(ops);
    return p;
}

// ---------------------------------------------------------------------------------------------
// independent recomputations

/** Dust threshold from the documented formula: an output is dust when its value is below the fee, at the dust relay feerate,
 *  of its own serialization plus the input that would spend it (148 bytes, or 67 for a witness program); provably
 *  unspendable outputs (OP_RETURN..., oversized scripts) have threshold 0. Fee = ceil(rate * size / 1000). */
int64_t OwnDustThreshold(const CTxOut& o, int64_t rate_per_kvb)
{
    const CScript& s = o.scriptPubKey;
    const size_t n = s.size();
    if ((n > 0 && s[0] == 0x6a) || n > 10000) return 0;
    const int64_t ser = 8 + (n < 253 ? 1 : n <= 0xffff ? 3 : 5) + (int64_t)n;
    const bool witprog = n >= 4 && n <= 42 && (s[0] == 0x00 || (s[0] >= 0x51 && s[0] <= 0x60)) && (size_t)s[1] + 2 == n;
    const int64_t spend = witprog ? 32 + 4 + 1 + 107 / 4 + 4 : 32 + 4 + 1 + 107 + 4;
    const int64_t num = rate_per_kvb * (ser + spend);
    return (num + 999) / 1000;
}

std::vector<uint32_t> OwnDustOutputs(const CTransaction& tx, int64_t rate_per_kvb)
{
    std::vector<uint32_t> v;
    for (uint32_t i = 0; i < tx.vout.size(); ++i)
        if (tx.vout[i].nValue < OwnDustThreshold(tx.vout[i], rate_per_kvb)) v.push_back(i);
    return v;
}

struct RemovalRecorder final : public CValidationInterface {
    struct Rec { CTransactionRef tx; MemPoolRemovalReason reason; };
    std::vector<Rec> recs;
    /** DynamicMemoryUsage() at the last TransactionAddedToMempool notification. ProcessTransaction sends it after LimitMempoolSize and
     *  before anything else looks at the pool: the usage at the instant the acceptance completed. (ProcessNewPackage sends it before
     *  LimitMempoolSize; there the harness's read right after the call is used.) */
    CTxMemPool* pool{nullptr};
    std::optional<size_t> usage_at_added;
    void TransactionRemovedFromMempool(const CTransactionRef& tx, MemPoolRemovalReason reason, uint64_t) override { recs.push_back({tx, reason}); }
    void TransactionAddedToMempool(const NewMempoolTransactionInfo&, uint64_t) override
    {
        if (pool) usage_at_added = pool->DynamicMemoryUsage();
    }
};

std::string Short(const Txid& id) { return id.ToString().substr(0, 10); }

class C27
{
public:
    Ctx& ctx;
    MempoolSim& ms;
    std::shared_ptr<RemovalRecorder> rec{std::make_shared<RemovalRecorder>()};
    int64_t max_bytes{0}, cluster_count{0}, cluster_vb{0}, dust_rate{3000}, incr_rate{100};
    bool standard{true};
    uint64_t state_fp{0};

    C27(Ctx& c, MempoolSim& m) : ctx(c), ms(m) {}

    void Attach()
    {
        max_bytes = ctx.knob("mempool_kb", 300000) * 1000;
        cluster_count = ctx.knob("cluster_count", 64);
        cluster_vb = ctx.knob("cluster_kvb", 101) * 1000;
        // configuration of the node (not logic): the pool was built with defaults for these
        dust_rate = ms.pool().m_opts.dust_relay_feerate.GetFeePerK();
        incr_rate = ms.pool().m_opts.incremental_relay_feerate.GetFeePerK();
        standard = ms.pool().m_opts.require_standard;
        if ((int64_t)ms.pool().m_opts.max_size_bytes != max_bytes || (int64_t)ms.pool().m_opts.limits.cluster_count != cluster_count || (int64_t)ms.pool().m_opts.limits.cluster_size_vbytes != cluster_vb)
            ctx.failf("harness-config-mismatch", "pool options (%ld bytes, %ld, %ld vB) differ from the knobs (%ld, %ld, %ld)", (long)ms.pool().m_opts.max_size_bytes, (long)ms.pool().m_opts.limits.cluster_count,
                      (long)ms.pool().m_opts.limits.cluster_size_vbytes, (long)max_bytes, (long)cluster_count, (long)cluster_vb);
        rec->pool = &ms.pool();
        ms.node().signals->RegisterSharedValidationInterface(rec);
    }
    void Detach() { ms.node().signals->UnregisterSharedValidationInterface(rec); }

    // ---- oracle -------------------------------------------------------------------------------

    /** base fee of a transaction that is not in a snapshot, from the model's UTXO set, the pre-state entries and its package mates */
    bool OwnBaseFee(const CTransaction& tx, const SubmitRecord& r, CAmount& fee)
    {
        CAmount in = 0, out = 0;
        const RefUtxo& utxo = ms.TipUtxo();
        for (const CTxIn& vin : tx.vin) {
            if (auto it = utxo.find(vin.prevout); it != utxo.end()) { in += it->second.value; continue; }
            const CTransaction* p = nullptr;
            if (auto b = r.before.find(vin.prevout.hash); b != r.before.end()) p = b->second.tx.get();
            if (!p)
                for (auto& t : r.txs)
                    if (t->GetHash() == vin.prevout.hash) p = t.get();
            if (!p || vin.prevout.n >= p->vout.size()) return false;
            in += p->vout[vin.prevout.n].nValue;
        }
        for (auto& o : tx.vout) out += o.nValue;
        fee = in - out;
        return true;
    }

    void OnSubmit(const SubmitRecord& r)
    {
        std::vector<RemovalRecorder::Rec> removed;
        removed.swap(rec->recs);
        const std::optional<size_t> usage_at_added = rec->usage_at_added;
        rec->usage_at_added.reset();
        if (r.test_accept) return;

        // what the call reported
        std::set<std::string> reasons;
        if (!r.is_package) reasons.insert(r.reject_reason);
        else {
            reasons.insert(r.pkg_reason);
            for (auto& [w, tr] : r.pkg_tx_results) reasons.insert(tr.second);
        }
        if (reasons.count("too-large-cluster")) ctx.probe("too_large_cluster_rejected");
        if (reasons.count("TRUC-violation")) ctx.probe("truc_violation_rejected");
        if (reasons.count("dust")) ctx.probe("dust_rejected");
        if (reasons.count("missing-ephemeral-spends") || reasons.count("unspent-dust")) ctx.probe("missing_ephemeral_spend_rejected");
        if (reasons.count("mempool full")) ctx.probe("mempool_full_rejected");
        if (reasons.count("mempool min fee not met")) ctx.probe("mempool_min_fee_rejected");

        std::vector<const SnapEntry*> fresh;
        for (auto& [id, e] : r.after)
            if (!r.before.count(id)) fresh.push_back(&e);
        const bool accepted = !fresh.empty() || (!r.is_package && r.result_type == MempoolAcceptResult::ResultType::VALID);

        // ---- clause: immediately after an eviction for space the minimum feerate is above the evicted feerate
        {
            CAmount fee = 0;
            int64_t size = 0;
            size_t n = 0, n_new = 0, n_expired = 0;
            bool computable = true;
            for (auto& x : removed) {
                if (x.reason == MemPoolRemovalReason::EXPIRY) ++n_expired;
                if (x.reason != MemPoolRemovalReason::SIZELIMIT) continue;
                ++n;
                const Txid id = x.tx->GetHash();
                if (auto b = r.before.find(id); b != r.before.end()) {
                    fee += b->second.modified_fee;
                    size += b->second.vsize;
                } else {
                    // added and evicted within this call: fee from the model, prioritisation delta from the pool's table
                    ++n_new;
                    CAmount base = 0;
                    if (!OwnBaseFee(*x.tx, r, base)) { computable = false; continue; }
                    CAmount delta = 0;
                    for (auto& d : ms.pool().GetPrioritisedTransactions())
                        if (d.txid == id) delta = d.delta;
                    fee += base + delta;
                    size += GetVirtualTransactionSize(*x.tx);
                }
            }
            if (n_expired) ctx.probe("expiry_during_submit");
            if (n) {
                ctx.probe("size_eviction");
                ctx.probe("size_evicted_txs", n);
                if (n_new) ctx.probe("size_eviction_of_new_tx");
                if (n > 1) ctx.probe("size_eviction_multi_tx");
                ctx.nontrivial = true;
                const int64_t minfee = r.minfee_after.GetFeePerK();
                ctx.evf("trim: evicted=%zu (new=%zu) fee=%ld vsize=%ld minfee_after=%ld", n, n_new, (long)fee, (long)size, (long)minfee);
                if (!computable || size <= 0) ctx.probe("minfee_check_skipped");
                else {
                    ctx.probe("minfee_checked");
                    // exact: minfee/1000 > fee/size
                    if (!((__int128)minfee * size > (__int128)fee * 1000))
                        ctx.failf("minfee-not-above-evicted-feerate", "%zu transactions were evicted for size (modified fees %ld, vsize %ld = %.3f sat/kvB) but GetMinFee() afterwards is %ld sat/kvB", n, (long)fee, (long)size,
                                  1000.0 * fee / size, (long)minfee);
                    // documented contract of TrimToSize: the rolling minimum is the feerate of the removed chunk plus the incremental relay feerate;
                    // the aggregate feerate of everything evicted is a lower bound of the largest chunk feerate
                    if (fee >= 0) {
                        const int64_t floor_rate = (int64_t)(((__int128)fee * 1000) / size);
                        if (minfee < floor_rate + incr_rate)
                            ctx.failf("minfee-bump-below-evicted-plus-incremental", "%zu transactions were evicted for size at %ld sat/kvB (fees %ld, vsize %ld) but GetMinFee() afterwards is %ld sat/kvB < evicted + incremental %ld", n,
                                      (long)floor_rate, (long)fee, (long)size, (long)minfee, (long)incr_rate);
                    } else ctx.probe("size_eviction_negative_fee");
                }
            }
        }

        if (!accepted) return;
        ctx.probe("acceptance_checked");

        // ---- clause: memory usage within the configured maximum after every acceptance
        // The statement is about the instant the acceptance completed (LimitMempoolSize has run). Any later look at the linearization
        // (CTxMemPool::check inside ProcessTransaction with check_ratio=1, GetFeerateDiagram, block building) relinearizes the cluster that
        // TrimToSize just cut and re-inserts its chunks into TxGraph's chunk index, which lifts DynamicMemoryUsage() by up to a few
        // hundred bytes, also above the maximum: that is counted by a probe and reported, it is not an acceptance. So the usage is
        // taken inside the TransactionAddedToMempool notification for ProcessTransaction, and from the harness's read right after the
        // call (its first access to the pool) for ProcessNewPackage, which does not call check().
        std::optional<uint64_t> usage;
        if (r.is_package) usage = r.usage_after;
        else if (usage_at_added) usage = *usage_at_added;
        if (usage) {
            ctx.probe("usage_checked");
            if ((int64_t)*usage > max_bytes)
                ctx.failf("mempool-usage-above-max", "when the acceptance completed DynamicMemoryUsage() = %lu > max_size_bytes = %ld (%zu entries, %s)", (unsigned long)*usage, (long)max_bytes, r.after.size(), r.is_package ? "package" : "single");
        }
        if (!r.is_package && (int64_t)r.usage_after > max_bytes) ctx.probe("usage_above_max_after_relinearizing_query"); // after check() inside ProcessTransaction
        if ((int64_t)r.usage_after * 2 > max_bytes) ctx.probe("usage_above_half_max");

        // ---- clause: every cluster within the count and size limits (connected components, computed naively)
        std::map<Txid, std::set<Txid>> parents, children;
        for (auto& [id, e] : r.after)
            for (const CTxIn& vin : e.tx->vin)
                if (vin.prevout.hash != id && r.after.count(vin.prevout.hash)) { parents[id].insert(vin.prevout.hash); children[vin.prevout.hash].insert(id); }
        std::set<Txid> seen;
        std::vector<int64_t> comp_sizes;
        for (auto& [id, e] : r.after) {
            if (seen.count(id)) continue;
            std::vector<Txid> st{id}, comp;
            seen.insert(id);
            while (!st.empty()) {
                Txid x = st.back();
                st.pop_back();
                comp.push_back(x);
                for (auto* rel : {&parents, &children})
                    if (auto it = rel->find(x); it != rel->end())
                        for (auto& y : it->second)
                            if (seen.insert(y).second) st.push_back(y);
            }
            // The limit is enforced on the sum of (sigop-adjusted) weights against 4 x cluster_size_vbytes. Per entry,
            // weight <= adjusted weight and 4*vsize-3 <= adjusted weight <= 4*vsize, so both sums below are lower bounds.
            int64_t w_lo = 0, vsum = 0;
            for (auto& x : comp) {
                const SnapEntry& xe = r.after.at(x);
                w_lo += std::max<int64_t>(GetTransactionWeight(*xe.tx), 4 * xe.vsize - 3);
                vsum += xe.vsize;
            }
            comp_sizes.push_back((int64_t)comp.size());
            if ((int64_t)comp.size() > cluster_count)
                ctx.failf("cluster-count-above-limit", "after an acceptance a cluster (connected component) has %zu transactions, limit %ld (tx %s)", comp.size(), (long)cluster_count, Short(id).c_str());
            if (w_lo > 4 * cluster_vb)
                ctx.failf("cluster-size-above-limit", "after an acceptance a cluster of %zu transactions has weight >= %ld (sum of vsizes %ld), limit %ld vB = %ld WU (tx %s)", comp.size(), (long)w_lo, (long)vsum, (long)cluster_vb,
                          (long)(4 * cluster_vb), Short(id).c_str());
            if ((int64_t)comp.size() == cluster_count) ctx.probe("cluster_at_count_limit");
            if (vsum * 10 >= cluster_vb * 8) ctx.probe("cluster_above_80pct_of_size_limit");
            if (vsum > cluster_vb) ctx.probe("cluster_vsize_sum_above_limit_by_rounding");
            if (comp.size() >= 3) ctx.probe("cluster_of_3_or_more");
        }

        // ---- clause: TRUC topology (standardness on, no block disconnection in this history)
        size_t n_v3 = 0;
        if (standard && !ms.any_disconnect) {
            for (auto& [id, e] : r.after) {
                const bool v3 = e.tx->version == 3;
                const auto pit = parents.find(id);
                const auto cit = children.find(id);
                const size_t np = pit == parents.end() ? 0 : pit->second.size();
                const size_t nc = cit == children.end() ? 0 : cit->second.size();
                if (pit != parents.end())
                    for (auto& p : pit->second) {
                        const bool pv3 = r.after.at(p).tx->version == 3;
                        if (v3 && !pv3) ctx.failf("truc-child-of-non-truc-parent", "version-3 tx %s spends unconfirmed non-version-3 tx %s", Short(id).c_str(), Short(p).c_str());
                        if (!v3 && pv3) ctx.failf("non-truc-child-of-truc-parent", "non-version-3 tx %s spends unconfirmed version-3 tx %s", Short(id).c_str(), Short(p).c_str());
                    }
                if (!v3) continue;
                ++n_v3;
                if (np > 1) ctx.failf("truc-more-than-one-unconfirmed-parent", "version-3 tx %s has %zu unconfirmed parents", Short(id).c_str(), np);
                if (nc > 1) ctx.failf("truc-more-than-one-unconfirmed-child", "version-3 tx %s has %zu unconfirmed children", Short(id).c_str(), nc);
                if (e.vsize > 10000) ctx.failf("truc-tx-above-max-vsize", "version-3 tx %s has vsize %ld > 10000", Short(id).c_str(), (long)e.vsize);
                if (np >= 1 && e.vsize > 1000) ctx.failf("truc-child-above-child-max-vsize", "version-3 tx %s has an unconfirmed parent and vsize %ld > 1000", Short(id).c_str(), (long)e.vsize);
                // one unconfirmed parent and one unconfirmed child at most, i.e. ancestor and descendant sets of at most 2:
                // a transaction with an unconfirmed parent must not itself have an unconfirmed child
                if (np >= 1 && nc >= 1) ctx.failf("truc-chain-longer-than-two", "version-3 tx %s has both an unconfirmed parent and an unconfirmed child", Short(id).c_str());
                if (np == 1) ctx.probe("truc_pair_in_mempool");
            }
        } else if (ms.any_disconnect) ctx.probe("truc_clause_skipped_after_disconnect");

        // ---- clause: dust (standardness on): checked on the entries this call added
        size_t n_dusty = 0;
        if (standard) {
            for (const SnapEntry* e : fresh) {
                const Txid id = e->tx->GetHash();
                const auto dust = OwnDustOutputs(*e->tx, dust_rate);
                if (!dust.empty()) {
                    ++n_dusty;
                    ctx.probe("dusty_tx_accepted");
                    if (dust.size() > 1) ctx.failf("dust-tx-with-several-dust-outputs", "accepted tx %s has %zu dust outputs", Short(id).c_str(), dust.size());
                    if (e->base_fee != 0) ctx.failf("dust-tx-with-nonzero-base-fee", "accepted tx %s has a dust output (#%u, %ld sat) and base fee %ld", Short(id).c_str(), dust[0], (long)e->tx->vout[dust[0]].nValue, (long)e->base_fee);
                    if (e->modified_fee != 0)
                        ctx.failf("dust-tx-with-nonzero-modified-fee", "accepted tx %s has a dust output (#%u, %ld sat), base fee 0 and modified fee %ld", Short(id).c_str(), dust[0], (long)e->tx->vout[dust[0]].nValue, (long)e->modified_fee);
                }
                // its unconfirmed parents' dust must be spent by it
                std::set<Txid> ps;
                for (const CTxIn& vin : e->tx->vin) ps.insert(vin.prevout.hash);
                for (auto& p : ps) {
                    auto pe = r.after.find(p);
                    if (pe == r.after.end()) continue;
                    for (uint32_t i : OwnDustOutputs(*pe->second.tx, dust_rate)) {
                        bool spent = false;
                        for (const CTxIn& vin : e->tx->vin)
                            if (vin.prevout == COutPoint(p, i)) spent = true;
                        if (!spent)
                            ctx.failf("child-of-dusty-parent-does-not-spend-dust", "accepted tx %s spends unconfirmed tx %s but not its dust output #%u (%ld sat)", Short(id).c_str(), Short(p).c_str(), i, (long)pe->second.tx->vout[i].nValue);
                        ctx.probe("dust_sweeping_child_accepted");
                    }
                }
            }
        }

        // fingerprint of the model state: cluster shape, TRUC / dust population, occupancy, minimum fee
        std::sort(comp_sizes.begin(), comp_sizes.end());
        uint64_t fp = mix64(r.after.size(), n_v3 * 131 + n_dusty);
        for (auto s : comp_sizes) fp = mix64(fp, (uint64_t)s);
        fp = mix64(fp, (uint64_t)(r.usage_after * 16 / (uint64_t)std::max<int64_t>(max_bytes, 1)));
        fp = mix64(fp, (uint64_t)r.minfee_after.GetFeePerK());
        state_fp = fp;
    }

    void AfterOp()
    {
        rec->recs.clear(); // removals by blocks, reorgs and expiry outside submissions are not this property's business
        ctx.fingerprint(mix64(state_fp, (uint64_t)ms.TipIdx()));
    }

    // ---- own operations ------------------------------------------------------------------------

    using Sp = MempoolSim::Spendable;

    std::vector<Sp> ConfStd()
    {
        std::vector<Sp> v;
        for (auto& s : ms.FreeConfirmed())
            if (Keys().Classify(s.coin.spk).kind != SK::TRUE_BARE && s.coin.value >= 50000) v.push_back(s);
        return v;
    }
    std::vector<Sp> Unconf(bool avoid_v3)
    {
        std::vector<Sp> v;
        for (auto& s : ms.FreeUnconfirmed()) {
            if (s.coin.value < 50000) continue;
            if (avoid_v3) {
                auto m = ms.made.find(s.op.hash);
                if (m != ms.made.end() && m->second.tx->version == 3) continue;
            }
            v.push_back(s);
        }
        return v;
    }
    static Sp Take(std::vector<Sp>& v, Rng& r)
    {
        size_t i = r.below(v.size());
        Sp s = v[i];
        v.erase(v.begin() + i);
        return s;
    }
    CTxOut StdOut(Rng& r, CAmount v)
    {
        static const SK kinds[] = {SK::P2WPKH, SK::P2TR, SK::TRUE_WSH, SK::P2PKH, SK::P2SH_P2WPKH};
        return CTxOut(v, Keys().Spk(kinds[r.below(5)], (int)r.below(N_KEYS)));
    }
    /** n outputs of equal value; the last one takes the change (MakeTx sets it) */
    std::vector<CTxOut> EqualOuts(Rng& r, CAmount total, int n)
    {
        std::vector<CTxOut> outs;
        CAmount each = total / (n + 1);
        for (int i = 0; i < n; ++i) outs.push_back(StdOut(r, each));
        return outs;
    }
    Sp OutOf(const CTransactionRef& tx, uint32_t i)
    {
        int h = ms.cs.ref->blocks[ms.TipIdx()].height + 1;
        return Sp{COutPoint(tx->GetHash(), i), RefCoin{tx->vout[i].nValue, tx->vout[i].scriptPubKey, h, false}, false};
    }
    static bool Valid(const SubmitRecord& r) { return !r.is_package && r.result_type == MempoolAcceptResult::ResultType::VALID; }
    int64_t PickRate(Rng& r, int mode)
    {
        switch (mode & 3) {
        case 0: return kRate[1 + r.below(7)];                       // anything relayable
        case 1: {
            // crowded just above the current floor (relay minimum or rolling minimum): candidates for immediate eviction
            LOCK2(cs_main, ms.pool().cs);
            return std::max<int64_t>(100, ms.pool().GetMinFee().GetFeePerK()) + (int64_t)r.below(250);
        }
        case 2: return (int64_t)r.skewed(100, 60000);               // wide
        default: return kRate[4 + r.below(3)];                      // comfortable
        }
    }

    void ExecOwn(const Op& op)
    {
        Rng r(mix64((uint64_t)op.arg(0), (uint64_t)op.kind));
        switch (op.kind) {
        case C27_SPLIT: {
            auto conf = ConfStd();
            if (conf.empty()) { ctx.ev("split: no confirmed coin"); break; }
            std::sort(conf.begin(), conf.end(), [](const Sp& a, const Sp& b) { return a.coin.value > b.coin.value; });
            Sp coin = conf[r.below(std::min<size_t>(conf.size(), 3))];
            int n = (int)std::clamp<int64_t>(op.arg(1), 2, 40);
            n = (int)std::min<int64_t>(n, std::max<int64_t>(2, (cluster_vb - 250) / 45));
            CTransactionRef tx = ms.MakeTx({coin}, EqualOuts(r, coin.coin.value, n), 5000, 0, 2, 0, {}, SigDefect::NONE, TS_FANOUT);
            SubmitRecord rec1 = ms.SubmitTx(tx, false, TS_FANOUT);
            if (Valid(rec1) && (op.arg(2) & 1)) {
                ctx.probe("split_and_mined");
                Op m(MP_MINE, {100, 0, op.arg(0)});
                ms.ExecOp(m);
            }
            break;
        }
        case C27_FILL: {
            int count = (int)std::clamp<int64_t>(op.arg(1), 1, 40);
            int maxout = (int)std::clamp<int64_t>(op.arg(2), 1, 16);
            int done = 0;
            for (int i = 0; i < count; ++i) {
                auto conf = ConfStd();
                if (conf.empty()) break;
                Sp coin = Take(conf, r);
                int n = 1 + (int)r.below(maxout);
                n = (int)std::min<int64_t>(n, std::max<int64_t>(1, (cluster_vb - 250) / 45));
                CTransactionRef tx = ms.MakeTx({coin}, EqualOuts(r, coin.coin.value, n), PickRate(r, (int)op.arg(3)), 0, 2, 0, {}, SigDefect::NONE, TS_SIMPLE);
                ms.SubmitTx(tx, false, TS_SIMPLE);
                ++done;
            }
            if (done) ctx.probe("fill_burst");
            break;
        }
        case C27_CHAIN: {
            int len = (int)std::clamp<int64_t>(op.arg(1), 1, 40);
            uint32_t version = (op.arg(2) & 2) ? 3 : 2;
            std::vector<Sp> start;
            if (op.arg(2) & 1) start = Unconf(version != 3);
            bool from_unconf = !start.empty();
            if (start.empty()) start = ConfStd();
            if (start.empty()) break;
            Sp cur = Take(start, r);
            if (from_unconf) {
                auto m = ms.made.find(cur.op.hash);
                if (m != ms.made.end()) version = m->second.tx->version == 3 ? 3 : 2;
            }
            int okn = 0;
            for (int i = 0; i < len; ++i) {
                int n = 1 + (int)r.below(2);
                CTransactionRef tx = ms.MakeTx({cur}, EqualOuts(r, cur.coin.value, n), PickRate(r, (int)op.arg(3)), 0, version, 0, {}, SigDefect::NONE, TS_CHAIN);
                if (!Valid(ms.SubmitTx(tx, false, TS_CHAIN))) break;
                ++okn;
                cur = OutOf(tx, (uint32_t)(tx->vout.size() - 1));
                if (cur.coin.value < 50000) break;
            }
            if (okn >= 3) ctx.probe("chain_burst_3_or_more");
            break;
        }
        case C27_FANOUT: {
            auto conf = ConfStd();
            if (conf.empty()) break;
            Sp coin = Take(conf, r);
            int n = (int)std::clamp<int64_t>(op.arg(1), 2, 24);
            n = (int)std::min<int64_t>(n, std::max<int64_t>(2, (cluster_vb - 250) / 45));
            CTransactionRef parent = ms.MakeTx({coin}, EqualOuts(r, coin.coin.value, n), PickRate(r, (int)op.arg(2)), 0, 2, 0, {}, SigDefect::NONE, TS_FANOUT);
            if (!Valid(ms.SubmitTx(parent, false, TS_FANOUT))) break;
            int okn = 0;
            for (int i = 0; i < n; ++i) {
                Sp in = OutOf(parent, (uint32_t)i);
                if (in.coin.value < 50000) continue;
                CTransactionRef ch = ms.MakeTx({in}, EqualOuts(r, in.coin.value, 1), PickRate(r, (int)op.arg(2)), 0, 2, 0, {}, SigDefect::NONE, TS_CHAIN);
                if (Valid(ms.SubmitTx(ch, false, TS_CHAIN))) ++okn;
            }
            if (okn >= 2) ctx.probe("fanout_children_2_or_more");
            break;
        }
        case C27_MERGE: {
            auto un = Unconf(op.arg(3) & 1);
            if (un.size() < 2) break;
            int k = (int)std::clamp<int64_t>(op.arg(1), 2, 10);
            std::vector<Sp> ins;
            std::set<Txid> used;
            // prefer outputs of distinct transactions (distinct clusters, mostly)
            for (int pass = 0; pass < 2 && (int)ins.size() < k; ++pass)
                for (size_t tries = 0; tries < un.size() * 2 && (int)ins.size() < k && !un.empty(); ++tries) {
                    size_t i = r.below(un.size());
                    if (pass == 0 && used.count(un[i].op.hash)) continue;
                    used.insert(un[i].op.hash);
                    ins.push_back(un[i]);
                    un.erase(un.begin() + i);
                }
            if (ins.size() < 2) break;
            CTransactionRef tx = ms.MakeTx(ins, EqualOuts(r, ms.InputSum(ins), 1), kRate[op.mod(2, 8)], 0, 2, 0, {}, SigDefect::NONE, TS_FANIN);
            if (Valid(ms.SubmitTx(tx, false, TS_FANIN))) ctx.probe("cluster_merge_accepted");
            break;
        }
        case C27_TRUC: ExecTruc(op, r); break;
        case C27_DUST: ExecDust(op, r); break;
        }
    }

    void ExecTruc(const Op& op, Rng& r)
    {
        const int mode = (int)op.mod(1, kNTrucModes);
        const int64_t rp = kRate[op.mod(2, 8)], rc = kRate[op.mod(3, 8)], rt = kRate[op.mod(4, 8)];
        auto conf = ConfStd();
        if (conf.empty()) return;
        ctx.probe("truc_family_built");
        if (mode == 8) {
            // version-3 child of a non-version-3 unconfirmed transaction
            auto un = Unconf(true);
            if (un.empty()) return;
            std::vector<Sp> ins{Take(un, r)};
            if (r.chance(1, 3)) ins.push_back(Take(conf, r));
            ms.SubmitTx(ms.MakeTx(ins, EqualOuts(r, ms.InputSum(ins), 1), rt, 0, 3, 0, {}, SigDefect::NONE, TS_TRUC), false, TS_TRUC);
            return;
        }
        if (mode == 9) {
            // package: two version-3 parents and a version-3 child of both
            if (conf.size() < 2) return;
            Sp c1 = Take(conf, r), c2 = Take(conf, r);
            CTransactionRef pa = ms.MakeTx({c1}, EqualOuts(r, c1.coin.value, 1), rp, 0, 3, 0, {}, SigDefect::NONE, TS_TRUC);
            CTransactionRef pb = ms.MakeTx({c2}, EqualOuts(r, c2.coin.value, 1), rp, 0, 3, 0, {}, SigDefect::NONE, TS_TRUC);
            std::vector<Sp> ins{OutOf(pa, 0), OutOf(pb, 0)};
            CTransactionRef ch = ms.MakeTx(ins, EqualOuts(r, ms.InputSum(ins), 1), std::max<int64_t>(rc, 1000), 0, 3, 0, {}, SigDefect::NONE, TS_TRUC);
            ms.SubmitPackage({pa, pb, ch}, false, PS_CHILD_WITH_PARENTS);
            return;
        }
        Sp coin = Take(conf, r);
        CTransactionRef P = ms.MakeTx({coin}, EqualOuts(r, coin.coin.value, 3), rp, 0, 3, 0, {}, SigDefect::NONE, TS_TRUC);
        CTransactionRef C1;
        if (mode == 4) {
            // oversize child (> 1000 vB) instead of the ordinary one
            if (!Valid(ms.SubmitTx(P, false, TS_TRUC))) return;
            Sp in = OutOf(P, 0);
            int nout = (int)r.range(24, 40);
            ms.SubmitTx(ms.MakeTx({in}, EqualOuts(r, in.coin.value, nout), std::max<int64_t>(rc, 150), 0, 3, 0, {}, SigDefect::NONE, TS_TRUC), false, TS_TRUC);
            return;
        }
        {
            Sp in = OutOf(P, 0);
            C1 = ms.MakeTx({in}, EqualOuts(r, in.coin.value, 1), rc, 0, 3, 0, {}, SigDefect::NONE, TS_TRUC);
        }
        if (rp == 0 || r.chance(1, 4)) {
            ms.SubmitPackage({P, C1}, false, PS_CPFP);
        } else {
            if (!Valid(ms.SubmitTx(P, false, TS_TRUC))) return;
            ms.SubmitTx(C1, false, TS_TRUC);
        }
        if (!ms.pool().exists(P->GetHash())) return;
        const bool have_c1 = ms.pool().exists(C1->GetHash());
        switch (mode) {
        case 0: case 7: case 10: {
            Sp in = OutOf(P, 1);
            CTransactionRef C2 = ms.MakeTx({in}, EqualOuts(r, in.coin.value, 1), rt, 0, 3, 0, {}, SigDefect::NONE, TS_TRUC);
            if (mode == 7) ms.SubmitPackage({C2}, false, PS_SINGLE);
            else ms.SubmitTx(C2, false, TS_TRUC);
            if (have_c1 && ms.pool().exists(C2->GetHash()) && !ms.pool().exists(C1->GetHash())) ctx.probe("truc_sibling_evicted");
            if (mode == 10 && ms.pool().exists(P->GetHash())) {
                Sp in3 = OutOf(P, 2);
                CTransactionRef C3 = ms.MakeTx({in3}, EqualOuts(r, in3.coin.value, 1), rt * 3 + 500, 0, 3, 0, {}, SigDefect::NONE, TS_TRUC);
                ms.SubmitTx(C3, false, TS_TRUC);
            }
            break;
        }
        case 1: {
            if (C1->vout.empty()) break;
            Sp in = OutOf(C1, 0);
            ms.SubmitTx(ms.MakeTx({in}, EqualOuts(r, in.coin.value, 1), std::max<int64_t>(rt, 150), 0, 3, 0, {}, SigDefect::NONE, TS_TRUC), false, TS_TRUC);
            break;
        }
        case 2: {
            Sp in = OutOf(P, 1);
            ms.SubmitTx(ms.MakeTx({in}, EqualOuts(r, in.coin.value, 1), std::max<int64_t>(rt, 150), 0, 2, 0, {}, SigDefect::NONE, TS_TRUC), false, TS_TRUC);
            break;
        }
        case 3: {
            // a version-3 child with two unconfirmed parents; when C1 is absent this is the only child
            auto un = Unconf(false);
            std::vector<Sp> ins{OutOf(P, 1)};
            for (size_t tries = 0; tries < 8 && !un.empty(); ++tries) {
                Sp o = Take(un, r);
                if (o.op.hash == P->GetHash() || o.op.hash == C1->GetHash()) continue;
                ins.push_back(o);
                break;
            }
            ms.SubmitTx(ms.MakeTx(ins, EqualOuts(r, ms.InputSum(ins), 1), std::max<int64_t>(rt, 150), 0, 3, 0, {}, SigDefect::NONE, TS_TRUC), false, TS_TRUC);
            break;
        }
        case 5: {
            if (conf.empty()) break;
            Sp c2 = Take(conf, r);
            CTransactionRef P2 = ms.MakeTx({c2}, EqualOuts(r, c2.coin.value, 1), rp, 0, 3, 0, {}, SigDefect::NONE, TS_TRUC);
            std::vector<Sp> ins{OutOf(P2, 0), OutOf(P, 1)};
            CTransactionRef C3 = ms.MakeTx(ins, EqualOuts(r, ms.InputSum(ins), 1), std::max<int64_t>(rt, 1000), 0, 3, 0, {}, SigDefect::NONE, TS_TRUC);
            ms.SubmitPackage({P2, C3}, false, PS_CHILD_WITH_PARENTS);
            break;
        }
        case 11: {
            // second child of P that also double-spends the input of an UNRELATED mempool transaction X: its direct conflicts are {X}, not C1
            if (conf.empty()) break;
            Sp cz = Take(conf, r);
            CTransactionRef X = ms.MakeTx({cz}, EqualOuts(r, cz.coin.value, 1), 1000, 0, 2, 0, {}, SigDefect::NONE, TS_SIMPLE);
            if (!Valid(ms.SubmitTx(X, false, TS_SIMPLE))) break;
            std::vector<Sp> ins{OutOf(P, 1), cz};
            CTransactionRef C2 = ms.MakeTx(ins, EqualOuts(r, ms.InputSum(ins), 1), std::max<int64_t>(rt, 1000) * 4 + 3000, 0, 3, 0, {}, SigDefect::NONE, TS_TRUC);
            ms.SubmitTx(C2, false, TS_TRUC);
            ctx.probe("truc_sibling_conflicting_with_unrelated_tx_submitted");
            if (have_c1 && ms.pool().exists(C2->GetHash()) && !ms.pool().exists(C1->GetHash())) ctx.probe("truc_sibling_evicted");
            break;
        }
        case 6: {
            std::vector<Sp> ins{OutOf(P, 0), OutOf(P, 1)};
            CTransactionRef C2 = ms.MakeTx(ins, EqualOuts(r, ms.InputSum(ins), 1), rt, 0, 3, 0, {}, SigDefect::NONE, TS_TRUC);
            ms.SubmitTx(C2, false, TS_TRUC);
            if (have_c1 && ms.pool().exists(C2->GetHash())) ctx.probe("truc_child_replaced_by_conflicting_sibling");
            break;
        }
        default: break;
        }
    }

    void ExecDust(const Op& op, Rng& r)
    {
        const int mode = (int)op.mod(1, kNDustModes);
        const int64_t rc = std::max<int64_t>(kRate[op.mod(2, 8)], 0);
        const uint32_t version = (op.arg(3) & 1) ? 3 : 2;
        auto conf = ConfStd();
        if (conf.empty()) return;
        ctx.probe("dust_family_built");
        Sp coin = Take(conf, r);
        static const SK dkinds[] = {SK::P2WPKH, SK::P2TR, SK::P2PKH, SK::P2SH_P2WPKH, SK::TRUE_WSH};
        CScript dspk = Keys().Spk(dkinds[r.below(5)], (int)r.below(N_KEYS));
        const CAmount thr = OwnDustThreshold(CTxOut(0, dspk), dust_rate);
        CAmount dval = 0;
        switch (op.mod(4, 5)) {
        case 0: dval = 0; break;
        case 1: dval = thr - 1; ctx.probe("dust_value_threshold_minus_1"); break;
        case 2: dval = thr; ctx.probe("dust_value_at_threshold_not_dust"); break; // not dust: an ordinary zero-fee parent
        case 3: dval = (CAmount)r.below((uint64_t)thr); break;
        default: dval = 1; break;
        }
        const CAmount third = coin.coin.value / 4;
        if (mode == 6) {
            // dusty transaction paying a fee, alone
            std::vector<CTxOut> outs{CTxOut(dval, dspk), StdOut(r, 0)};
            ms.SubmitTx(ms.MakeTx({coin}, outs, std::max<int64_t>(rc, 150), 0, version, 0, {}, SigDefect::NONE, TS_DUSTY_PARENT), false, TS_DUSTY_PARENT);
            return;
        }
        std::vector<CTxOut> douts{CTxOut(dval, dspk), StdOut(r, third)};
        if (mode == 7) douts.insert(douts.begin() + 1, CTxOut((CAmount)r.below(200), Keys().Spk(SK::P2TR, 1))); // second dust output
        if (mode == 3 && version == 2) douts.push_back(StdOut(r, third));
        douts.push_back(StdOut(r, 0));
        CTransactionRef D = ms.MakeTx({coin}, douts, mode == 11 ? 1000 : 0, 0, version, 0, {}, SigDefect::NONE, TS_DUSTY_PARENT);
        const uint32_t iA = mode == 7 ? 2 : 1;
        std::vector<Sp> kin{OutOf(D, 0), OutOf(D, iA)};
        if (mode == 7) kin.push_back(OutOf(D, 1));
        if (mode == 1) kin.erase(kin.begin()); // does not sweep the dust
        std::vector<CTxOut> kouts;
        if (mode == 10) kouts.push_back(CTxOut(0, Keys().Spk(SK::P2WPKH, 2))); // the child has a dust output of its own and pays a fee
        kouts.push_back(StdOut(r, 0));
        CTransactionRef K = ms.MakeTx(kin, kouts, std::max<int64_t>(rc, 500), 0, version, 0, {}, SigDefect::NONE, TS_CHAIN);
        if (mode == 2 || mode == 8) {
            static const CAmount deltas[4] = {1000, 1, -1, 50000};
            CAmount d = deltas[op.mod(5, 4)];
            ms.pool().PrioritiseTransaction(D->GetHash(), d);
            ctx.evf("prioritise %s %+ld", Short(D->GetHash()).c_str(), (long)d);
            if (mode == 8) {
                ms.pool().PrioritiseTransaction(D->GetHash(), -d);
                ctx.evf("prioritise %s %+ld", Short(D->GetHash()).c_str(), (long)-d);
            } else if (dval < thr) ctx.probe("prioritised_dusty_parent_submitted");
        }
        if (mode == 11) {
            // the parent pays a real base fee; a prioritisation of exactly minus that fee makes its MODIFIED fee zero
            CAmount outs = 0;
            for (auto& o : D->vout) outs += o.nValue;
            const CAmount base_fee = coin.coin.value - outs;
            ms.pool().PrioritiseTransaction(D->GetHash(), -base_fee);
            ctx.evf("prioritise %s %+ld (minus its base fee)", Short(D->GetHash()).c_str(), (long)-base_fee);
            if (dval < thr && base_fee > 0) ctx.probe("fee_paying_dusty_parent_with_cancelling_prioritisation_submitted");
        }
        if (mode == 9) ms.SubmitTx(D, false, TS_DUSTY_PARENT);
        ms.SubmitPackage({D, K}, false, PS_CPFP);
        const bool in_pool = ms.pool().exists(D->GetHash()) && ms.pool().exists(K->GetHash());
        if (in_pool && dval < thr) ctx.probe("dust_package_in_mempool");
        if (!in_pool) return;
        switch (mode) {
        case 3: {
            if (version != 2 || D->vout.size() < 4) break;
            Sp in = OutOf(D, 2);
            ms.SubmitTx(ms.MakeTx({in}, {StdOut(r, 0)}, std::max<int64_t>(rc, 1000), 0, version, 0, {}, SigDefect::NONE, TS_CHAIN), false, TS_CHAIN);
            ctx.probe("second_child_of_dusty_parent_submitted");
            break;
        }
        case 4: {
            Sp in = OutOf(D, iA);
            ms.SubmitTx(ms.MakeTx({in}, {StdOut(r, 0)}, std::max<int64_t>(rc, 500) * 4 + 2000, 0, version, 0, {}, SigDefect::NONE, TS_CONFLICT), false, TS_CONFLICT);
            ctx.probe("non_sweeping_replacement_submitted");
            break;
        }
        case 5: {
            std::vector<Sp> ins{OutOf(D, 0), OutOf(D, iA)};
            ms.SubmitTx(ms.MakeTx(ins, {StdOut(r, 0)}, std::max<int64_t>(rc, 500) * 4 + 2000, 0, version, 0, {}, SigDefect::NONE, TS_CONFLICT), false, TS_CONFLICT);
            break;
        }
        default: break;
        }
    }
};

void Run(Ctx& ctx)
{
    MempoolSimConfig cfg;
    cfg.check_consistency = false; // C22's oracle; CTxMemPool::check (ratio 1) still runs inside the node
    cfg.snapshots = true;
    cfg.bias = "c27";
    MempoolSim ms(ctx, cfg);
    C27 o(ctx, ms);
    ms.after_submit = [&](const SubmitRecord& r) { o.OnSubmit(r); };
    ms.after_op = [&](const Op&) { o.AfterOp(); };
    ms.Setup();
    o.Attach();
    for (const Op& op : ctx.plan.ops) {
        if (op.kind >= C27_SPLIT && op.kind < C27_NOPS_END) {
            o.ExecOwn(op);
            ms.cs.CheckAll(Describe(op).c_str());
            o.AfterOp();
        } else {
            ms.ExecOp(op);
        }
    }
    o.Detach();
    ms.Finish();
}

Engine MakeEngine()
{
    Engine e;
    e.prop = "C27";
    e.name = "nodesim/mempool-limits";
    e.level = "exploration";
    e.gen = Gen;
    e.run = Run;
    e.describe = Describe;
    e.chunk = 1;
    e.quick_runs = 600;
    e.thorough_runs = 10000;
    e.quick_budget_s = 50;
    e.thorough_budget_s = 900;
    e.rule = "seeded mempool histories on a real regtest node (base chain 105-125 blocks; 40-220 generator operations with bias c27: transactions of 11 shapes incl. chains, fan-in/out, replacements, TRUC and dusty ones, "
             "packages of 11 shapes, prioritisation, blocks from the mempool, reorgs in 1/4 of the runs, clock jumps past expiry) interleaved with ~1/3 operations of this engine aimed at the limits: coin splits (+block) so "
             "that small pools can be filled, bursts of 4-28 independent transactions at feerates crowded just above the current minimum feerate or spread over 100..60000 sat/kvB, chains of 2-28, fan-outs with 2-14 children, merges of 2-8 "
             "clusters, TRUC families in 11 modes (second child with/without enough fee for sibling eviction, as 1-tx package, also conflicting with the child, two successive siblings, grandchild, non-v3 child, second "
             "unconfirmed parent, >1000 vB child, package child with mempool+package parent, package with two v3 parents, v3 child of non-v3 parent) and ephemeral-dust families in 11 modes (dust value 0 / threshold-1 / threshold / "
             "random over five script kinds; package with sweeping child, child not sweeping, dusty parent prioritised by +1000/+1/-1/+50000 sat, +x then -x, second child, replacement of the sweeping child by a sweeping / "
             "non-sweeping one, dusty tx with fee alone, two dust outputs, child with own dust). Per-run knobs: max mempool size 45-240 kB in 2/3 of the runs (cluster size limit 1-3 kvB) else 300 MB (cluster size 2-101 kvB), "
             "cluster count limit 2-10 (1/2), 11-25 (1/4) or 64, expiry 1-336 h. Oracle after every ProcessTransaction/ProcessNewPackage call that added an entry (from snapshots around the call): DynamicMemoryUsage at the instant the acceptance completed <= "
             "max_size_bytes; every connected component of the mempool has <= cluster_count entries and weight <= 4 x cluster_size_vbytes; version-3 entries (standardness on, no disconnect so far) have <= 1 unconfirmed parent and "
             "<= 1 unconfirmed child, never both, only v3<->v3 edges, vsize <= 10000 and <= 1000 with an unconfirmed parent; entries added by the call with an output below the own dust threshold have exactly one such output and zero "
             "base and modified fee; entries added by the call spend every dust output of their unconfirmed parents. After every call in which the node reported SIZELIMIT removals: GetMinFee() is strictly above the aggregate "
             "modified feerate of the evicted set and at least that feerate plus the incremental relay feerate. non-trivial = at least one acceptance or size eviction; distinct = distinct (cluster shape multiset, #v3, #dusty, "
             "usage sixteenth, minimum feerate, tip) fingerprints.";
    e.real_components = {"CTxMemPool + TxGraph (check_ratio=1): TrimToSize, GetMinFee, trackPackageRemoved, Expire, ChangeSet::CheckMemPoolPolicyLimits", "MemPoolAccept (single, package, RBF, sibling eviction), LimitMempoolSize",
                         "SingleTRUCChecks / PackageTRUCChecks", "PreCheckEphemeralTx / CheckEphemeralSpends / IsStandardTx dust rule", "ChainstateManager, script interpreter and caches", "ValidationSignals (TransactionRemovedFromMempool reasons)"};
    e.stub_components = {"peers (transactions handed to ProcessTransaction / ProcessNewPackage)", "wall clock (SetMockTime)", "ValidationSignals task runner (immediate)"};
    e.assumptions = {"RefChain model UTXO(tip) is correct (see C08); it is only used for the fee of a transaction that was added and evicted within one call",
                     "the set evicted for size in a call is the set the node announces with reason SIZELIMIT",
                     "memory usage is read at the instant the acceptance completes (inside the TransactionAddedToMempool notification for ProcessTransaction, first read after the call for ProcessNewPackage); "
                     "later lazy relinearization (CTxMemPool::check, GetFeerateDiagram, block building) may lift DynamicMemoryUsage() a few hundred bytes above the maximum and is only counted (probe usage_above_max_after_relinearizing_query)", "sigop-adjusted size of generator-made transactions equals their BIP141 virtual size",
                     "standardness is always enforced (the mempool module builds the node with require_standard=true); histories with a block disconnection skip the TRUC clause as the statement says"};
    e.expected_probes = {"acceptance_checked", "size_eviction", "size_eviction_multi_tx", "size_eviction_of_new_tx", "minfee_checked", "mempool_full_rejected", "mempool_min_fee_rejected", "usage_checked", "usage_above_half_max", "too_large_cluster_rejected",
                         "cluster_at_count_limit", "cluster_above_80pct_of_size_limit", "cluster_merge_accepted", "truc_pair_in_mempool", "truc_violation_rejected", "truc_sibling_evicted", "truc_child_replaced_by_conflicting_sibling",
                         "dusty_tx_accepted", "dust_sweeping_child_accepted", "dust_rejected", "missing_ephemeral_spend_rejected", "dust_value_threshold_minus_1", "dust_value_at_threshold_not_dust", "prioritised_dusty_parent_submitted",
                         "expiry_during_submit", "mempool_reorg", "truc_clause_skipped_after_disconnect", "replacement_accepted", "package_tx_accepted"};
    return e;
}
Engine g_engine = MakeEngine();
SIM_REGISTER_ENGINE(g_engine);

} // namespace
