// C26 — replacements only happen when they pay for themselves and improve the mempool.
// nodesim mempool module: a real regtest node (MemPoolAccept single / package paths, CTxMemPool + TxGraph) is driven through the
// shared mempool-history workload (bias "c26": replacements aimed at the fee threshold -1/0/+1 sat, chains, fan-outs, packages,
// prioritisation, blocks, reorgs, clock jumps) plus four scenario operations of this engine (multi-victim replacement, TRUC sibling
// eviction, 1-parent-1-child package RBF, 97..103 conflicting clusters), all aimed at the thresholds. After every
// ProcessTransaction / ProcessNewPackage call the oracle re-derives, naively from the mempool snapshot taken before the call, what
// the accepted transaction(s) conflicted with and checks the five clauses of the property statement.
#include "../core/sim.h"
#include "../nodesim/mempoolsim.h"

#include <consensus/validation.h>
#include <policy/policy.h>
#include <txmempool.h>
#include <util/time.h>

#include <algorithm>

using namespace sim;
using namespace nodesim;

namespace {

enum OwnOp { K_MULTI = 300, K_SIBLING, K_PKGRBF, K_CLUSTERS };

const CAmount kDeltas[8] = {-1, 0, 1, 0, 500, -1000, 5000, 1}; // added to the exact threshold
constexpr int64_t kIncrementalSatPerKvB = 100;                 // DEFAULT_INCREMENTAL_RELAY_FEE of the pinned tree (checked at start)
constexpr size_t kMaxClusters = 100;
const int kClusterK[15] = {97, 98, 99, 99, 100, 100, 100, 100, 101, 101, 101, 101, 102, 102, 103}; // conflicting clusters aimed at by conflict_with_clusters

std::string Sh(const Txid& id) { return id.ToString().substr(0, 10); }

/** incremental relay fee for `vsize` virtual bytes, rounded up (the documented behaviour of CFeeRate::GetFee) */
CAmount IncFee(int64_t vsize) { return (kIncrementalSatPerKvB * vsize + 999) / 1000; }
int64_t WeightVsize(const CTransaction& tx) { return (GetTransactionWeight(tx) + 3) / 4; }

// ---------------------------------------------------------------------------------------------
// naive graph over a mempool snapshot

struct PoolGraph {
    const MempoolSnap& s;
    std::map<COutPoint, Txid> spender;
    std::map<Txid, std::set<Txid>> children, parents;
    explicit PoolGraph(const MempoolSnap& snap) : s(snap)
    {
        for (auto& [id, e] : s)
            for (auto& vin : e.tx->vin) {
                spender.emplace(vin.prevout, id);
                if (s.count(vin.prevout.hash)) {
                    children[vin.prevout.hash].insert(id);
                    parents[id].insert(vin.prevout.hash);
                }
            }
    }
    const std::set<Txid>& Children(const Txid& id) const
    {
        static const std::set<Txid> none;
        auto it = children.find(id);
        return it == children.end() ? none : it->second;
    }
    const std::set<Txid>& Parents(const Txid& id) const
    {
        static const std::set<Txid> none;
        auto it = parents.find(id);
        return it == parents.end() ? none : it->second;
    }
    /** `start` and everything that (transitively) spends an output of it */
    std::set<Txid> Closure(const std::set<Txid>& start) const
    {
        std::set<Txid> seen;
        std::vector<Txid> st;
        for (auto& x : start)
            if (s.count(x) && seen.insert(x).second) st.push_back(x);
        while (!st.empty()) {
            Txid x = st.back();
            st.pop_back();
            for (auto& y : Children(x))
                if (seen.insert(y).second) st.push_back(y);
        }
        return seen;
    }
    /** number of distinct connected components (clusters) that contain a member of `of` */
    size_t Components(const std::set<Txid>& of) const
    {
        std::set<Txid> labelled;
        size_t n = 0;
        for (auto& x : of) {
            if (!s.count(x) || labelled.count(x)) continue;
            ++n;
            std::vector<Txid> st{x};
            labelled.insert(x);
            while (!st.empty()) {
                Txid y = st.back();
                st.pop_back();
                for (auto* rel : {&Children(y), &Parents(y)})
                    for (auto& z : *rel)
                        if (labelled.insert(z).second) st.push_back(z);
            }
        }
        return n;
    }
    CAmount ModFees(const std::set<Txid>& of) const
    {
        CAmount t = 0;
        for (auto& x : of) t += s.at(x).modified_fee;
        return t;
    }
};

// ---------------------------------------------------------------------------------------------
// own exact comparison of two feerate diagrams (cumulative (size, fee) points, linear interpolation, flat to the right)

struct Pt { int64_t size, fee; };

/** Convert; cut the diagram where the cumulative fee starts to fall (chunks of negative feerate come last). */
std::vector<Pt> Points(const std::vector<FeePerWeight>& d, bool& negative_tail)
{
    std::vector<Pt> p{{0, 0}};
    for (auto& f : d) {
        if (f.size <= p.back().size) continue; // the leading (0,0)
        if (f.fee < p.back().fee) { negative_tail = true; break; }
        p.push_back({f.size, f.fee});
    }
    return p;
}

/** value at x as num/den, den > 0 */
void EvalAt(const std::vector<Pt>& d, int64_t x, __int128& num, __int128& den)
{
    if (x >= d.back().size) { num = d.back().fee; den = 1; return; }
    size_t hi = 1;
    while (d[hi].size <= x) ++hi;
    const Pt &a = d[hi - 1], &b = d[hi];
    den = b.size - a.size;
    num = (__int128)a.fee * den + (__int128)(b.fee - a.fee) * (x - a.size);
}

/** -1 / 0 / +1 : a(x) < = > b(x) */
int CmpAt(const std::vector<Pt>& a, const std::vector<Pt>& b, int64_t x)
{
    __int128 na, da, nb, db;
    EvalAt(a, x, na, da);
    EvalAt(b, x, nb, db);
    __int128 l = na * db, r = nb * da;
    return l < r ? -1 : l > r ? 1 : 0;
}

// ---------------------------------------------------------------------------------------------

struct C26 {
    Ctx& ctx;
    MempoolSim& ms;
    int64_t expiry_s;
    uint64_t state_fp{0};
    uint64_t n_checked{0};

    C26(Ctx& c, MempoolSim& m) : ctx(c), ms(m), expiry_s(c.knob("expiry_h", 336) * 3600) {}

    // ---- helpers shared by the oracle and the scenario operations

    std::optional<RefCoin> CoinOf(const COutPoint& op, const MempoolSnap& snap, const std::vector<CTransactionRef>* pkg = nullptr)
    {
        const RefUtxo& u = ms.TipUtxo();
        if (auto it = u.find(op); it != u.end()) return it->second;
        const int next_h = ms.cs.ref->blocks[ms.TipIdx()].height + 1;
        if (auto it = snap.find(op.hash); it != snap.end() && op.n < it->second.tx->vout.size()) return RefCoin{it->second.tx->vout[op.n].nValue, it->second.tx->vout[op.n].scriptPubKey, next_h, false};
        if (pkg)
            for (auto& t : *pkg)
                if (t->GetHash() == op.hash && op.n < t->vout.size()) return RefCoin{t->vout[op.n].nValue, t->vout[op.n].scriptPubKey, next_h, false};
        return std::nullopt;
    }

    /** the transaction's own modified fee: inputs - outputs by the model's coins, plus the prioritisation delta registered for its txid */
    std::optional<CAmount> OwnModFee(const CTransaction& tx, const SubmitRecord& r)
    {
        CAmount in = 0, out = 0;
        bool known = true;
        for (auto& vin : tx.vin) {
            auto c = CoinOf(vin.prevout, r.before, &r.txs);
            if (!c) { known = false; break; }
            in += c->value;
        }
        for (auto& o : tx.vout) out += o.nValue;
        CAmount delta = 0;
        {
            LOCK(ms.pool().cs);
            ms.pool().ApplyDelta(tx.GetHash(), delta);
        }
        if (known) return in - out + delta;
        if (auto it = r.after.find(tx.GetHash()); it != r.after.end()) return it->second.modified_fee;
        if (!r.is_package && r.base_fees) return *r.base_fees + delta;
        return std::nullopt;
    }

    /** true if the sigop-adjusted virtual size of tx certainly equals its weight-based virtual size */
    bool SigopsCannotInflate(const CTransaction& tx, const SubmitRecord& r)
    {
        int64_t cost = 0;
        for (auto& vin : tx.vin) {
            cost += 4 * (int64_t)vin.scriptSig.GetSigOpCount(false);
            auto c = CoinOf(vin.prevout, r.before, &r.txs);
            if (!c || Keys().Classify(c->spk).kind == SK::UNKNOWN) return false;
            cost += 1; // the generator's script kinds cost at most one witness/P2SH sigop per input
        }
        for (auto& o : tx.vout) cost += 4 * (int64_t)o.scriptPubKey.GetSigOpCount(false);
        return cost * 20 <= GetTransactionWeight(tx);
    }

    // ---- the oracle

    void Check(const SubmitRecord& r)
    {
        uint64_t fp = 0;
        for (auto& [id, e] : r.after) fp = mix64(fp, id.ToUint256().GetUint64(0));
        state_fp = fp;

        const MempoolSnap& B = r.before;
        const MempoolSnap& A = r.after;
        const PoolGraph g(B);

        // which of the submitted transactions were accepted
        std::vector<CTransactionRef> acc;
        bool accepted_then_gone = false;
        if (!r.is_package) {
            if (r.result_type == MempoolAcceptResult::ResultType::VALID) acc.push_back(r.txs[0]);
        } else {
            std::set<Wtxid> seen;
            for (auto& tx : r.txs) {
                if (!seen.insert(tx->GetWitnessHash()).second) continue;
                auto it = r.pkg_tx_results.find(tx->GetWitnessHash());
                if (it == r.pkg_tx_results.end()) continue;
                if (it->second.first == MempoolAcceptResult::ResultType::VALID) acc.push_back(tx);
                else if (it->second.first == MempoolAcceptResult::ResultType::INVALID && it->second.second == "mempool full") accepted_then_gone = true;
            }
        }
        auto conflicts_of = [&](const CTransaction& tx) {
            std::set<Txid> d;
            for (auto& vin : tx.vin)
                if (auto it = g.spender.find(vin.prevout); it != g.spender.end() && it->second != tx.GetHash()) d.insert(it->second);
            return d;
        };

        if (acc.empty()) {
            CheckRejected(r, g, conflicts_of);
            return;
        }

        std::vector<std::set<Txid>> D(acc.size());
        std::set<Txid> Dall;
        for (size_t i = 0; i < acc.size(); ++i) {
            D[i] = conflicts_of(*acc[i]);
            Dall.insert(D[i].begin(), D[i].end());
        }
        std::set<Txid> left, R(r.replaced.begin(), r.replaced.end());
        if (!r.test_accept)
            for (auto& [id, e] : B)
                if (!A.count(id)) left.insert(id);
        if (Dall.empty() && R.empty() && left.empty()) return; // not a replacement

        // entries old enough to be expired by the LimitMempoolSize() that follows an acceptance (with their descendants)
        const int64_t now = GetTime<std::chrono::seconds>().count();
        std::set<Txid> old;
        for (auto& [id, e] : B)
            if (e.time < now - expiry_s) old.insert(id);
        const std::set<Txid> expirable = g.Closure(old);

        ++n_checked;
        ctx.probe(r.is_package ? "package_replacement_checked" : r.test_accept ? "test_accept_replacement_checked" : "replacement_checked");
        if (accepted_then_gone) ctx.probe("package_tx_accepted_then_removed");

        const std::set<Txid> CD = g.Closure(Dall);

        // --- clause: the evicted set is exactly the direct conflicts (plus an evicted TRUC sibling) and all their descendants
        std::set<Txid> X;       // evicted TRUC sibling
        size_t x_owner = 0;     // index in acc of the TRUC child that evicted it
        bool expired_any = false;
        if (!r.test_accept && !accepted_then_gone) {
            std::set<Txid> extra;
            for (auto& id : R)
                if (!CD.count(id)) extra.insert(id);
            if (!extra.empty()) {
                // legal only as a TRUC sibling eviction: a version-3 accepted transaction spends an output of mempool entry P, and the
                // extra entries are exactly another child S of P with its descendants
                bool explained = false;
                for (size_t i = 0; i < acc.size() && !explained; ++i) {
                    if (acc[i]->version != 3) continue;
                    for (auto& vin : acc[i]->vin) {
                        if (!B.count(vin.prevout.hash)) continue;
                        for (auto& sib : g.Children(vin.prevout.hash)) {
                            if (CD.count(sib) || sib == acc[i]->GetHash()) continue;
                            std::set<Txid> sc = g.Closure({sib}), want;
                            for (auto& id : sc)
                                if (!CD.count(id)) want.insert(id);
                            if (want == extra) { explained = true; X = {sib}; x_owner = i; break; }
                        }
                        if (explained) break;
                    }
                }
                if (!explained) ctx.failf("replaced-list-has-non-conflict", "%s: %zu reported replaced transaction(s) (first %s) are neither direct conflicts of the accepted transaction(s), nor descendants of those, nor an evicted TRUC sibling with its descendants", Name(r).c_str(), extra.size(), Sh(*extra.begin()).c_str());
                ctx.probe("truc_sibling_evicted");
            }
            std::set<Txid> expected = CD;
            for (auto& id : g.Closure(X)) expected.insert(id);
            for (auto& id : expected)
                if (!R.count(id)) ctx.failf("conflict-or-descendant-not-in-replaced-list", "%s: mempool entry %s is a direct conflict (or a descendant of one) of the accepted transaction but is not in the reported replaced list (%zu reported, %zu expected)", Name(r).c_str(), Sh(id).c_str(), R.size(), expected.size());
            for (auto& id : R)
                if (!left.count(id)) ctx.failf("replaced-tx-still-in-mempool", "%s: %s is reported as replaced but is still in the mempool after the call", Name(r).c_str(), Sh(id).c_str());
            for (auto& id : left) {
                if (R.count(id)) continue;
                if (!expirable.count(id)) ctx.failf("unrelated-entry-left-mempool", "%s: mempool entry %s left the mempool during the call but is neither in the replaced list nor old enough to expire (nor a descendant of such)", Name(r).c_str(), Sh(id).c_str());
                expired_any = true;
            }
            if (expired_any) ctx.probe("expired_during_replacement_call");
            if (X.empty() && R.size() > Dall.size()) ctx.probe("replacement_evicted_descendants");
        }
        std::set<Txid> expected = CD;
        for (auto& id : g.Closure(X)) expected.insert(id);
        if (expected.empty()) return; // an accepted non-conflicting call during which old entries expired

        // --- clause: does not spend outputs of anything it evicts
        for (auto& t : acc)
            for (auto& vin : t->vin)
                if (expected.count(vin.prevout.hash) || R.count(vin.prevout.hash)) ctx.failf("replacement-spends-evicted-output", "%s: accepted transaction %s spends output %u of %s, which it evicts", Name(r).c_str(), Sh(t->GetHash()).c_str(), vin.prevout.n, Sh(vin.prevout.hash).c_str());

        // --- clause: conflicts with at most 100 clusters
        for (size_t i = 0; i < acc.size(); ++i) {
            std::set<Txid> d = D[i];
            if (!X.empty() && i == x_owner) d.insert(X.begin(), X.end());
            size_t n = g.Components(d);
            if (n > kMaxClusters) ctx.failf("replacement-conflicts-with-too-many-clusters", "%s: accepted transaction %s directly conflicts with entries of %zu distinct mempool clusters (limit %zu)", Name(r).c_str(), Sh(acc[i]->GetHash()).c_str(), n, kMaxClusters);
            if (n == kMaxClusters) ctx.probe("accepted_with_exactly_100_clusters");
            if (n >= 2) ctx.probe("multi_cluster_replacement");
        }

        // --- clause: pays at least the modified fees of everything it evicts plus the incremental relay fee for its own size
        if (!accepted_then_gone) CheckFees(r, g, acc, D, X, x_owner, expected);

        // --- clause: strictly improves the feerate diagram
        if (!r.test_accept && !accepted_then_gone && !expired_any && !R.empty()) CheckDiagram(r);
    }

    std::string Name(const SubmitRecord& r)
    {
        char b[96];
        snprintf(b, sizeof b, "%s%s %s", r.test_accept ? "test-accept of " : "", r.is_package ? "package ending in" : "tx", Sh(r.txs.back()->GetHash()).c_str());
        return b;
    }

    void CheckFees(const SubmitRecord& r, const PoolGraph& g, const std::vector<CTransactionRef>& acc, const std::vector<std::set<Txid>>& D, const std::set<Txid>& X, size_t x_owner, const std::set<Txid>& expected)
    {
        std::vector<CAmount> own(acc.size());
        std::vector<int64_t> vs(acc.size());
        for (size_t i = 0; i < acc.size(); ++i) {
            auto f = OwnModFee(*acc[i], r);
            if (!f) { ctx.probe("own_fee_unknown"); return; }
            own[i] = *f;
            vs[i] = WeightVsize(*acc[i]);
        }
        // explanation S: every conflicting transaction was accepted on its own, in submission order
        bool s_ok = true;
        size_t s_bad = 0;
        CAmount s_own = 0, s_ev = 0, s_inc = 0;
        {
            std::set<Txid> gone;
            for (size_t i = 0; i < acc.size(); ++i) {
                std::set<Txid> d = D[i];
                if (!X.empty() && i == x_owner) d.insert(X.begin(), X.end());
                std::set<Txid> ev;
                for (auto& id : g.Closure(d))
                    if (!gone.count(id)) ev.insert(id);
                if (ev.empty()) continue;
                CAmount evf = g.ModFees(ev);
                if (own[i] < evf + IncFee(vs[i]) && s_ok) { s_ok = false; s_bad = i; s_own = own[i]; s_ev = evf; s_inc = IncFee(vs[i]); }
                if (own[i] == evf + IncFee(vs[i])) ctx.probe("accepted_at_exact_threshold");
                if (own[i] == evf + IncFee(vs[i]) + 1) ctx.probe("accepted_one_sat_above_threshold");
                gone.insert(ev.begin(), ev.end());
            }
        }
        if (s_ok) return;
        // explanation M: the (two) accepted transactions of a package were evaluated together (package RBF)
        if (r.is_package && (acc.size() == 2 || r.test_accept)) {
            CAmount tot = 0;
            int64_t v = 0;
            for (size_t i = 0; i < acc.size(); ++i) { tot += own[i]; v += vs[i]; }
            CAmount evf = g.ModFees(expected);
            if (tot >= evf + IncFee(v)) {
                ctx.probe("package_rbf_accepted");
                if (tot == evf + IncFee(v)) ctx.probe("package_rbf_at_exact_threshold");
                return;
            }
            if (tot < evf) ctx.failf("package-replacement-pays-less-than-evicted-fees", "%s: the accepted package pays %ld in total (modified), the %zu evicted entries paid %ld; nor does its conflicting transaction pay for them on its own", Name(r).c_str(), (long)tot, expected.size(), (long)evf);
            ctx.failf("package-replacement-does-not-pay-incremental-relay-fee", "%s: the accepted package pays %ld in total (modified) for %ld vB, evicted entries paid %ld, incremental relay fee for its size is %ld: short by %ld", Name(r).c_str(), (long)tot, (long)v, (long)evf, (long)IncFee(v), (long)(evf + IncFee(v) - tot));
        }
        if (s_own < s_ev) ctx.failf("replacement-pays-less-than-evicted-fees", "%s: accepted %s pays %ld (modified), the entries it evicts paid %ld (modified) in total", Name(r).c_str(), Sh(acc[s_bad]->GetHash()).c_str(), (long)s_own, (long)s_ev);
        ctx.failf("replacement-does-not-pay-incremental-relay-fee", "%s: accepted %s pays %ld (modified) for %ld vB; evicted entries paid %ld, incremental relay fee for its own size is %ld: short by %ld", Name(r).c_str(), Sh(acc[s_bad]->GetHash()).c_str(), (long)s_own, (long)vs[s_bad], (long)s_ev, (long)s_inc, (long)(s_ev + s_inc - s_own));
    }

    void CheckDiagram(const SubmitRecord& r)
    {
        bool neg = false;
        std::vector<Pt> before = Points(r.diagram_before, neg), after = Points(r.diagram_after, neg);
        if (neg) ctx.probe("diagram_with_negative_feerate_chunks");
        std::vector<int64_t> xs;
        for (auto& p : before) xs.push_back(p.size);
        for (auto& p : after) xs.push_back(p.size);
        std::sort(xs.begin(), xs.end());
        xs.erase(std::unique(xs.begin(), xs.end()), xs.end());
        bool better = false;
        for (int64_t x : xs) {
            int c = CmpAt(after, before, x);
            if (c < 0) {
                __int128 na, da, nb, db;
                EvalAt(after, x, na, da);
                EvalAt(before, x, nb, db);
                ctx.failf("replacement-worsens-feerate-diagram", "%s: at cumulative weight %ld the mempool's feerate diagram is lower after the replacement (%.3f) than before it (%.3f)", Name(r).c_str(), (long)x, (double)na / (double)da, (double)nb / (double)db);
            }
            if (c > 0) better = true;
        }
        // with chunks of negative feerate in the mempool the (cut) diagrams may legitimately coincide: strictness is only decided without them
        if (!better && !neg) ctx.failf("replacement-does-not-strictly-improve-feerate-diagram", "%s: the mempool's feerate diagram after the replacement is nowhere above the one before it", Name(r).c_str());
        ctx.probe("diagram_compared");
    }

    template <typename F>
    void CheckRejected(const SubmitRecord& r, const PoolGraph& g, F& conflicts_of)
    {
        if (r.is_package) {
            if (r.pkg_reason.find("package RBF failed") != std::string::npos) ctx.probe("package_rbf_rejected");
            return;
        }
        if (r.result_type != MempoolAcceptResult::ResultType::INVALID) return;
        const CTransaction& tx = *r.txs[0];
        const std::string& why = r.reject_reason;
        if (why.rfind("insufficient fee", 0) == 0) ctx.probe("rejected_insufficient_fee");
        else if (why == "replacement-failed") ctx.probe("rejected_diagram_not_improved");
        else if (why.rfind("too many potential replacements", 0) == 0) ctx.probe("rejected_too_many_clusters");
        else if (why == "bad-txns-spends-conflicting-tx") ctx.probe("rejected_spends_conflicting_tx");
        if (why != "insufficient fee") return; // (with the sibling-eviction suffix the conflict set is not observable)
        // The node names the fee rules as the reason. With no TRUC sibling involved its conflict set is the set of direct conflicts and their
        // descendants: a transaction that does pay the property's threshold cannot have failed them.
        std::set<Txid> d = conflicts_of(tx);
        if (d.empty()) return;
        auto own = OwnModFee(tx, r);
        if (!own) return;
        if (!SigopsCannotInflate(tx, r)) { ctx.probe("sigop_adjusted_size_possible"); return; }
        CAmount need = g.ModFees(g.Closure(d)) + IncFee(WeightVsize(tx));
        if (*own == need - 1) ctx.probe("rejected_one_sat_below_threshold");
        if (*own >= need) ctx.failf("replacement-rejected-for-fee-at-or-above-threshold", "%s was rejected with 'insufficient fee' although it pays %ld (modified) and the threshold (evicted modified fees + incremental relay fee for its %ld vB) is %ld", Name(r).c_str(), (long)*own, (long)WeightVsize(tx), (long)need);
    }

    // ---- scenario operations

    std::vector<MempoolSim::Spendable> ConfStd()
    {
        std::vector<MempoolSim::Spendable> out;
        for (auto& s : ms.FreeConfirmed())
            if (Keys().Classify(s.coin.spk).kind != SK::TRUE_BARE) out.push_back(s);
        return out;
    }
    static CTxOut StdOut(Rng& r, CAmount v)
    {
        static const SK kinds[] = {SK::P2WPKH, SK::P2TR, SK::TRUE_WSH, SK::P2PKH, SK::P2SH_P2WPKH};
        return CTxOut(v, Keys().Spk(kinds[r.below(5)], (int)r.below(N_KEYS)));
    }
    std::vector<CTxOut> Outs(Rng& r, CAmount in_sum, int n)
    {
        std::vector<CTxOut> outs;
        for (int i = 0; i + 1 < n; ++i) outs.push_back(StdOut(r, std::max<CAmount>(in_sum / (n + 1), 1000)));
        outs.push_back(StdOut(r, 0));
        return outs;
    }
    static MempoolSim::Spendable Take(std::vector<MempoolSim::Spendable>& v, Rng& r)
    {
        size_t i = r.below(v.size());
        auto s = v[i];
        v.erase(v.begin() + i);
        return s;
    }
    bool Valid(const SubmitRecord& r) { return r.result_type == MempoolAcceptResult::ResultType::VALID; }

    /** K_MULTI: one transaction double-spending an input of each of 1..4 mempool transactions, fee at the threshold + delta */
    void OpMulti(const Op& op)
    {
        Rng r(mix64((uint64_t)op.arg(0), 0x300));
        MempoolSnap snap = ms.Snapshot();
        if (snap.empty()) { ctx.ev("multi-conflict: empty mempool"); return; }
        PoolGraph g(snap);
        std::vector<Txid> ids;
        for (auto& [id, e] : snap) ids.push_back(id);
        int nv = 1 + (int)op.mod(1, 4);
        const int64_t flags = op.arg(3);
        std::vector<MempoolSim::Spendable> ins;
        std::set<COutPoint> used;
        std::set<Txid> d;
        for (int i = 0; i < nv; ++i) {
            const SnapEntry& v = snap.at(ids[r.below(ids.size())]);
            const CTxIn& vin = v.tx->vin[r.below(v.tx->vin.size())];
            auto coin = CoinOf(vin.prevout, snap);
            if (!coin || !Keys().CanSpend(coin->spk) || !used.insert(vin.prevout).second) continue;
            ins.push_back({vin.prevout, *coin, true});
            d.insert(v.tx->GetHash());
        }
        if (ins.empty()) { ctx.ev("multi-conflict: nothing spendable"); return; }
        std::set<Txid> cd = g.Closure(d);
        if (flags & 8) {
            // deliberately also spend a free output of something that would be evicted: must be refused
            for (auto& s : ms.FreeUnconfirmed())
                if (cd.count(s.op.hash)) { ins.push_back(s); ctx.probe("built_replacement_spending_evicted_output"); break; }
        } else {
            // drop inputs that are outputs of evicted entries
            std::vector<MempoolSim::Spendable> keep;
            for (auto& i : ins)
                if (!cd.count(i.op.hash)) keep.push_back(i);
            if (keep.empty()) { ctx.ev("multi-conflict: inputs all inside the evicted set"); return; }
            if (keep.size() != ins.size()) {
                ins = keep;
                d.clear();
                for (auto& i : ins) d.insert(g.spender.at(i.op));
                cd = g.Closure(d);
            }
        }
        CAmount E = g.ModFees(cd);
        auto conf = ConfStd();
        if (!conf.empty() && (ms.InputSum(ins) < E + 50000 || r.chance(1, 3))) ins.push_back(Take(conf, r));
        CAmount delta = kDeltas[op.mod(2, 8)];
        uint32_t version = (flags & 2) ? 3 : 2;
        CTransactionRef tx = ms.MakeTx(ins, Outs(r, ms.InputSum(ins) - E, (int)r.range(1, 2)), kIncrementalSatPerKvB, E + delta, version, 0, {}, SigDefect::NONE, TS_CONFLICT);
        ctx.probe(delta < 0 ? "rbf_attempt_below_threshold" : delta == 0 ? "rbf_attempt_at_threshold" : "rbf_attempt_above_threshold");
        if (d.size() > 1) ctx.probe("multi_victim_attempt");
        ms.SubmitTx(tx, flags & 1, TS_CONFLICT);
        if ((flags & 1) && (flags & 4)) ms.SubmitTx(tx, false, TS_CONFLICT);
    }

    /** K_SIBLING: TRUC parent P with child S; a second child T of P (no input conflict with S) must evict S under the replacement rules */
    void OpSibling(const Op& op)
    {
        Rng r(mix64((uint64_t)op.arg(0), 0x301));
        auto conf = ConfStd();
        const int next_h = ms.cs.ref->blocks[ms.TipIdx()].height + 1;
        CTransactionRef P;
        std::optional<COutPoint> free_out;
        {
            // reuse a suitable parent that is already there
            MempoolSnap snap = ms.Snapshot();
            PoolGraph g(snap);
            if (!(op.arg(3) & 8))
                for (auto& [id, e] : snap) {
                    if (e.tx->version != 3 || !g.Parents(id).empty() || g.Children(id).size() != 1 || !g.Children(*g.Children(id).begin()).empty()) continue;
                    for (uint32_t o = 0; o < e.tx->vout.size(); ++o)
                        if (!g.spender.count(COutPoint(id, o)) && Keys().CanSpend(e.tx->vout[o].scriptPubKey) && e.tx->vout[o].nValue > 2000) { P = e.tx; free_out = COutPoint(id, o); break; }
                    if (P) break;
                }
        }
        if (!P) {
            if (conf.empty()) { ctx.ev("sibling: no coin"); return; }
            std::vector<MempoolSim::Spendable> ins{Take(conf, r)};
            P = ms.MakeTx(ins, Outs(r, ms.InputSum(ins), (int)r.range(2, 3)), 1000 + (int64_t)r.below(3000), 0, 3, 0, {}, SigDefect::NONE, TS_TRUC);
            if (!Valid(ms.SubmitTx(P, false, TS_TRUC))) return;
            std::vector<MempoolSim::Spendable> sin{{COutPoint(P->GetHash(), 0), RefCoin{P->vout[0].nValue, P->vout[0].scriptPubKey, next_h, false}, false}};
            static const int64_t rates[4] = {200, 1000, 5000, 20000};
            CTransactionRef S = ms.MakeTx(sin, Outs(r, ms.InputSum(sin), 1), rates[r.below(4)], 0, 3, 0, {}, SigDefect::NONE, TS_TRUC);
            if (!Valid(ms.SubmitTx(S, false, TS_TRUC))) return;
            free_out = COutPoint(P->GetHash(), 1);
        }
        MempoolSnap snap = ms.Snapshot();
        PoolGraph g(snap);
        if (!snap.count(P->GetHash())) return;
        std::set<Txid> d = g.Children(P->GetHash()); // the sibling(s)
        std::vector<MempoolSim::Spendable> ins{{*free_out, RefCoin{P->vout[free_out->n].nValue, P->vout[free_out->n].scriptPubKey, next_h, false}, false}};
        int mode = (int)op.mod(1, 4);
        if (mode == 2) {
            // additionally double-spend a confirmed input of an unrelated mempool transaction
            for (auto& [id, e] : snap) {
                if (id == P->GetHash() || g.Closure({P->GetHash()}).count(id)) continue;
                auto it = ms.TipUtxo().find(e.tx->vin[0].prevout);
                if (it == ms.TipUtxo().end() || !Keys().CanSpend(it->second.spk) || Keys().Classify(it->second.spk).kind == SK::TRUE_BARE) continue;
                ins.push_back({e.tx->vin[0].prevout, it->second, true});
                d.insert(id);
                break;
            }
        }
        CAmount E = g.ModFees(g.Closure(d));
        if (!conf.empty() && (mode == 1 || ms.InputSum(ins) < E + 20000)) ins.push_back(Take(conf, r));
        CAmount delta = kDeltas[op.mod(2, 8)];
        CTransactionRef T = ms.MakeTx(ins, Outs(r, ms.InputSum(ins) - E, 1), kIncrementalSatPerKvB, E + delta, 3, 0, {}, SigDefect::NONE, TS_TRUC);
        ctx.probe("sibling_eviction_attempt");
        ms.SubmitTx(T, op.arg(3) & 1, TS_TRUC);
        if ((op.arg(3) & 1) && (op.arg(3) & 4)) ms.SubmitTx(T, false, TS_TRUC);
    }

    /** K_PKGRBF: parent A double-spends a confirmed input of a mempool transaction but does not pay for it; child B brings the
     *  package total to the threshold + delta */
    void OpPackageRbf(const Op& op)
    {
        Rng r(mix64((uint64_t)op.arg(0), 0x302));
        MempoolSnap snap = ms.Snapshot();
        PoolGraph g(snap);
        auto conf = ConfStd();
        const int next_h = ms.cs.ref->blocks[ms.TipIdx()].height + 1;
        std::vector<MempoolSim::Spendable> cand;
        for (auto& [id, e] : snap)
            for (auto& vin : e.tx->vin) {
                auto it = ms.TipUtxo().find(vin.prevout);
                if (it != ms.TipUtxo().end() && Keys().CanSpend(it->second.spk) && Keys().Classify(it->second.spk).kind != SK::TRUE_BARE) cand.push_back({vin.prevout, it->second, true});
            }
        if (cand.empty()) { ctx.ev("package-rbf: no victim with a confirmed input"); return; }
        std::vector<MempoolSim::Spendable> ains{Take(cand, r)};
        if (!cand.empty() && r.chance(1, 4) && cand[0].op != ains[0].op) ains.push_back(Take(cand, r)); // maybe a second victim
        std::set<Txid> d;
        for (auto& i : ains) d.insert(g.spender.at(i.op));
        CAmount E = g.ModFees(g.Closure(d));
        if (!conf.empty() && (ms.InputSum(ains) < E + 100000 || r.chance(1, 3))) ains.push_back(Take(conf, r));
        static const int64_t prates[4] = {0, 100, 101, 1000};
        const uint32_t version = (op.arg(3) & 2) ? 3 : 2;
        CTransactionRef A = ms.MakeTx(ains, Outs(r, ms.InputSum(ains), 1), prates[op.mod(1, 4)], 0, version, 0, {}, SigDefect::NONE, TS_SIMPLE);
        CAmount a_out = 0;
        for (auto& o : A->vout) a_out += o.nValue;
        const CAmount fee_a = ms.InputSum(ains) - a_out;
        std::vector<MempoolSim::Spendable> bins{{COutPoint(A->GetHash(), 0), RefCoin{A->vout[0].nValue, A->vout[0].scriptPubKey, next_h, false}, false}};
        const CAmount delta = kDeltas[op.mod(2, 8)];
        const int64_t va = WeightVsize(*A);
        CTransactionRef Bt;
        int64_t vb = 150;
        for (int iter = 0; iter < 4; ++iter) {
            CAmount fee_b = std::max<CAmount>(0, E + IncFee(va + vb) + delta - fee_a);
            Rng rr = r; // same outputs every iteration
            Bt = ms.MakeTx(bins, Outs(rr, ms.InputSum(bins), 1), 0, fee_b, version, 0, {}, SigDefect::NONE, TS_CHAIN);
            if (WeightVsize(*Bt) == vb) break;
            vb = WeightVsize(*Bt);
        }
        ctx.probe(delta < 0 ? "package_rbf_attempt_below_threshold" : delta == 0 ? "package_rbf_attempt_at_threshold" : "package_rbf_attempt_above_threshold");
        ms.SubmitPackage({A, Bt}, false, PS_CONFLICTS_MEMPOOL);
    }

    /** K_CLUSTERS: n single-transaction clusters, then one transaction double-spending k = 97..103 of them, fee at threshold + delta */
    void OpClusters(const Op& op)
    {
        Rng r(mix64((uint64_t)op.arg(0), 0x303));
        const int k = kClusterK[op.mod(1, 15)];
        const int n = k + (int)r.below(3);
        auto conf = ConfStd();
        if (conf.empty()) { ctx.ev("clusters: no coin"); return; }
        std::sort(conf.begin(), conf.end(), [](auto& a, auto& b) { return a.coin.value != b.coin.value ? a.coin.value > b.coin.value : a.op < b.op; });
        if (conf[0].coin.value < (CAmount)n * 40000) { ctx.ev("clusters: no coin large enough"); return; }
        std::vector<MempoolSim::Spendable> fin{conf[0]};
        std::vector<CTxOut> outs;
        for (int i = 0; i < n; ++i) outs.push_back(CTxOut(30000, Keys().Spk(i % 3 == 0 ? SK::P2TR : SK::P2WPKH, i % N_KEYS)));
        outs.push_back(StdOut(r, 0));
        CTransactionRef F = ms.MakeTx(fin, outs, 2000, 0, 2, 0, {}, SigDefect::NONE, TS_FANOUT);
        if (!Valid(ms.SubmitTx(F, false, TS_FANOUT))) return;
        ms.ExecOp(Op{MP_MINE, {100, 0, op.arg(0)}});
        if (!ms.TipUtxo().count(COutPoint(F->GetHash(), 0))) { ctx.ev("clusters: fan-out not confirmed"); return; }
        const int h = ms.cs.ref->blocks[ms.TipIdx()].height;
        std::vector<MempoolSim::Spendable> rins;
        for (int i = 0; i < n; ++i) {
            MempoolSim::Spendable s{COutPoint(F->GetHash(), (uint32_t)i), RefCoin{F->vout[i].nValue, F->vout[i].scriptPubKey, h, false}, true};
            CTransactionRef t = ms.MakeTx({s}, Outs(r, s.coin.value, 1), 1000 + (int64_t)r.below(800), 0, 2, 0, {}, SigDefect::NONE, TS_SIMPLE);
            if (Valid(ms.SubmitTx(t, false, TS_SIMPLE)) && (int)rins.size() < k) rins.push_back(s);
        }
        if ((int)rins.size() < k) return;
        MempoolSnap snap = ms.Snapshot();
        PoolGraph g(snap);
        std::set<Txid> d;
        for (auto& i : rins)
            if (auto it = g.spender.find(i.op); it != g.spender.end()) d.insert(it->second);
        CAmount E = g.ModFees(g.Closure(d));
        static const CAmount cdeltas[4] = {0, 1, 2000, -1};
        CAmount delta = cdeltas[op.mod(2, 4)];
        CTransactionRef T = ms.MakeTx(rins, Outs(r, ms.InputSum(rins), 1), kIncrementalSatPerKvB, E + delta, 2, 0, {}, SigDefect::NONE, TS_CONFLICT);
        ctx.probe(k > (int)kMaxClusters ? "attempt_over_100_clusters" : k == (int)kMaxClusters ? "attempt_exactly_100_clusters" : "attempt_under_100_clusters");
        ms.SubmitTx(T, false, TS_CONFLICT);
    }
};

// ---------------------------------------------------------------------------------------------

Plan Gen(uint64_t seed, Tier tier)
{
    Plan p = GenMempoolPlan(seed, tier, "c26");
    Rng rng(mix64(seed, strhash("c26-scenarios")));
    std::vector<Op> extra;
    auto seed48 = [&] { return (int64_t)(rng.next() >> 16); };
    auto flags = [&] { return (int64_t)((rng.chance(1, 8) ? 1 : 0) | (rng.chance(1, 10) ? 2 : 0) | (rng.chance(1, 2) ? 4 : 0)); };
    const int scale = tier == Tier::THOROUGH ? 2 : 1;
    for (int i = (int)rng.range(2, 8 * scale); i > 0; --i) extra.push_back(Op{K_MULTI, {seed48(), (int64_t)rng.pick({4, 3, 2, 1}), (int64_t)rng.below(8), flags() | (rng.chance(1, 8) ? 8 : 0)}});
    for (int i = (int)rng.range(1, 4 * scale); i > 0; --i) extra.push_back(Op{K_SIBLING, {seed48(), (int64_t)rng.below(4), (int64_t)rng.below(8), (int64_t)((rng.chance(1, 8) ? 1 : 0) | (rng.chance(1, 2) ? 4 : 0) | (rng.chance(1, 3) ? 8 : 0))}});
    for (int i = (int)rng.range(1, 4 * scale); i > 0; --i) extra.push_back(Op{K_PKGRBF, {seed48(), (int64_t)rng.below(4), (int64_t)rng.below(8), (int64_t)(rng.chance(1, 6) ? 2 : 0)}});
    if (rng.chance(1, 5)) extra.push_back(Op{K_CLUSTERS, {seed48(), (int64_t)rng.below(15), (int64_t)rng.below(4)}});
    p.knobs["c26_scenario_ops"] = (int64_t)extra.size();
    for (auto& op : extra) p.ops.insert(p.ops.begin() + (ptrdiff_t)rng.below(p.ops.size() + 1), op);
    return p;
}

std::string Describe(const Op& op)
{
    char b[200];
    switch (op.kind) {
    case K_MULTI: snprintf(b, sizeof b, "multi_conflict_replacement(seed=%ld, victims=%ld, threshold%+ld sat, flags=%ld[1=test_accept,2=v3,4=then-submit,8=also spend an evicted output])", (long)op.arg(0), (long)(1 + op.mod(1, 4)), (long)kDeltas[op.mod(2, 8)], (long)op.arg(3)); return b;
    case K_SIBLING: snprintf(b, sizeof b, "truc_sibling_eviction(seed=%ld, threshold%+ld sat, mode=%ld[1=+confirmed input,2=+input conflict], flags=%ld[1=test_accept,4=then-submit,8=fresh parent])", (long)op.arg(0), (long)kDeltas[op.mod(2, 8)], (long)op.mod(1, 4), (long)op.arg(3)); return b;
    case K_PKGRBF: snprintf(b, sizeof b, "package_rbf(seed=%ld, parent_feerate_class=%ld, threshold%+ld sat, flags=%ld[2=v3])", (long)op.arg(0), (long)op.mod(1, 4), (long)kDeltas[op.mod(2, 8)], (long)op.arg(3)); return b;
    case K_CLUSTERS: snprintf(b, sizeof b, "conflict_with_clusters(seed=%ld, k=%ld, delta_sel=%ld)", (long)op.arg(0), (long)kClusterK[op.mod(1, 15)], (long)op.mod(2, 4)); return b;
    default: return DescribeMempoolOp(op);
    }
}

void Run(Ctx& ctx)
{
    MempoolSimConfig cfg;
    cfg.check_consistency = false;
    cfg.snapshots = true;
    cfg.bias = "c26";
    MempoolSim ms(ctx, cfg);
    C26 o(ctx, ms);
    ms.after_submit = [&](const SubmitRecord& r) { o.Check(r); };
    ms.Setup();
    if (ms.pool().m_opts.incremental_relay_feerate.GetFeePerK() != kIncrementalSatPerKvB) ctx.failf("harness-incremental-relay-fee-not-default", "the node runs with incremental relay feerate %ld sat/kvB, the oracle assumes %ld", (long)ms.pool().m_opts.incremental_relay_feerate.GetFeePerK(), (long)kIncrementalSatPerKvB);
    for (const Op& op : ctx.plan.ops) {
        switch (op.kind) {
        case K_MULTI: o.OpMulti(op); break;
        case K_SIBLING: o.OpSibling(op); break;
        case K_PKGRBF: o.OpPackageRbf(op); break;
        case K_CLUSTERS: o.OpClusters(op); break;
        default: ms.ExecOp(op); break;
        }
        ctx.fingerprint(mix64(o.state_fp, (uint64_t)ms.TipIdx()));
    }
    ms.Finish();
    ctx.nontrivial = o.n_checked > 0;
}

Engine MakeEngine()
{
    Engine e;
    e.prop = "C26";
    e.name = "nodesim/mempool-rbf";
    e.level = "exploration";
    e.gen = Gen;
    e.run = Run;
    e.describe = Describe;
    e.chunk = 1;
    e.quick_runs = 700;
    e.thorough_runs = 18000;
    e.quick_budget_s = 50;
    e.thorough_budget_s = 900;
    e.rule = "seeded mempool histories on a real regtest node (mempoolsim, bias c26: 40-220 operations, ~35% of the single submissions double-spend an input of a random mempool transaction with fee = "
             "modified fees of the evicted set + incremental relay fee for the own size + {-1,0,+1,+500,+5000,+100000,-1000} sat; chains and fan-outs so that victims have descendants; packages incl. ones whose "
             "parent conflicts with the mempool; prioritisation with negative and positive deltas; blocks, reorgs, clock jumps past expiry; 300 MB mempool so that nothing is trimmed) plus scenario operations of "
             "this engine inserted at random positions: multi_conflict_replacement (1-4 victims, overlapping descendant sets, optionally also spending an output of an evicted entry, test-accept and v3 variants), "
             "truc_sibling_eviction (second child of a TRUC parent, optionally with an input conflict as well), package_rbf (1-parent-1-child package whose parent conflicts and underpays, child brings the total to the "
             "threshold +-), conflict_with_clusters (k = 97..103 single-transaction clusters double-spent by one transaction; in 1/5 of the runs). Oracle after every ProcessTransaction/ProcessNewPackage call that "
             "accepted something (also test-accept), from the mempool snapshot taken before the call: direct conflicts = spenders of the accepted transactions' inputs; evicted = reported replaced list, which must equal "
             "(direct conflicts, plus at most one other child of the mempool parent of an accepted v3 transaction) closed under descendants, must all have left the mempool, and nothing else may have left it except "
             "entries older than the expiry knob with their descendants; own modified fee (model coins + prioritisation delta) >= sum of modified fees of the evicted set + ceil(100 sat/kvB x own weight-based vsize) "
             "(packages: either every conflicting transaction pays on its own in submission order, or the two accepted transactions pay together); no input spends an output of an evicted entry; direct conflicts lie in <= 100 "
             "connected components of the snapshot; the mempool feerate diagram after (cut where chunks turn negative) is >= the one before at every breakpoint and > somewhere, by own exact rational interpolation "
             "(skipped when entries expired in the same call; strictness skipped when negative-feerate chunks are present). Reverse check: a single transaction rejected with exactly 'insufficient fee' must pay less than "
             "that threshold. non-trivial = at least one accepted submission with mempool conflicts was checked; distinct = distinct (mempool txid set, tip) fingerprints.";
    e.real_components = {"MemPoolAccept: PreChecks, ReplacementChecks, PackageRBFChecks, FinalizeSubpackage, AcceptPackage, LimitMempoolSize", "policy/rbf.cpp: GetEntriesForConflicts, PaysForRBF, ImprovesFeerateDiagram, EntriesAndTxidsDisjoint", "policy/truc_policy.cpp: SingleTRUCChecks (sibling eviction)", "CTxMemPool + TxGraph (changesets, staging diagrams, GetFeerateDiagram, check_ratio=1)", "ChainstateManager, script interpreter"};
    e.stub_components = {"peers (transactions handed to ProcessTransaction / ProcessNewPackage)", "wall clock (SetMockTime)", "ValidationSignals task runner (immediate)"};
    e.assumptions = {"the mempool snapshots (entryAll: tx, modified fee, entry time) and GetFeerateDiagram() report the mempool truthfully (C22 checks the former against the model)", "the prioritisation delta of a new transaction is read from the mempool (ApplyDelta); fees are computed from the model's UTXO set (RefChain, see C08)", "incremental relay feerate is the default 100 sat/kvB (checked at start)", "the generator's script kinds never make the sigop-adjusted size exceed the weight-based size; the oracle uses the weight-based size, which can only lower the threshold"};
    e.expected_probes = {"replacement_checked", "test_accept_replacement_checked", "package_replacement_checked", "package_rbf_accepted", "truc_sibling_evicted", "replacement_evicted_descendants", "multi_cluster_replacement", "accepted_at_exact_threshold", "accepted_one_sat_above_threshold", "rejected_one_sat_below_threshold", "rejected_insufficient_fee", "rejected_diagram_not_improved", "rejected_spends_conflicting_tx", "rejected_too_many_clusters", "accepted_with_exactly_100_clusters", "package_rbf_rejected", "diagram_compared", "expired_during_replacement_call", "diagram_with_negative_feerate_chunks"};
    return e;
}
Engine g_engine = MakeEngine();
SIM_REGISTER_ENGINE(g_engine);

} // namespace
