// C23 — block templates built from the mempool are always valid.
// nodesim mempool module (MempoolSim, bias "c23") + node::BlockAssembler driven with seeded BlockCreateOptions at random
// points of the mempool history. Every template the node builds is checked against an independent model:
//   * the node's own TestBlockValidity (raw template, and the solved block with merkle root and PoW checks),
//   * order (each transaction after all of its in-template parents), inputs from the MODEL's UTXO(tip) or from earlier
//     template transactions, no double spend, per-transaction fee recomputed from those coins,
//   * weight (own formula over the serialisation) + reserved weight <= configured maximum,
//   * sigop cost (own BIP16/BIP141 counter written below) + coinbase sigop reservation <= 80,000,
//   * finality of every transaction for height tip+1 at MTP(tip) (RefChain::IsFinal),
//   * coinbase outputs == model subsidy + sum of recomputed fees,
//   * the solved block is VALID per RefChain (model's own block validation) and ProcessNewBlock makes it the tip on a
//     TWIN node (own caches, no mempool) that holds the same chain, or on the node itself.
// Fault: the wall clock steps backwards (bounded, see assumptions) right before a template is built.
#include "../core/sim.h"
#include "../nodesim/mempoolsim.h"

#include <consensus/validation.h>
#include <node/miner.h>
#include <node/mining_types.h>
#include <policy/feerate.h>
#include <util/time.h>
#include <validation.h>

#include <algorithm>
#include <stdexcept>

using namespace sim;
using namespace nodesim;

namespace {

enum OwnOp { XP_LOCKED_TX = 300, XP_SIGOPS_TX = 301, XP_PRIO_POOL = 302, XP_REORG_LOW_MTP = 303 };

// limits and node defaults as documented (BIP141, policy.h documentation of the mining options)
constexpr int64_t kMaxBlockWeight = 4'000'000;
constexpr int64_t kMaxBlockSigopCost = 80'000;
constexpr int64_t kDefaultMaxWeight = 4'000'000;
constexpr int64_t kDefaultReservedWeight = 8'000;
constexpr int64_t kMinReservedWeight = 2'000;
constexpr int64_t kDefaultSigopReservation = 400;

const int64_t kMinFeeClass[6] = {-1 /*unset: node default 1 sat/kvB*/, 0, 100, 1000, 5000, 20000};
const int64_t kWeightDelta[6] = {-1, 0, 1, 2, 3, 400};
const int64_t kSigopDelta[6] = {-1, 0, 1, 2, 4, 5};
const int64_t kTxFeeClass[6] = {100, 1000, 1000, 5000, 20000, 200000};
const CAmount kPrioDelta[6] = {1000, 50000, -1000, -100000, 1, 1000000};

// ---------------------------------------------------------------------------------------------
// plan

// MP_TEMPLATE arguments (rewritten by Gen):
//  a0 weight mode (0 unset, 1 explicit a1, 2 aim: reserved + weight of the first 1+a1%n template txs + delta[a2])
//  a3 reserved mode (0 unset, 1 explicit a4)
//  a5 min fee class
//  a6 sigop reservation mode (0 default, 1 explicit a7, 2 aim: 80000 - sigops of the first 1+a7%n txs - delta[a8])
//  a9 flags: 1 = use_mempool false, 2 = test_block_validity false, 4 = unique coinbase script, bits 3.. coinbase script kind
//  a10 delivery (0 model only, 1 twin node, 2 the node itself)
//  a11 clock step backwards in seconds before building (0 = none)
Op GenTemplateOp(Rng& rng, bool clock_faults)
{
    Op op;
    op.kind = MP_TEMPLATE;
    int64_t wmode = (int64_t)rng.pick({25, 30, 45});
    int64_t wval = 0;
    if (wmode == 1) {
        switch (rng.pick({50, 25, 25})) {
        case 0: wval = rng.range(4000, 30000); break;
        case 1: wval = rng.range(4000, 400000); break;
        default: wval = rng.range(4000, 4000000); break;
        }
    } else if (wmode == 2) wval = (int64_t)rng.skewed(0, 40);
    int64_t rmode = (int64_t)rng.pick({45, 55});
    int64_t rval = 0;
    if (wmode == 1 && wval < kDefaultReservedWeight && !rng.chance(1, 20)) rmode = 1;
    if (rmode == 1) {
        int64_t cap = wmode == 1 ? wval : kMaxBlockWeight;
        switch (rng.pick({40, 45, 10, 5})) {
        case 0: rval = kMinReservedWeight; break;
        case 1: rval = rng.range(kMinReservedWeight, std::min<int64_t>(cap, 12000)); break;
        case 2: rval = rng.range(kMinReservedWeight, cap); break;
        default: rval = rng.chance(1, 2) ? rng.range(0, 1999) : cap + rng.range(1, 5000); break; // refused by the option check
        }
    }
    int64_t smode = (int64_t)rng.pick({35, 25, 40});
    int64_t sval = 0;
    if (smode == 1) {
        switch (rng.pick({20, 10, 20, 35, 10, 5})) {
        case 0: sval = 0; break;
        case 1: sval = 4; break;
        case 2: sval = rng.range(1, 2000); break;
        case 3: sval = rng.range(79000, 80000); break;
        case 4: sval = 80000; break;
        default: sval = 80001 + (int64_t)rng.below(100); break; // refused by the option check
        }
    } else if (smode == 2) sval = (int64_t)rng.skewed(0, 40);
    int64_t flags = (rng.chance(1, 15) ? 1 : 0) | (rng.chance(1, 3) ? 2 : 0) | (rng.chance(2, 3) ? 4 : 0) | ((int64_t)rng.below(32) << 3);
    int64_t deliver = (int64_t)rng.pick({25, 55, 20});
    int64_t back = clock_faults && rng.chance(1, 3) ? rng.skewed(1, 30000) : 0;
    op.a = {wmode, wval, (int64_t)rng.below(6), rmode, rval, (int64_t)rng.pick({25, 25, 10, 20, 10, 10}), smode, sval, (int64_t)rng.below(6), flags, deliver, back};
    return op;
}

Plan Gen(uint64_t seed, Tier tier)
{
    Plan p = GenMempoolPlan(seed, tier, "c23");
    Rng rng(mix64(seed, strhash("c23-templates")));
    const bool clock_faults = rng.chance(2, 3);
    p.knobs["clock_faults"] = clock_faults;
    std::vector<Op> out;
    for (const Op& src : p.ops) {
        if (src.kind == MP_TEMPLATE) out.push_back(GenTemplateOp(rng, clock_faults));
        else out.push_back(src);
        if (rng.chance(1, 10)) out.push_back(Op(XP_LOCKED_TX, {(int64_t)(rng.next() >> 16), (int64_t)rng.pick({30, 30, 12, 12, 8, 8}), (int64_t)rng.below(6), (int64_t)rng.below(2)}));
        if (rng.chance(1, 12)) out.push_back(Op(XP_SIGOPS_TX, {(int64_t)(rng.next() >> 16), (int64_t)(rng.chance(1, 3) ? rng.range(60, 190) : rng.range(2, 40)), (int64_t)rng.below(3), (int64_t)rng.range(2, 5)}));
        if (rng.chance(1, 12)) out.push_back(Op(XP_PRIO_POOL, {(int64_t)rng.below(1000), (int64_t)rng.below(6)}));
        if (rng.chance(1, 30)) out.push_back(Op(XP_REORG_LOW_MTP, {(int64_t)rng.range(1, 6), (int64_t)rng.range(1, 2), (int64_t)(rng.next() >> 16)}));
    }
    Op last = GenTemplateOp(rng, clock_faults);
    last.a[9] &= ~(int64_t)1;
    last.a[10] = 1;
    out.push_back(last);
    p.ops = std::move(out);
    return p;
}

std::string Describe(const Op& op)
{
    char b[320];
    switch (op.kind) {
    case MP_TEMPLATE: {
        static const char* wm[3] = {"default", "explicit", "aim@first-k-txs"};
        static const char* dl[3] = {"model-only", "twin-node", "same-node"};
        snprintf(b, sizeof b, "create_block_template(max_weight=%s:%ld%+ld, reserved=%s:%ld, min_fee_class=%ld, sigop_reservation=%s:%ld-%ld, flags=%ld[1=no-mempool,2=no-internal-TBV,4=unique-cb], deliver=%s, clock_back=%lds)",
                 wm[op.mod(0, 3)], (long)op.arg(1), (long)kWeightDelta[op.mod(2, 6)], op.mod(3, 2) ? "explicit" : "default", (long)op.arg(4), (long)kMinFeeClass[op.mod(5, 6)], wm[op.mod(6, 3)], (long)op.arg(7),
                 (long)kSigopDelta[op.mod(8, 6)], (long)op.arg(9), dl[op.mod(10, 3)], (long)op.arg(11));
        return b;
    }
    case XP_LOCKED_TX: snprintf(b, sizeof b, "submit_locktime_tx(seed=%ld, mode=%ld[0=h-1,1=mtp-1,2=h(nonfinal),3=mtp(nonfinal),4=far+final-seq,5=h-1 chained], feerate_class=%ld, unconfirmed_input=%ld)", (long)op.arg(0), (long)op.mod(1, 6), (long)op.mod(2, 6), (long)(op.arg(3) & 1)); return b;
    case XP_SIGOPS_TX: snprintf(b, sizeof b, "submit_sigop_heavy_tx(seed=%ld, outputs=%ld, kind=%ld[0=p2pkh,1=bare-multisig,2=mixed], feerate_class=%ld)", (long)op.arg(0), (long)op.arg(1), (long)op.mod(2, 3), (long)op.mod(3, 6)); return b;
    case XP_PRIO_POOL: snprintf(b, sizeof b, "prioritise_mempool_tx(#%ld, delta=%+ld)", (long)op.arg(0), (long)kPrioDelta[op.mod(1, 6)]); return b;
    case XP_REORG_LOW_MTP: snprintf(b, sizeof b, "reorg_to_earliest_block_times(depth=%ld, extra=%ld, seed=%ld)", (long)op.arg(0), (long)op.arg(1), (long)op.arg(2)); return b;
    default: return DescribeMempoolOp(op);
    }
}

// ---------------------------------------------------------------------------------------------
// the model's own weight and sigop-cost arithmetic (BIP141 / BIP16 texts; shares only CScript bytes and the serialiser)

int64_t ModelWeight(const CTransaction& tx)
{
    return 3 * (int64_t)GetSerializeSize(TX_NO_WITNESS(tx)) + (int64_t)GetSerializeSize(TX_WITH_WITNESS(tx));
}

struct ScriptItem { unsigned op; std::vector<unsigned char> data; };

/** Own script tokenizer: returns the items parsed before the first malformed push (as the sigop rules count). */
std::vector<ScriptItem> Tokenize(const unsigned char* p, size_t n)
{
    std::vector<ScriptItem> out;
    size_t i = 0;
    while (i < n) {
        unsigned op = p[i++];
        size_t len = 0;
        if (op < 0x4c) len = op;
        else if (op == 0x4c) { if (i + 1 > n) break; len = p[i]; i += 1; }
        else if (op == 0x4d) { if (i + 2 > n) break; len = p[i] | (p[i + 1] << 8); i += 2; }
        else if (op == 0x4e) { if (i + 4 > n) break; len = (size_t)p[i] | ((size_t)p[i + 1] << 8) | ((size_t)p[i + 2] << 16) | ((size_t)p[i + 3] << 24); i += 4; }
        if (len > n - i) break;
        ScriptItem it{op, {}};
        if (op <= 0x4e) it.data.assign(p + i, p + i + len);
        i += len;
        out.push_back(std::move(it));
    }
    return out;
}
std::vector<ScriptItem> Tokenize(const CScript& s) { return Tokenize(s.data(), s.size()); }

/** CHECKSIG(VERIFY) = 1; CHECKMULTISIG(VERIFY) = 20, or n when `accurate` and directly preceded by OP_1..OP_16. */
int64_t CountSigops(const std::vector<ScriptItem>& items, bool accurate)
{
    int64_t n = 0;
    unsigned last = 0xff;
    for (auto& it : items) {
        if (it.op == 0xac || it.op == 0xad) n += 1;
        else if (it.op == 0xae || it.op == 0xaf) n += (accurate && last >= 0x51 && last <= 0x60) ? (int64_t)(last - 0x50) : 20;
        last = it.op;
    }
    return n;
}

bool IsP2SH(const CScript& s) { return s.size() == 23 && s[0] == 0xa9 && s[1] == 0x14 && s[22] == 0x87; }

/** witness program: 4..42 bytes, version opcode OP_0 or OP_1..OP_16, then one direct push of 2..40 bytes */
bool WitnessProgram(const unsigned char* p, size_t n, int& version, size_t& proglen)
{
    if (n < 4 || n > 42) return false;
    if (p[0] != 0x00 && (p[0] < 0x51 || p[0] > 0x60)) return false;
    if ((size_t)p[1] + 2 != n) return false;
    version = p[0] == 0 ? 0 : p[0] - 0x50;
    proglen = p[1];
    return true;
}

int64_t WitnessSigops(int version, size_t proglen, const CScriptWitness& wit)
{
    if (version != 0) return 0; // taproot and unknown versions cost nothing
    if (proglen == 20) return 1;
    if (proglen == 32 && !wit.stack.empty()) return CountSigops(Tokenize(wit.stack.back().data(), wit.stack.back().size()), true);
    return 0;
}

/** BIP141 sigop cost of a non-coinbase transaction given the scripts it spends. */
int64_t ModelSigopCost(const CTransaction& tx, const std::vector<CScript>& spent)
{
    int64_t legacy = 0;
    for (auto& in : tx.vin) legacy += CountSigops(Tokenize(in.scriptSig), false);
    for (auto& o : tx.vout) legacy += CountSigops(Tokenize(o.scriptPubKey), false);
    int64_t cost = 4 * legacy;
    if (tx.IsCoinBase()) return cost;
    for (size_t i = 0; i < tx.vin.size(); ++i) {
        const CScript& spk = spent[i];
        int ver = 0;
        size_t plen = 0;
        if (WitnessProgram(spk.data(), spk.size(), ver, plen)) {
            cost += WitnessSigops(ver, plen, tx.vin[i].scriptWitness);
        } else if (IsP2SH(spk)) {
            auto items = Tokenize(tx.vin[i].scriptSig);
            bool push_only = items.size() > 0;
            // a scriptSig that failed to tokenize completely or contains a non-push has no countable redeem script
            size_t consumed = 0;
            for (auto& it : items) {
                if (it.op > 0x60) push_only = false;
                consumed += 1 + it.data.size() + (it.op == 0x4c ? 1 : it.op == 0x4d ? 2 : it.op == 0x4e ? 4 : 0);
            }
            if (consumed != tx.vin[i].scriptSig.size()) push_only = false;
            if (!push_only) continue;
            const std::vector<unsigned char>& redeem = items.back().data;
            cost += 4 * CountSigops(Tokenize(redeem.data(), redeem.size()), true);
            if (WitnessProgram(redeem.data(), redeem.size(), ver, plen)) cost += WitnessSigops(ver, plen, tx.vin[i].scriptWitness);
        }
    }
    return cost;
}

// ---------------------------------------------------------------------------------------------

struct TemplateOpts {
    std::optional<int64_t> max_weight, reserved, min_fee_kvb;
    int64_t sigop_reservation{kDefaultSigopReservation};
    bool sigops_default{true};
    bool use_mempool{true};
    bool internal_tbv{true};
    CScript cb_script;
    // effective ("flattened") configuration the statement refers to
    int64_t EffMax() const { return max_weight.value_or(kDefaultMaxWeight); }
    int64_t EffReserved() const { return reserved.value_or(kDefaultReservedWeight); }
    /** the documented acceptance conditions of the option set */
    bool Acceptable() const
    {
        return EffReserved() >= kMinReservedWeight && EffReserved() <= kMaxBlockWeight && EffMax() <= kMaxBlockWeight && EffReserved() <= EffMax() && sigop_reservation <= kMaxBlockSigopCost;
    }
    node::BlockCreateOptions ToNode() const
    {
        node::BlockCreateOptions o;
        o.use_mempool = use_mempool;
        if (min_fee_kvb) o.block_min_fee_rate = CFeeRate{*min_fee_kvb};
        if (reserved) o.block_reserved_weight = (uint64_t)*reserved;
        if (max_weight) o.block_max_weight = (uint64_t)*max_weight;
        if (!sigops_default) o.coinbase_output_max_additional_sigops = (size_t)sigop_reservation;
        o.coinbase_output_script = cb_script;
        o.test_block_validity = internal_tbv;
        return o;
    }
};

struct TemplateFacts {
    size_t ntx{0};
    int64_t weight{0}, sigops{0};
    CAmount fees{0};
    std::vector<int64_t> tx_weight, tx_sigops;
    bool has_dependency{false}, has_locktime{false};
};

class C23Sim
{
public:
    Ctx& ctx;
    MempoolSim ms;
    std::unique_ptr<SimNode> twin;
    std::set<int> twin_has;
    uint64_t counter{0};
    int64_t last_now{0};
    uint64_t sim_abs_s{0};

    explicit C23Sim(Ctx& c) : ctx(c), ms(c, MakeCfg()) {}
    static MempoolSimConfig MakeCfg()
    {
        MempoolSimConfig cfg;
        cfg.check_consistency = false; // C22's oracle; not needed here
        cfg.bias = "c23";
        return cfg;
    }

    RefChain& ref() { return *ms.cs.ref; }

    void TrackClock()
    {
        int64_t d = ms.cs.now - last_now;
        sim_abs_s += (uint64_t)(d < 0 ? -d : d);
        last_now = ms.cs.now;
    }

    void Run()
    {
        ms.on_template = [this](const Op& op) { OnTemplate(op); };
        ms.Setup();
        last_now = ms.cs.now;
        for (const Op& op : ctx.plan.ops) {
            if (op.kind >= XP_LOCKED_TX) OwnOp(op);
            else ms.ExecOp(op);
            TrackClock();
        }
        if (twin) twin->Stop(true);
        ms.Finish();
        ctx.sim_ms = sim_abs_s * 1000;
    }

    // ---- own workload ops -----------------------------------------------------------------

    std::vector<MempoolSim::Spendable> StdConfirmed()
    {
        std::vector<MempoolSim::Spendable> v;
        for (auto& s : ms.FreeConfirmed())
            if (Keys().Classify(s.coin.spk).kind != SK::TRUE_BARE) v.push_back(s);
        return v;
    }

    void OwnOp(const Op& op)
    {
        const Keyring& kr = Keys();
        const int tip = ms.TipIdx();
        const int next_h = ref().blocks[tip].height + 1;
        const int64_t mtp = ref().MTP(tip);
        switch (op.kind) {
        case XP_LOCKED_TX: {
            Rng r(mix64((uint64_t)op.arg(0), 0x6c6f636b));
            int mode = (int)op.mod(1, 6);
            std::vector<MempoolSim::Spendable> pool = (op.arg(3) & 1) || mode == 5 ? ms.FreeUnconfirmed() : std::vector<MempoolSim::Spendable>{};
            if (pool.empty()) pool = StdConfirmed();
            if (pool.empty()) { ctx.ev("locktime_tx: nothing to spend"); break; }
            std::vector<MempoolSim::Spendable> ins{pool[r.below(pool.size())]};
            uint32_t locktime = 0, seq = 0xfffffffe;
            switch (mode) {
            case 0: case 5: locktime = (uint32_t)(next_h - 1); break;
            case 1: locktime = (uint32_t)(mtp - 1); break;
            case 2: locktime = (uint32_t)next_h; break;
            case 3: locktime = (uint32_t)mtp; break;
            default: locktime = (uint32_t)(next_h + 1000); seq = 0xffffffff; break;
            }
            std::vector<CTxOut> outs{CTxOut(0, kr.Spk(r.chance(1, 2) ? SK::P2WPKH : SK::P2TR, (int)r.below(N_KEYS)))};
            CTransactionRef tx = ms.MakeTx(ins, outs, kTxFeeClass[op.mod(2, 6)], 0, 2, locktime, {seq}, SigDefect::NONE, TS_SIMPLE);
            ms.SubmitTx(tx, false, TS_SIMPLE);
            bool in_pool = ms.pool().exists(tx->GetHash());
            if (in_pool) ctx.probe(mode == 1 ? "timelocked_tx_in_mempool" : mode == 4 ? "final_by_sequence_tx_in_mempool" : "heightlocked_tx_in_mempool");
            else if (mode == 2 || mode == 3) ctx.probe("nonfinal_tx_refused_by_mempool");
            break;
        }
        case XP_SIGOPS_TX: {
            Rng r(mix64((uint64_t)op.arg(0), 0x7369676f));
            auto pool = StdConfirmed();
            if (pool.empty()) { ctx.ev("sigops_tx: nothing to spend"); break; }
            // the richest coin, so that every output is above dust
            size_t best = 0;
            for (size_t i = 1; i < pool.size(); ++i)
                if (pool[i].coin.value > pool[best].coin.value) best = i;
            std::vector<MempoolSim::Spendable> ins{pool[best]};
            int nout = (int)std::clamp<int64_t>(op.arg(1), 1, 190);
            int kind = (int)op.mod(2, 3);
            CAmount each = std::min<CAmount>(20000, ins[0].coin.value / (nout + 2));
            if (each < 1000) { ctx.ev("sigops_tx: coin too small"); break; }
            std::vector<CTxOut> outs;
            for (int i = 0; i < nout; ++i) {
                bool multisig = kind == 1 || (kind == 2 && r.chance(1, 2));
                const CPubKey& pk = kr.pubs[r.below(N_KEYS)];
                if (multisig) outs.emplace_back(each, CScript() << OP_1 << std::vector<unsigned char>(pk.begin(), pk.end()) << OP_1 << OP_CHECKMULTISIG);
                else outs.emplace_back(each, kr.Spk(SK::P2PKH, (int)r.below(N_KEYS)));
            }
            outs.emplace_back(0, kr.Spk(SK::P2WPKH, (int)r.below(N_KEYS)));
            CTransactionRef tx = ms.MakeTx(ins, outs, kTxFeeClass[op.mod(3, 6)], 0, 2, 0, {}, SigDefect::NONE, TS_FANOUT);
            ms.SubmitTx(tx, false, TS_FANOUT);
            if (ms.pool().exists(tx->GetHash())) ctx.probe("sigop_heavy_tx_in_mempool");
            break;
        }
        case XP_PRIO_POOL: {
            std::vector<Txid> ids;
            for (auto& info : ms.pool().infoAll()) ids.push_back(info.tx->GetHash());
            if (ids.empty()) { ctx.ev("prioritise: mempool empty"); break; }
            std::sort(ids.begin(), ids.end());
            const Txid id = ids[op.mod(0, ids.size())];
            CAmount d = kPrioDelta[op.mod(1, 6)];
            ms.pool().PrioritiseTransaction(id, d);
            ctx.probe("prioritised_mempool_tx");
            ctx.evf("prioritise %s %+ld", id.ToString().substr(0, 10).c_str(), (long)d);
            break;
        }
        case XP_REORG_LOW_MTP: {
            // a longer competing branch whose blocks carry the earliest admissible time (MTP+1): the median time past of the
            // new tip can be lower than before, so time-locked mempool transactions may stop being final
            const int depth = (int)std::clamp<int64_t>(op.arg(0), 1, 6), extra = (int)std::clamp<int64_t>(op.arg(1), 1, 2);
            const int fork = ref().Ancestor(tip, std::max(0, ref().blocks[tip].height - depth));
            const int len = ref().blocks[tip].height - ref().blocks[fork].height + extra;
            Rng r(mix64((uint64_t)op.arg(2), 0x6c6f776d));
            std::vector<int> branch;
            int parent = fork;
            for (int i = 0; i < len; ++i) {
                parent = ms.cs.MineOn(parent, 0, r.next(), D_NONE, B_NONE, /*time_mode=*/1);
                branch.push_back(parent);
            }
            std::vector<CTransactionRef> locked_before;
            for (auto& info : ms.pool().infoAll())
                if (info.tx->nLockTime != 0) locked_before.push_back(info.tx);
            for (int b : branch) ms.cs.Deliver(b, true);
            ms.any_disconnect = true;
            const int nt = ms.TipIdx();
            for (auto& tx : locked_before)
                if (nt >= 0 && !ref().IsFinal(*tx, ref().blocks[nt].height + 1, ref().MTP(nt))) { ctx.probe("mempool_tx_nonfinal_after_reorg"); break; }
            ctx.probe("reorg_earliest_times");
            if (nt >= 0 && ref().MTP(nt) < mtp) ctx.probe("reorg_lowered_mtp");
            ms.cs.CheckAll("reorg_to_earliest_block_times");
            break;
        }
        default: break;
        }
    }

    // ---- templates ------------------------------------------------------------------------

    std::unique_ptr<node::CBlockTemplate> Build(const TemplateOpts& o, const char* where)
    {
        Chainstate* chainstate;
        {
            LOCK(cs_main);
            chainstate = &ms.node().cs();
        }
        std::unique_ptr<node::CBlockTemplate> t;
        std::string err;
        try {
            t = node::BlockAssembler{*chainstate, &ms.pool(), o.ToNode()}.CreateNewBlock();
        } catch (const std::runtime_error& e) {
            err = e.what();
        }
        if (!t) {
            if (!o.Acceptable()) {
                ctx.probe("options_refused");
                ctx.evf("%s: options refused: %s", where, err.c_str());
                return nullptr;
            }
            if (err.rfind("TestBlockValidity failed", 0) == 0)
                ctx.failf("template-fails-node-validation", "%s: CreateNewBlock built a template that its own TestBlockValidity rejects: %s", where, err.c_str());
            ctx.failf("template-creation-failed", "%s: CreateNewBlock threw with acceptable options (max_weight=%ld reserved=%ld sigops=%ld): %s", where, (long)o.EffMax(), (long)o.EffReserved(), (long)o.sigop_reservation, err.c_str());
        }
        if (!o.Acceptable()) ctx.probe("template_built_with_out_of_range_options"); // not claimed either way by the statement
        return t;
    }

    /** The statement's clauses that need no solved block. */
    TemplateFacts CheckStatic(const node::CBlockTemplate& t, const TemplateOpts& o, const char* where)
    {
        const int tip = ms.TipIdx();
        const RefBlock& T = ref().blocks[tip];
        const int next_h = T.height + 1;
        const int64_t mtp = ref().MTP(tip);
        const RefUtxo& utxo = ms.TipUtxo();
        const CBlock& b = t.block;
        TemplateFacts f;
        if (b.hashPrevBlock != T.hash) ctx.failf("template-not-on-tip", "%s: template builds on %s, tip is %s", where, b.hashPrevBlock.ToString().substr(0, 10).c_str(), T.hash.ToString().substr(0, 10).c_str());
        if (b.vtx.empty() || !b.vtx[0] || !b.vtx[0]->IsCoinBase()) ctx.failf("template-no-coinbase", "%s: first transaction is not a coinbase", where);
        f.ntx = b.vtx.size() - 1;
        if (t.vTxFees.size() != f.ntx) ctx.failf("template-fee-list-size", "%s: %zu transactions but %zu fee entries", where, f.ntx, t.vTxFees.size());
        std::map<Txid, size_t> pos;
        for (size_t i = 1; i < b.vtx.size(); ++i) {
            if (b.vtx[i]->IsCoinBase()) ctx.failf("template-second-coinbase", "%s: transaction %zu is a coinbase", where, i);
            if (!pos.emplace(b.vtx[i]->GetHash(), i).second) ctx.failf("template-duplicate-tx", "%s: tx %s listed twice", where, b.vtx[i]->GetHash().ToString().substr(0, 10).c_str());
        }
        std::map<COutPoint, CTxOut> created;
        std::set<COutPoint> spent;
        for (size_t i = 1; i < b.vtx.size(); ++i) {
            const CTransaction& tx = *b.vtx[i];
            const std::string id = tx.GetHash().ToString().substr(0, 10);
            CAmount in = 0, out = 0;
            std::vector<CScript> spks;
            for (auto& vin : tx.vin) {
                if (!spent.insert(vin.prevout).second) ctx.failf("template-double-spend", "%s: outpoint %s:%u spent twice in the template", where, vin.prevout.hash.ToString().substr(0, 10).c_str(), vin.prevout.n);
                auto p = pos.find(vin.prevout.hash);
                if (p != pos.end()) {
                    if (p->second >= i) ctx.failf("template-child-before-parent", "%s: tx %s at position %zu spends an output of tx at position %zu", where, id.c_str(), i, p->second);
                    auto c = created.find(vin.prevout);
                    if (c == created.end()) ctx.failf("template-input-missing", "%s: tx %s spends output %u of in-template tx %s which has no such output", where, id.c_str(), vin.prevout.n, vin.prevout.hash.ToString().substr(0, 10).c_str());
                    in += c->second.nValue;
                    spks.push_back(c->second.scriptPubKey);
                    f.has_dependency = true;
                } else {
                    auto c = utxo.find(vin.prevout);
                    if (c == utxo.end()) ctx.failf("template-input-not-in-utxo", "%s: tx %s spends %s:%u which is neither in the model's UTXO(tip) nor created earlier in the template", where, id.c_str(), vin.prevout.hash.ToString().substr(0, 10).c_str(), vin.prevout.n);
                    in += c->second.value;
                    spks.push_back(c->second.spk);
                }
            }
            for (auto& o2 : tx.vout) out += o2.nValue;
            if (in < out) ctx.failf("template-tx-creates-value", "%s: tx %s spends %ld and creates %ld", where, id.c_str(), (long)in, (long)out);
            const CAmount fee = in - out;
            if (t.vTxFees[i - 1] != fee) ctx.failf("template-fee-entry-wrong", "%s: template lists fee %ld for tx %s, inputs-outputs by the model = %ld", where, (long)t.vTxFees[i - 1], id.c_str(), (long)fee);
            f.fees += fee;
            int64_t w = ModelWeight(tx), s = ModelSigopCost(tx, spks);
            f.tx_weight.push_back(w);
            f.tx_sigops.push_back(s);
            f.weight += w;
            f.sigops += s;
            if (tx.nLockTime != 0) f.has_locktime = true;
            if (!ref().IsFinal(tx, next_h, mtp)) ctx.failf("template-nonfinal-tx", "%s: tx %s (nLockTime %u) is not final for height %d / MTP %ld", where, id.c_str(), tx.nLockTime, next_h, (long)mtp);
            for (size_t k = 0; k < tx.vout.size(); ++k) created.emplace(COutPoint(tx.GetHash(), (uint32_t)k), tx.vout[k]);
        }
        if (!ref().IsFinal(*b.vtx[0], next_h, mtp)) ctx.failf("template-nonfinal-coinbase", "%s: coinbase (nLockTime %u) is not final for height %d", where, b.vtx[0]->nLockTime, next_h);
        if (f.weight + o.EffReserved() > o.EffMax())
            ctx.failf("template-exceeds-max-weight", "%s: %zu transactions weigh %ld, + reserved %ld = %ld > configured maximum %ld", where, f.ntx, (long)f.weight, (long)o.EffReserved(), (long)(f.weight + o.EffReserved()), (long)o.EffMax());
        if (f.sigops + o.sigop_reservation > kMaxBlockSigopCost)
            ctx.failf("template-exceeds-sigop-limit", "%s: %zu transactions cost %ld sigops, + coinbase reservation %ld = %ld > 80000", where, f.ntx, (long)f.sigops, (long)o.sigop_reservation, (long)(f.sigops + o.sigop_reservation));
        CAmount cb_out = 0;
        for (auto& o2 : b.vtx[0]->vout) cb_out += o2.nValue;
        const CAmount want = RefSubsidy(next_h, ref().halving_interval) + f.fees;
        if (cb_out != want) ctx.failf("template-coinbase-value-wrong", "%s: coinbase pays %ld, model subsidy %ld + template fees %ld = %ld", where, (long)cb_out, (long)RefSubsidy(next_h, ref().halving_interval), (long)f.fees, (long)want);
        {
            // the node's own consensus code on the template exactly as returned (no merkle root, no PoW yet)
            LOCK(cs_main);
            BlockValidationState st = TestBlockValidity(ms.node().cs(), b, /*check_pow=*/false, /*check_merkle_root=*/false);
            if (!st.IsValid()) ctx.failf("template-fails-testblockvalidity", "%s: TestBlockValidity of the returned template: %s", where, st.ToString().c_str());
        }
        // coverage
        ctx.probe("template_built");
        if (f.ntx) { ctx.probe("template_with_txs"); ctx.nontrivial = true; }
        if (f.has_dependency) ctx.probe("template_with_in_template_parent");
        if (f.has_locktime) ctx.probe("template_with_locktime_tx");
        if (f.ntx && f.weight + o.EffReserved() == o.EffMax() - 1) ctx.probe("template_weight_one_below_limit");
        if (f.ntx && f.weight + o.EffReserved() == o.EffMax()) ctx.probe("template_weight_exactly_at_limit");
        if (f.ntx && f.sigops + o.sigop_reservation == kMaxBlockSigopCost - 1) ctx.probe("template_sigops_one_below_limit");
        if (f.ntx && f.sigops + o.sigop_reservation == kMaxBlockSigopCost) ctx.probe("template_sigops_exactly_at_limit");
        {
            bool prio = false;
            LOCK(ms.pool().cs);
            for (size_t i = 1; i < b.vtx.size() && !prio; ++i)
                if (auto it = ms.pool().GetIter(b.vtx[i]->GetHash()); it && (*it)->GetModifiedFee() != (*it)->GetFee()) prio = true;
            if (prio) ctx.probe("template_with_prioritised_tx");
        }
        return f;
    }

    void StartTwin()
    {
        NodeOpts o;
        o.dir = RunDir() + "/twin";
        o.with_mempool = false;
        o.check_blocks = 0;
        o.check_level = 4;
        twin = std::make_unique<SimNode>(o);
        if (!twin->Start()) ctx.failf("twin-start-failed", "%s", twin->last_error.c_str());
    }

    /** Bring the twin to the node's active chain. Returns false (and the caller skips the twin clause) if it cannot be. */
    bool SyncTwin(int tip)
    {
        if (!twin) StartTwin();
        for (int idx : ref().PathFrom(0, tip)) {
            if (twin_has.count(idx)) continue;
            twin->ProcessBlock(ref().blocks[idx].block, true);
            twin_has.insert(idx);
        }
        if (twin->TipHash() != ref().blocks[tip].hash) {
            ctx.probe("twin_sync_mismatch");
            ctx.evf("twin tip %s != node tip %s", twin->TipHash().ToString().substr(0, 10).c_str(), ref().blocks[tip].hash.ToString().substr(0, 10).c_str());
            return false;
        }
        return true;
    }

    void Solve(const node::CBlockTemplate& t, const TemplateFacts& f, int deliver, const char* where)
    {
        const int tip = ms.TipIdx();
        auto blk = std::make_shared<CBlock>(t.block);
        blk->fChecked = false;
        blk->m_checked_witness_commitment = false;
        blk->m_checked_merkle_root = false;
        blk->hashMerkleRoot = RefBlockMerkleRoot(*blk); // the node's coinbase and witness commitment stay untouched
        Grind(*blk, ms.node().params->GetConsensus());
        const uint256 hash = blk->GetHash();
        if (ref().Find(hash) >= 0) {
            ctx.probe("duplicate_template");
            ctx.evf("%s: same block %s as an earlier template", where, hash.ToString().substr(0, 10).c_str());
            return;
        }
        auto blk_twin = std::make_shared<CBlock>(*blk); // validation result caches of the two nodes stay separate
        {
            LOCK(cs_main);
            BlockValidationState st = TestBlockValidity(ms.node().cs(), *blk, /*check_pow=*/true, /*check_merkle_root=*/true);
            if (!st.IsValid()) ctx.failf("solved-template-fails-testblockvalidity", "%s: TestBlockValidity of the solved block: %s", where, st.ToString().c_str());
        }
        BlockLabel label;
        for (size_t i = 1; i < blk->vtx.size(); ++i) {
            auto m = ms.made.find(blk->vtx[i]->GetHash());
            if (m != ms.made.end() && !m->second.scripts_ok) { label.scripts_ok = false; label.defect = "template contains tx " + blk->vtx[i]->GetHash().ToString().substr(0, 10) + " built with an invalid signature"; }
        }
        const bool twin_ready = deliver == 1 && SyncTwin(tip); // before the model learns the block and possibly moves the clock
        const int idx = ms.cs.AddBlock(blk, tip, label);
        const RefBlock& B = ref().blocks[idx];
        if (B.verdict != Verdict::VALID)
            ctx.failf("template-invalid-per-model", "%s: the solved template block (h=%d, %zu txs) is not valid per the reference model: %s %s", where, B.height, f.ntx, B.reason.c_str(), B.label.defect.c_str());
        if (B.fees != f.fees) ctx.failf("template-coinbase-value-wrong", "%s: model block fees %ld != template fees %ld", where, (long)B.fees, (long)f.fees);
        ctx.probe("template_valid_per_model");
        if (deliver == 1 && twin_ready) {
            auto res = twin->ProcessBlock(blk_twin, true);
            if (twin->Fatal()) ctx.failf("twin-fatal-error", "%s", twin->notifications->fatal_errors.empty() ? twin->notifications->flush_errors[0].c_str() : twin->notifications->fatal_errors[0].c_str());
            std::string v = !res.verdict ? "no verdict" : res.verdict->valid ? "valid" : res.verdict->reason;
            ctx.evf("%s: twin ProcessNewBlock %s -> accepted=%d new=%d verdict=%s", where, hash.ToString().substr(0, 10).c_str(), res.accepted, res.new_block, v.c_str());
            if (!res.accepted || twin->TipHash() != hash)
                ctx.failf("template-block-not-accepted-by-twin", "%s: ProcessNewBlock of the solved template on the twin node: accepted=%d verdict=%s, twin tip %s (block %s)", where, res.accepted, v.c_str(), twin->TipHash().ToString().substr(0, 10).c_str(), hash.ToString().substr(0, 10).c_str());
            ctx.probe("twin_accepted_template_block");
            // take it off the twin's chain again: the node has not mined it
            CBlockIndex* pi = WITH_LOCK(cs_main, return twin->cm().m_blockman.LookupBlockIndex(hash));
            BlockValidationState st, st2;
            if (pi) twin->cs().InvalidateBlock(st, pi);
            twin->cs().ActivateBestChain(st2);
            twin->DrainSignals();
        } else if (deliver == 2) {
            ms.cs.Deliver(idx, true);
            if (ms.TipIdx() != idx) ctx.failf("template-block-not-accepted-as-tip", "%s: the solved template block %s did not become the node's tip", where, hash.ToString().substr(0, 10).c_str());
            ctx.probe("node_accepted_template_block");
        }
    }

    void OnTemplate(const Op& op)
    {
        const Keyring& kr = Keys();
        const std::string where_s = "template@op" + std::to_string(++counter);
        const char* where = where_s.c_str();
        int tip = ms.TipIdx();
        // --- fault: clock steps backwards (never more than 1 h behind the newest block time of the active chain)
        if (op.arg(11) > 0 && ctx.knob("clock_faults", 0)) {
            int64_t newest = 0;
            for (int i = tip; i >= 0; i = ref().blocks[i].parent) newest = std::max(newest, ref().blocks[i].time);
            const int64_t mtp = ref().MTP(tip);
            const int64_t floor = std::max(newest, mtp + 1) - 3600;
            const int64_t target = std::max(floor, ms.cs.now - op.arg(11));
            if (target < ms.cs.now) {
                ctx.evf("clock-%ld", (long)(ms.cs.now - target));
                ms.cs.now = target;
                SetMockTime(std::chrono::seconds{target});
                ctx.fault("clock_step_backwards");
                if (target <= mtp) ctx.fault("clock_at_or_below_mtp");
            }
        }
        // --- options
        TemplateOpts o;
        if (op.mod(3, 2) == 1) o.reserved = op.arg(4);
        if (int64_t c = kMinFeeClass[op.mod(5, 6)]; c >= 0) o.min_fee_kvb = c;
        const int64_t flags = op.arg(9);
        o.use_mempool = !(flags & 1);
        o.internal_tbv = !(flags & 2);
        const int wmode = (int)op.mod(0, 3), smode = (int)op.mod(6, 3);
        if (wmode == 1) o.max_weight = op.arg(1);
        if (smode == 1) { o.sigops_default = false; o.sigop_reservation = op.arg(7); }
        static const SK kinds[8] = {SK::TRUE_BARE, SK::P2WPKH, SK::P2TR, SK::TRUE_WSH, SK::P2PKH, SK::P2SH_P2WPKH, SK::TRUE_BARE, SK::P2WPKH};
        SK cbk = kinds[(flags >> 3) & 7];
        if (wmode == 2 || smode == 2) {
            // aim the limits at the boundary of the k-th transaction of an unrestricted template (itself checked)
            TemplateOpts base;
            base.max_weight = kMaxBlockWeight;
            base.reserved = kMinReservedWeight;
            base.min_fee_kvb = 0;
            base.sigops_default = false;
            base.sigop_reservation = 0;
            base.cb_script = kr.Spk(SK::TRUE_WSH, 0);
            auto bt = Build(base, where);
            TemplateFacts bf = CheckStatic(*bt, base, where);
            ctx.evf("%s: baseline ntx=%zu weight=%ld sigops=%ld fees=%ld", where, bf.ntx, (long)bf.weight, (long)bf.sigops, (long)bf.fees);
            if (wmode == 2) {
                if (bf.ntx == 0) o.max_weight = o.EffReserved() + 1000;
                else {
                    size_t k = 1 + op.mod(1, bf.ntx);
                    int64_t w = 0;
                    for (size_t i = 0; i < k; ++i) w += bf.tx_weight[i];
                    o.max_weight = std::clamp<int64_t>(o.EffReserved() + w + kWeightDelta[op.mod(2, 6)], 0, kMaxBlockWeight);
                    ctx.probe("weight_limit_aimed");
                }
            }
            if (smode == 2) {
                o.sigops_default = false;
                if (bf.ntx == 0) o.sigop_reservation = kMaxBlockSigopCost - 8;
                else {
                    size_t k = 1 + op.mod(7, bf.ntx);
                    int64_t s = 0;
                    for (size_t i = 0; i < k; ++i) s += bf.tx_sigops[i];
                    o.sigop_reservation = std::clamp<int64_t>(kMaxBlockSigopCost - s - kSigopDelta[op.mod(8, 6)], 0, kMaxBlockSigopCost);
                    if (s > 0) ctx.probe("sigop_limit_aimed");
                }
            }
        }
        // the reservation is the caller's promise about the coinbase outputs: keep the promise
        if (cbk == SK::P2PKH && o.sigop_reservation < 4) cbk = SK::P2WPKH;
        if (flags & 4) o.cb_script = CScript() << (int64_t)(1000 + counter) << OP_DROP << OP_TRUE; // unique per template (bare, anyone can spend)
        else o.cb_script = kr.Spk(cbk, (int)((flags >> 6) & 3));
        if (cbk == SK::P2PKH && !(flags & 4)) ctx.probe("coinbase_script_with_sigop");

        ctx.evf("%s: options max_weight=%ld%s reserved=%ld%s min_fee=%ld sigop_reservation=%ld use_mempool=%d internal_tbv=%d pool=%lu tip=#%d", where, (long)o.EffMax(), o.max_weight ? "" : "(default)", (long)o.EffReserved(),
                o.reserved ? "" : "(default)", (long)o.min_fee_kvb.value_or(-1), (long)o.sigop_reservation, o.use_mempool, o.internal_tbv, ms.pool().size(), tip);
        auto t = Build(o, where);
        if (!t) return;
        TemplateFacts f = CheckStatic(*t, o, where);
        if (!o.use_mempool) ctx.probe("template_without_mempool");
        if (o.use_mempool && f.ntx < ms.pool().size()) ctx.probe("template_left_out_mempool_txs");
        ctx.evf("%s: ntx=%zu weight=%ld sigops=%ld fees=%ld time=%u now=%ld", where, f.ntx, (long)f.weight, (long)f.sigops, (long)f.fees, t->block.nTime, (long)ms.cs.now);
        uint64_t fp = mix64((uint64_t)o.EffMax(), (uint64_t)o.EffReserved());
        fp = mix64(fp, (uint64_t)o.sigop_reservation);
        fp = mix64(fp, ref().blocks[tip].hash.GetUint64(0));
        for (size_t i = 1; i < t->block.vtx.size(); ++i) fp = mix64(fp, t->block.vtx[i]->GetHash().ToUint256().GetUint64(0));
        ctx.fingerprint(fp);
        Solve(*t, f, (int)op.mod(10, 3), where);
    }
};

void Run(Ctx& ctx)
{
    C23Sim s(ctx);
    s.Run();
}

Engine MakeEngine()
{
    Engine e;
    e.prop = "C23";
    e.name = "nodesim/block-template";
    e.level = "exploration";
    e.gen = Gen;
    e.run = Run;
    e.describe = Describe;
    e.chunk = 1;
    e.quick_runs = 600;
    e.thorough_runs = 12000;
    e.quick_budget_s = 50;
    e.thorough_budget_s = 900;
    e.rule = "seeded mempool histories of the shared mempoolsim generator (bias c23: base chain 105-125 blocks, 40-220 operations: transactions of 11 shapes incl. chains, fan-in/out, RBF at the threshold, TRUC/dust, "
             "invalid and non-standard ones, packages, prioritisation, blocks confirming/conflicting with mempool entries, reorgs of depth 1-3, clock jumps) plus C23's own operations: nLockTime transactions exactly at and "
             "one past the height/MTP finality boundary, sigop-heavy transactions (up to 190 P2PKH / bare-multisig outputs), prioritisation of in-mempool transactions, reorgs of depth 1-6 onto a branch with the earliest admissible block times (MTP of the tip decreases, time-locked entries stop being final); ~15% of the operations (and always the last) build a "
             "block template with node::BlockAssembler under seeded BlockCreateOptions: max weight unset / 4,000..4,000,000 / aimed at reserved + weight of the first k transactions of an unrestricted template -1..+400, "
             "reserved weight unset / 2,000.. / out of range, blockmintxfee 0..20,000 sat/kvB, coinbase sigop reservation default / 0..80,000 / aimed at 80,000 - sigops of the first k transactions -1..+5 / out of range, "
             "use_mempool, internal TestBlockValidity on/off, 7 coinbase script kinds; fault (knob clock_faults): the clock steps backwards by 1..30,000 s before the template (not below newest block time - 1 h). "
             "Oracle per template: options acceptable by the documented ranges => a template is returned; built on the tip; each tx after its in-template parents, inputs in the model's UTXO(tip) or created earlier, no double spend; "
             "listed fee == inputs-outputs; own weight sum + reserved <= configured max; own BIP141 sigop cost + reservation <= 80,000; every tx final for tip+1 at MTP(tip); coinbase == model subsidy + fees; "
             "TestBlockValidity of the returned template and of the solved block; solved block VALID per RefChain; ProcessNewBlock makes it the tip of a twin node (55%) or of the node itself (20%). "
             "non-trivial = a template with at least one mempool transaction was checked; distinct = distinct (options, tip, template txid list) fingerprints.";
    e.real_components = {"node::BlockAssembler (CreateNewBlock, addChunks, TestChunkBlockLimits, TestChunkTransactions, UpdateTime, option checks)", "CTxMemPool + TxGraph block builder (chunk order, Skip/Include)",
                         "MemPoolAccept, PrioritiseTransaction, removeForBlock/removeForReorg", "TestBlockValidity, ProcessNewBlock/ConnectBlock on two ChainstateManagers (node and twin)", "GenerateCoinbaseCommitment, GetBlockSubsidy, script interpreter"};
    e.stub_components = {"peers (transactions and blocks handed to ProcessTransaction/ProcessNewPackage/ProcessNewBlock)", "wall clock (SetMockTime)", "ValidationSignals task runner (immediate)", "proof of work (regtest target, ground by the harness)"};
    e.assumptions = {"RefChain model (UTXO, merkle/witness commitment, subsidy, BIP34/68/113, maturity, value rules) is correct (see C08)", "script validity of generator-made transactions comes from the generator's label; the twin node re-verifies all scripts with cold caches",
                     "the clock never runs more than 1 h behind the newest block time of the active chain (a node whose clock is more than 2 h behind its own tip cannot build any acceptable block)",
                     "the coinbase script handed in through coinbase_output_script stays within the caller's own sigop reservation (documented as unchecked)"};
    e.expected_probes = {"template_built", "template_with_txs", "template_with_in_template_parent", "template_with_locktime_tx", "template_with_prioritised_tx", "template_left_out_mempool_txs", "template_weight_one_below_limit",
                         "template_sigops_one_below_limit", "weight_limit_aimed", "sigop_limit_aimed", "template_valid_per_model", "twin_accepted_template_block", "node_accepted_template_block", "options_refused",
                         "template_without_mempool", "timelocked_tx_in_mempool", "heightlocked_tx_in_mempool", "nonfinal_tx_refused_by_mempool", "sigop_heavy_tx_in_mempool", "prioritised_mempool_tx", "mempool_reorg", "mined_from_mempool", "reorg_lowered_mtp", "mempool_tx_nonfinal_after_reorg"};
    return e;
}
Engine g_engine = MakeEngine();
SIM_REGISTER_ENGINE(g_engine);

} // namespace
